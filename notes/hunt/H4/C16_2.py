#!/usr/bin/env python3
"""C16 counterexample 2: `tally discover` totals an unknown description by absolute value,
`tally up` totals the same Unknown transactions with their signs."""
import contextlib
import io
import json
import os
import re
import shutil
import sys
import tempfile

SETTINGS = """year: 2025
merchants_file: config/merchants.rules
data_sources:
  - name: Bank
    file: data/bank.csv
    format: "{date:%Y-%m-%d},{description},{amount}"
"""
RULES = """[Grocer]
match: contains("GROCER")
category: Food
subcategory: Grocery
"""
CSV = """date,description,amount
2025-01-10,GROCER STORE,100.00
2025-02-10,WIDGETS INC,100.00
2025-02-12,WIDGETS INC,-100.00
2025-02-20,GADGET HOUSE,40.00
2025-02-21,GADGET HOUSE,-15.00
"""


def write(root, rel, text):
    path = os.path.join(root, rel)
    os.makedirs(os.path.dirname(path), exist_ok=True)
    with open(path, 'w', encoding='utf-8') as f:
        f.write(text)


def run_cli(argv):
    from tally import cli
    out = io.StringIO()
    old = sys.argv
    sys.argv = ['tally'] + argv
    try:
        with contextlib.redirect_stdout(out), contextlib.redirect_stderr(io.StringIO()):
            try:
                cli.main()
            except SystemExit:
                pass
    finally:
        sys.argv = old
    return re.sub(r'\x1b\[[0-9;]*m', '', out.getvalue())


def main():
    root = tempfile.mkdtemp(prefix='c16_2_')
    try:
        write(root, 'config/settings.yaml', SETTINGS)
        write(root, 'config/merchants.rules', RULES)
        write(root, 'data/bank.csv', CSV)
        cfg = os.path.join(root, 'config')
        up = json.loads(run_cli(['up', cfg, '--format', 'json', '-v', '-q']))
        disc = json.loads(run_cli(['discover', cfg, '--format', 'json', '--limit', '0']))
        disc_text = run_cli(['discover', cfg, '--limit', '0'])
    finally:
        shutil.rmtree(root, ignore_errors=True)

    up_unknown = {}
    for m in up['merchants']:
        if m['category'] == 'Unknown':
            (desc, count), = m['raw_descriptions'].items()     # one description per merchant here
            up_unknown[desc] = (count, m['total'])
    disc_unknown = {d['raw_description']: (d['count'], d['total_spend']) for d in disc}
    print("tally up, Unknown merchants (count, total):", up_unknown)
    print("tally discover           (count, total)   :", disc_unknown)
    print("discover text header:", [l for l in disc_text.splitlines() if l.startswith('Total unknown')])
    print("up Unknown category total:",
          [c['total'] for c in up['by_category'] if c['category'] == 'Unknown'] or 0.0)

    problems = []
    if set(up_unknown) != set(disc_unknown):
        problems.append(f"different descriptions: {sorted(up_unknown)} vs {sorted(disc_unknown)}")
    for desc in up_unknown:
        if desc in disc_unknown and up_unknown[desc] != disc_unknown[desc]:
            problems.append(f"{desc}: up {up_unknown[desc]} vs discover {disc_unknown[desc]}")
    if problems:
        print("\nPROPERTY VIOLATED (C16): discover does not report the counts and totals of up's "
              "Unknown transactions:")
        for p in problems:
            print("  -", p)
        return 1
    print("ok")
    return 0


if __name__ == '__main__':
    sys.exit(main())
