#!/usr/bin/env python3
"""C10 counterexample 3: `payments` and by()-aggregates do not behave as `tally reference`
documents them; the documented example filters exclude every merchant."""
import contextlib
import io
import re
import sys
from datetime import datetime

from tally import section_engine
from tally.analyzer import analyze_transactions, classify_by_sections


def txn(amount, day):
    return {
        'date': datetime.strptime(day, '%Y-%m-%d'), 'description': 'CAFE',
        'raw_description': 'CAFE', 'amount': amount, 'merchant': 'Cafe',
        'category': 'Food', 'subcategory': 'Coffee', 'source': 'Bank', 'tags': [],
    }


def reference_views_text():
    from tally import cli
    out = io.StringIO()
    old = sys.argv
    sys.argv = ['tally', 'reference', 'views']
    try:
        with contextlib.redirect_stdout(out):
            try:
                cli.main()
            except SystemExit:
                pass
    finally:
        sys.argv = old
    return re.sub(r'\x1b\[[0-9;]*m', '', out.getvalue())


def main():
    doc = reference_views_text()
    documented = [
        # (filter text as printed by `tally reference views`, what the doc says it means)
        ('payments >= 20 and total > 200', 'Places you visit frequently'),
        ('payments >= 12', 'payments = Total number of transactions'),
        ('sum(by("month")) > 100', 'At least $100/month'),
        ('count(by("month")) >= 1', 'Transaction every month'),
    ]
    for text, _ in documented:
        if text not in doc:
            print(f"(documentation no longer shows `{text}`)")
            return 0

    # 25 payments of 150 spread over Jan..May: 25 transactions, total 3750, >= 100 every month
    txns = [txn(150.0, f'2025-{1 + i % 5:02d}-{1 + i:02d}') for i in range(25)]
    stats = analyze_transactions(txns)
    views = ''.join(f"[V{i}]\nfilter: {text}\n\n" for i, (text, _) in enumerate(documented))
    cfg = section_engine.parse_sections(views)
    res = classify_by_sections(stats['by_merchant'], cfg, stats['num_months'])

    bad = []
    for i, (text, meaning) in enumerate(documented):
        members = [m for m, _ in res[f'V{i}']]
        print(f"filter: {text:<34} ({meaning}) -> {members}")
        if members != ['Cafe']:
            bad.append(text)
    if bad:
        print("\nPROPERTY VIOLATED (C10): Cafe has 25 payments, total 3750, 750 in each of 5 months, "
              "so every documented filter above is true of it, yet it is listed in none of:")
        for t in bad:
            print("  - filter:", t)
        return 1
    print("ok")
    return 0


if __name__ == '__main__':
    sys.exit(main())
