#!/usr/bin/env python3
"""C10 counterexample 4: one payment dated in a year below 1000 (typo such as 0205 for 2025)
makes the merchant -> view conversion raise, so `tally up` dies instead of classifying."""
import contextlib
import io
import os
import shutil
import sys
import tempfile
import traceback

SETTINGS = """year: 2025
views_file: config/views.rules
data_sources:
  - name: Bank
    file: data/bank.csv
    format: "{date:%m/%d/%Y},{description},{amount}"
"""
VIEWS = """[Everything]
filter: total > 0
"""
CSV = """date,description,amount
01/10/0205,GROCER STORE,100.00
02/10/2025,RENT,1000.00
"""


def write(root, rel, text):
    path = os.path.join(root, rel)
    os.makedirs(os.path.dirname(path), exist_ok=True)
    with open(path, 'w', encoding='utf-8') as f:
        f.write(text)


def main():
    from tally import cli
    root = tempfile.mkdtemp(prefix='c10_4_')
    out, err = io.StringIO(), io.StringIO()
    old = sys.argv
    crashed = None
    try:
        write(root, 'config/settings.yaml', SETTINGS)
        write(root, 'config/views.rules', VIEWS)
        write(root, 'data/bank.csv', CSV)
        sys.argv = ['tally', 'up', os.path.join(root, 'config'), '--format', 'summary', '-q']
        try:
            with contextlib.redirect_stdout(out), contextlib.redirect_stderr(err):
                try:
                    cli.main()
                except SystemExit:
                    pass
        except Exception:
            crashed = traceback.format_exc()
    finally:
        sys.argv = old
        shutil.rmtree(root, ignore_errors=True)

    if crashed:
        print(crashed.strip().splitlines()[-1])
        print('  raised in:', [l.strip() for l in crashed.splitlines() if 'analyzer.py' in l][-1])
        print("\nPROPERTY VIOLATED (C10): the filter `total > 0` is true of both merchants, but no "
              "view is produced at all: classify_by_sections raised and the run failed.")
        return 1
    text = out.getvalue()
    if 'Grocer' in text and 'Rent' in text:
        print("ok (both merchants listed)")
        return 0
    print("unexpected output:\n", text, err.getvalue())
    return 1


if __name__ == '__main__':
    sys.exit(main())
