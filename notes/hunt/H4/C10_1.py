#!/usr/bin/env python3
"""C10 counterexample 1: a views.rules variable whose name contains an upper-case
letter can never be read, so every view whose filter uses it is silently empty."""
import sys
from datetime import datetime

from tally import section_engine
from tally.analyzer import analyze_transactions, classify_by_sections


def txn(desc, amount, day, merchant, cat, sub):
    return {
        'date': datetime.strptime(day, '%Y-%m-%d'), 'description': desc,
        'raw_description': desc, 'amount': amount, 'merchant': merchant,
        'category': cat, 'subcategory': sub, 'source': 'Bank', 'tags': [],
    }


TXNS = [
    txn('GROCER', 100.0, '2025-01-10', 'Grocer', 'Food', 'Grocery'),
    txn('GROCER', 120.0, '2025-02-10', 'Grocer', 'Food', 'Grocery'),
    txn('RENT', 1000.0, '2025-01-01', 'Rent', 'Housing', 'Rent'),
    txn('RENT', 1000.0, '2025-02-01', 'Rent', 'Housing', 'Rent'),
]

VIEWS_GLOBAL = """Threshold = 500

[Big]
filter: total > Threshold
"""

VIEWS_LOCAL = """[Big]
Limit = 500
filter: total > Limit
"""

VIEWS_LOWER = """threshold = 500

[Big]
filter: total > threshold
"""


def members(views_text, stats):
    cfg = section_engine.parse_sections(views_text)
    res = classify_by_sections(stats['by_merchant'], cfg, stats['num_months'])
    return {name: sorted(m for m, _ in lst) for name, lst in res.items()}


def main():
    stats = analyze_transactions(TXNS)
    expected = {'Big': ['Rent']}          # Rent total 2000 > 500, Grocer total 220 is not
    failures = []
    for label, text in (('global variable "Threshold"', VIEWS_GLOBAL),
                        ('view-local variable "Limit"', VIEWS_LOCAL),
                        ('control: lower-case "threshold"', VIEWS_LOWER)):
        got = members(text, stats)
        print(f"{label}: {got}")
        if got != expected:
            failures.append(f"{label}: expected {expected}, got {got}")
    if failures:
        print("\nPROPERTY VIOLATED (C10): the filter `total > 500` is true of Rent, but Rent is "
              "not listed when 500 is held in a variable spelled with a capital letter:")
        for f in failures:
            print("  -", f)
        return 1
    print("ok")
    return 0


if __name__ == '__main__':
    sys.exit(main())
