#!/usr/bin/env python3
"""C12 counterexample 3: a `field:` directive whose value is a date makes the HTML report
(the default output of `tally up`) crash, while JSON / Markdown / text render."""
import contextlib
import io
import os
import shutil
import sys
import tempfile
import traceback

SETTINGS = """year: 2025
merchants_file: config/merchants.rules
data_sources:
  - name: Bank
    file: data/bank.csv
    format: "{date:%Y-%m-%d},{description},{amount}"
  - name: orders
    file: data/orders.csv
    format: "{date:%Y-%m-%d},{item},{amount}"
    columns:
      description: "{item}"
    supplemental: true
"""
# (a) the transaction's own date, (b) the date of a matching row of a supplemental source
RULES_A = """[Grocer]
match: contains("GROCER")
category: Food
subcategory: Grocery
field: posted = date
"""
RULES_B = """[Shop]
match: contains("SHOP")
category: Shopping
subcategory: Online
let: hits = [r for r in orders if r.amount == amount]
field: ordered_on = hits[0].date
field: item = hits[0].item
"""
CSV = """date,description,amount
2025-01-10,GROCER STORE,100.00
2025-01-12,SHOP ONLINE,25.00
"""
ORDERS = """date,item,amount
2025-01-09,Book,25.00
"""


def write(root, rel, text):
    path = os.path.join(root, rel)
    os.makedirs(os.path.dirname(path), exist_ok=True)
    with open(path, 'w', encoding='utf-8') as f:
        f.write(text)


def run_cli(argv):
    """-> (stdout, traceback or None)"""
    from tally import cli
    out = io.StringIO()
    old = sys.argv
    sys.argv = ['tally'] + argv
    tb = None
    try:
        try:
            with contextlib.redirect_stdout(out), contextlib.redirect_stderr(io.StringIO()):
                try:
                    cli.main()
                except SystemExit:
                    pass
        except Exception:
            tb = traceback.format_exc()
    finally:
        sys.argv = old
    return out.getvalue(), tb


def main():
    problems = []
    for label, rules in (('field: posted = date', RULES_A),
                         ('field: ordered_on = hits[0].date (supplemental row)', RULES_B)):
        root = tempfile.mkdtemp(prefix='c12_3_')
        try:
            write(root, 'config/settings.yaml', SETTINGS)
            write(root, 'config/merchants.rules', rules)
            write(root, 'data/bank.csv', CSV)
            write(root, 'data/orders.csv', ORDERS)
            cfg = os.path.join(root, 'config')
            results = {}
            for fmt in ('json', 'markdown', 'summary'):
                out, tb = run_cli(['up', cfg, '--format', fmt, '-q'])
                results[fmt] = 'ok' if (tb is None and out.strip()) else (tb or 'empty').strip().splitlines()[-1]
            html_path = os.path.join(root, 'report.html')
            out, tb = run_cli(['up', cfg, '-q', '-o', html_path])
            results['html'] = 'ok' if (tb is None and os.path.exists(html_path)) else \
                (tb or 'no file written').strip().splitlines()[-1]
        finally:
            shutil.rmtree(root, ignore_errors=True)
        print(label)
        for fmt, res in results.items():
            print(f"    {fmt:<9} {res}")
            if res != 'ok':
                problems.append(f"{label}: --format {fmt}: {res}")
    if problems:
        print("\nPROPERTY VIOLATED (C12): an analysable budget for which a format does not render:")
        for p in problems:
            print("  -", p)
        return 1
    print("ok")
    return 0


if __name__ == '__main__':
    sys.exit(main())
