#!/usr/bin/env python3
"""C10 counterexample 5: `tally explain <merchant>` evaluates the same views file differently
from `tally up` (all payments moved to the 15th, period() defaults, another file location),
so the two commands disagree on which views a merchant is in."""
import contextlib
import io
import json
import os
import re
import shutil
import sys
import tempfile

SETTINGS = """year: 2025
merchants_file: config/merchants.rules
views_file: config/views.rules
data_sources:
  - name: Bank
    file: data/bank.csv
    format: "{date:%Y-%m-%d},{description},{amount}"
"""
RULES = """[Cafe]
match: contains("CAFE")
category: Food
subcategory: Coffee
"""
VIEWS = """[Twice A Day]
filter: max(count(by("day"))) >= 2

[Whole Period]
filter: months >= period("month")

[Food]
filter: category == "Food"
"""
# Cafe: two payments on different days of January, one in February; the data covers 2 months
CSV = """date,description,amount
2025-01-03,CAFE NERO,4.00
2025-01-20,CAFE NERO,5.00
2025-02-07,CAFE NERO,6.00
"""


def write(root, rel, text):
    path = os.path.join(root, rel)
    os.makedirs(os.path.dirname(path), exist_ok=True)
    with open(path, 'w', encoding='utf-8') as f:
        f.write(text)


def run_cli(argv):
    from tally import cli
    out = io.StringIO()
    old = sys.argv
    sys.argv = ['tally'] + argv
    try:
        with contextlib.redirect_stdout(out), contextlib.redirect_stderr(io.StringIO()):
            try:
                cli.main()
            except SystemExit:
                pass
    finally:
        sys.argv = old
    return re.sub(r'\x1b\[[0-9;]*m', '', out.getvalue())


def main():
    root = tempfile.mkdtemp(prefix='c10_5_')
    try:
        write(root, 'config/settings.yaml', SETTINGS)
        write(root, 'config/merchants.rules', RULES)
        write(root, 'config/views.rules', VIEWS)
        write(root, 'data/bank.csv', CSV)
        cfg = os.path.join(root, 'config')
        summary = run_cli(['up', cfg, '--format', 'summary', '-q'])
        explained = json.loads(run_cli(['explain', 'Cafe', cfg, '--format', 'json']))
        up_views = sorted(v for v in ('Twice A Day', 'Whole Period', 'Food')
                          if re.search(r'^' + re.escape(v.upper()) + r' \(', summary, re.M))
        explain_views = sorted(v['name'] for v in explained['views'])

        # same budget, views file under another name: `up` still has views, `explain` has none
        os.rename(os.path.join(cfg, 'views.rules'), os.path.join(cfg, 'my_views.rules'))
        write(root, 'config/settings.yaml', SETTINGS.replace('config/views.rules', 'config/my_views.rules'))
        summary2 = run_cli(['up', cfg, '--format', 'summary', '-q'])
        explained2 = json.loads(run_cli(['explain', 'Cafe', cfg, '--format', 'json']))
        up_views2 = sorted(v for v in ('Twice A Day', 'Whole Period', 'Food')
                           if re.search(r'^' + re.escape(v.upper()) + r' \(', summary2, re.M))
        explain_views2 = sorted(v['name'] for v in explained2['views'])
    finally:
        shutil.rmtree(root, ignore_errors=True)

    truth = ['Food', 'Whole Period']   # never twice on one day; active in both months of the data
    print("by hand                     :", truth)
    print("tally up (views.rules)      :", up_views)
    print("tally explain Cafe          :", explain_views)
    print("tally up (my_views.rules)   :", up_views2)
    print("tally explain Cafe          :", explain_views2)
    bad = []
    if up_views != truth:
        bad.append(f"up lists Cafe in {up_views}, expected {truth}")
    if explain_views != up_views:
        bad.append(f"explain lists Cafe in {explain_views}, up in {up_views}")
    if explain_views2 != up_views2:
        bad.append(f"views_file: config/my_views.rules - explain lists {explain_views2}, up {up_views2}")
    if bad:
        print("\nPROPERTY VIOLATED (C10):")
        for b in bad:
            print("  -", b)
        return 1
    print("ok")
    return 0


if __name__ == '__main__':
    sys.exit(main())
