#!/usr/bin/env python3
"""C16 counterexample 1: `tally explain "<raw description>" --amount N` evaluates the rules
without a data source and without a date, so it reports Unknown (or the wrong rule) for
descriptions that `tally up` classifies with rules using `source`, `year`/`month` or `weekday`."""
import contextlib
import io
import json
import os
import re
import shutil
import sys
import tempfile

SETTINGS = """year: 2025
merchants_file: config/merchants.rules
data_sources:
  - name: Bank
    file: data/bank.csv
    format: "{date:%Y-%m-%d},{description},{amount}"
"""
RULES = """[Bank Fee]
match: contains("MONTHLY FEE") and source == "Bank"
category: Finance
subcategory: Fees

[Gym 2025]
match: contains("GYM") and year == 2025
category: Health
subcategory: Gym

[Monday Coffee]
match: contains("COFFEE") and weekday == 0
category: Food
subcategory: Office Coffee

[Coffee]
match: contains("COFFEE")
category: Food
subcategory: Coffee
"""
# 2025-01-14 .. 2025-01-17 are Tuesday .. Friday: no transaction falls on a Monday
CSV = """date,description,amount
2025-01-14,MONTHLY FEE,12.00
2025-01-15,GYM CLUB,40.00
2025-01-16,COFFEE HUT,4.00
2025-01-17,COFFEE HUT,4.00
"""
# descriptions asked of `explain`: same text as in the data plus a suffix, so that explain takes
# its raw-description path (no existing merchant / transaction contains the query)
QUERIES = [
    ('MONTHLY FEE JAN', 12.0, 'MONTHLY FEE'),
    ('GYM CLUB 0042', 40.0, 'GYM CLUB'),
    ('COFFEE HUT 7', 4.0, 'COFFEE HUT'),
]


def write(root, rel, text):
    path = os.path.join(root, rel)
    os.makedirs(os.path.dirname(path), exist_ok=True)
    with open(path, 'w', encoding='utf-8') as f:
        f.write(text)


def run_cli(argv):
    from tally import cli
    out = io.StringIO()
    old = sys.argv
    sys.argv = ['tally'] + argv
    try:
        with contextlib.redirect_stdout(out), contextlib.redirect_stderr(io.StringIO()):
            try:
                cli.main()
            except SystemExit:
                pass
    finally:
        sys.argv = old
    return re.sub(r'\x1b\[[0-9;]*m', '', out.getvalue())


def up_assignments(root, csv_text):
    """description -> set of (merchant, category, subcategory, rule) that `tally up` assigns"""
    write(root, 'data/bank.csv', csv_text)
    out = json.loads(run_cli(['up', os.path.join(root, 'config'), '--format', 'json', '-v', '-q']))
    res = {}
    for m in out['merchants']:
        for desc in m.get('raw_descriptions', {}):
            res.setdefault(desc, set()).add(
                (m['name'], m['category'], m['subcategory'], m.get('pattern', {}).get('matched')))
    return res


def main():
    root = tempfile.mkdtemp(prefix='c16_1_')
    try:
        write(root, 'config/settings.yaml', SETTINGS)
        write(root, 'config/merchants.rules', RULES)
        # what `up` does with the queried descriptions themselves: put them in the statement,
        # on the same dates as their originals
        lines = CSV.strip().splitlines()
        extra = []
        for query, amount, original in QUERIES:
            for line in lines[1:]:
                d, desc, amt = line.split(',')
                if desc == original:
                    extra.append(f"{d},{query},{amt}")
        up = up_assignments(root, '\n'.join(lines + extra) + '\n')

        # what `explain` says about them when they are not (yet) in the statement
        write(root, 'data/bank.csv', CSV)
        explained = {}
        for query, amount, _ in QUERIES:
            out = run_cli(['explain', query, os.path.join(root, 'config'),
                           '--format', 'json', '--amount', str(amount)])
            t = json.loads(out)
            explained[query] = (t['merchant'], t['category'], t['subcategory'],
                                (t['matched_rule'] or {}).get('pattern'))
    finally:
        shutil.rmtree(root, ignore_errors=True)

    bad = []
    for query, amount, _ in QUERIES:
        print(f"{query!r} amount {amount}")
        print(f"    tally up      -> {sorted(up[query], key=str)}")
        print(f"    tally explain -> {explained[query]}")
        if explained[query] not in up[query]:
            bad.append(query)
    if bad:
        print("\nPROPERTY VIOLATED (C16): explain reports a merchant / category / rule that `tally up` "
              "assigns to no such transaction of this budget for: " + ', '.join(map(repr, bad)))
        return 1
    print("ok")
    return 0


if __name__ == '__main__':
    sys.exit(main())
