#!/usr/bin/env python3
"""C10 counterexample 2: two views with the same name share one result list, so adding a
view changes the membership and the total of another one, and a merchant is listed twice."""
import contextlib
import io
import os
import shutil
import sys
import tempfile

SETTINGS = """year: 2025
merchants_file: config/merchants.rules
views_file: config/views.rules
data_sources:
  - name: Bank
    file: data/bank.csv
    format: "{date:%Y-%m-%d},{description},{amount}"
"""
RULES = """[Grocer]
match: contains("GROCER")
category: Food
subcategory: Grocery

[Rent]
match: contains("RENT")
category: Housing
subcategory: Rent
"""
CSV = """date,description,amount
2025-01-10,GROCER STORE,100.00
2025-02-10,GROCER STORE,120.00
2025-01-01,RENT,1000.00
"""
VIEWS_ONE = """[Food]
filter: category == "Food"
"""
# the same view, plus a second block that happens to reuse the name
VIEWS_TWO = VIEWS_ONE + """
[Food]
filter: total > 0
"""


def write(root, rel, text):
    path = os.path.join(root, rel)
    os.makedirs(os.path.dirname(path), exist_ok=True)
    with open(path, 'w', encoding='utf-8') as f:
        f.write(text)


def classify(root):
    from tally.config_loader import load_config
    from tally.merchant_utils import get_all_rules
    from tally.analyzer import (parse_generic_csv, analyze_transactions,
                                classify_by_sections, compute_section_totals)
    config = load_config(os.path.join(root, 'config'))
    assert config['sections'] is not None, config['_warnings']
    rules = get_all_rules(config['_merchants_file'])
    src = config['data_sources'][0]
    txns = parse_generic_csv(os.path.join(root, src['file']), src['_format_spec'], rules,
                             source_name=src['name'])
    stats = analyze_transactions(txns)
    res = classify_by_sections(stats['by_merchant'], config['sections'], stats['num_months'])
    return {k: ([m for m, _ in v], compute_section_totals(v)['total']) for k, v in res.items()}, \
        [(s.name, s.filter_expr) for s in config['sections'].sections]


def run_cli(argv):
    from tally import cli
    out = io.StringIO()
    old = sys.argv
    sys.argv = ['tally'] + argv
    try:
        with contextlib.redirect_stdout(out), contextlib.redirect_stderr(io.StringIO()):
            try:
                cli.main()
            except SystemExit:
                pass
    finally:
        sys.argv = old
    return out.getvalue()


def main():
    root = tempfile.mkdtemp(prefix='c10_2_')
    try:
        write(root, 'config/settings.yaml', SETTINGS)
        write(root, 'config/merchants.rules', RULES)
        write(root, 'data/bank.csv', CSV)

        write(root, 'config/views.rules', VIEWS_ONE)
        one, _ = classify(root)
        write(root, 'config/views.rules', VIEWS_TWO)
        two, parsed = classify(root)
        summary = run_cli(['up', os.path.join(root, 'config'), '--format', 'summary', '-q'])
    finally:
        shutil.rmtree(root, ignore_errors=True)

    print("views parsed from the second file:", parsed)
    print("one [Food] view :", one)
    print("two [Food] views:", two)
    problems = []
    members, total = two['Food']
    if len(members) != len(set(members)):
        problems.append(f"merchant listed more than once in view 'Food': {members}")
    if 'Rent' in members:
        problems.append("Rent (category Housing) is listed in the view whose filter is "
                        "category == \"Food\": adding a view changed another view's membership")
    if one['Food'] != two['Food']:
        problems.append(f"membership/total of [Food] filter category==\"Food\" changed from "
                        f"{one['Food']} to {two['Food']} when another view was added")
    if abs(total - sum({'Grocer': 220.0, 'Rent': 1000.0}[m] for m in set(members))) > 1e-9:
        problems.append(f"view total {total} is not the sum of its (distinct) members' totals")
    if problems:
        print("\n`tally up --format summary` on the second file:\n")
        print('\n'.join(summary.splitlines()[:18]))
        print("\nPROPERTY VIOLATED (C10):")
        for p in problems:
            print("  -", p)
        return 1
    print("ok")
    return 0


if __name__ == '__main__':
    sys.exit(main())
