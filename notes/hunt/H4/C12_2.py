#!/usr/bin/env python3
"""C12 counterexample 2: two views whose names differ only in letter case and space vs underscore
get the same derived id in the HTML data, so one view (and its merchants) is lost there while
the text summary shows both."""
import contextlib
import html.parser
import io
import json
import os
import re
import shutil
import sys
import tempfile

SETTINGS = """year: 2025
merchants_file: config/merchants.rules
views_file: config/views.rules
data_sources:
  - name: Bank
    file: data/bank.csv
    format: "{date:%Y-%m-%d},{description},{amount}"
"""
RULES = """[Grocer]
match: contains("GROCER")
category: Food
subcategory: Grocery

[Rent]
match: contains("RENT")
category: Housing
subcategory: Rent
"""
VIEWS = """[Big Bills]
filter: total > 500

[big_bills]
description: everything that is not a big bill
filter: total <= 500
"""
CSV = """date,description,amount
2025-01-10,GROCER STORE,100.00
2025-02-01,RENT,1000.00
"""


def write(root, rel, text):
    path = os.path.join(root, rel)
    os.makedirs(os.path.dirname(path), exist_ok=True)
    with open(path, 'w', encoding='utf-8') as f:
        f.write(text)


def run_cli(argv):
    from tally import cli
    out = io.StringIO()
    old = sys.argv
    sys.argv = ['tally'] + argv
    try:
        with contextlib.redirect_stdout(out), contextlib.redirect_stderr(io.StringIO()):
            try:
                cli.main()
            except SystemExit:
                pass
    finally:
        sys.argv = old
    return re.sub(r'\x1b\[[0-9;]*m', '', out.getvalue())


class Scripts(html.parser.HTMLParser):
    def __init__(self):
        super().__init__()
        self.inside = False
        self.scripts = []

    def handle_starttag(self, tag, attrs):
        if tag == 'script':
            self.inside = True
            self.scripts.append('')

    def handle_endtag(self, tag):
        if tag == 'script':
            self.inside = False

    def handle_data(self, data):
        if self.inside:
            self.scripts[-1] += data


def main():
    root = tempfile.mkdtemp(prefix='c12_2_')
    try:
        write(root, 'config/settings.yaml', SETTINGS)
        write(root, 'config/merchants.rules', RULES)
        write(root, 'config/views.rules', VIEWS)
        write(root, 'data/bank.csv', CSV)
        cfg = os.path.join(root, 'config')
        txt = run_cli(['up', cfg, '--format', 'summary', '-q'])
        html_path = os.path.join(root, 'report.html')
        run_cli(['up', cfg, '-q', '-o', html_path])
        p = Scripts()
        p.feed(open(html_path, encoding='utf-8').read())
        blob = next(s for s in p.scripts if s.lstrip().startswith('window.spendingData'))
        data = json.loads(blob[blob.index('{'):blob.rindex('}') + 1])
    finally:
        shutil.rmtree(root, ignore_errors=True)

    # what the analysis (text summary) says: view -> merchants
    text_views = {}
    current = None
    for line in txt.splitlines():
        m = re.match(r'^(\S.*?) \(\$[\d,]+/yr', line)
        if m:
            current = m.group(1)
            text_views[current] = []
        elif current and re.match(r'^(Grocer|Rent)\b', line):
            text_views[current].append(line.split()[0])
    html_views = {v['title']: [m['displayName'] for m in v['merchants'].values()]
                  for v in data['sections'].values()}
    print("text summary views:", text_views)
    print("HTML data views   :", html_views, " (keys:", list(data['sections']), ")")

    problems = []
    if len(html_views) != len(text_views):
        problems.append(f"{len(text_views)} views analysed and printed, {len(html_views)} in the HTML data")
    listed = sorted(m for ms in html_views.values() for m in ms)
    if listed != ['Grocer', 'Rent']:
        problems.append(f"merchants present in the HTML views: {listed}; analysed: ['Grocer', 'Rent'] "
                        "(Rent's view 'Big Bills' was overwritten)")
    if problems:
        print("\nPROPERTY VIOLATED (C12):")
        for pr in problems:
            print("  -", pr)
        return 1
    print("ok")
    return 0


if __name__ == '__main__':
    sys.exit(main())
