#!/usr/bin/env python3
"""C12 counterexample 1: `tally up --format json` reports different spending, credits and
cash-flow figures than the text summary, the Markdown export and the HTML report."""
import contextlib
import html.parser
import io
import json
import os
import re
import shutil
import sys
import tempfile

SETTINGS = """year: 2025
merchants_file: config/merchants.rules
data_sources:
  - name: Bank
    file: data/bank.csv
    format: "{date:%Y-%m-%d},{description},{amount}"
"""
RULES = """[Salary]
match: contains("ACME PAYROLL")
category: Income
subcategory: Salary
tags: income

[Grocer]
match: contains("GROCER")
category: Food
subcategory: Grocery
"""
CSV = """date,description,amount
2025-01-05,ACME PAYROLL,5000.00
2025-01-10,GROCER STORE,100.00
2025-02-10,GROCER STORE,-30.00
2025-02-11,CORNER SHOP,12.00
"""


def write(root, rel, text):
    path = os.path.join(root, rel)
    os.makedirs(os.path.dirname(path), exist_ok=True)
    with open(path, 'w', encoding='utf-8') as f:
        f.write(text)


def run_cli(argv):
    from tally import cli
    out = io.StringIO()
    old = sys.argv
    sys.argv = ['tally'] + argv
    try:
        with contextlib.redirect_stdout(out), contextlib.redirect_stderr(io.StringIO()):
            try:
                cli.main()
            except SystemExit:
                pass
    finally:
        sys.argv = old
    return re.sub(r'\x1b\[[0-9;]*m', '', out.getvalue())


def money(text):
    return float(text.replace('$', '').replace(',', '').replace('+', ''))


class Scripts(html.parser.HTMLParser):
    def __init__(self):
        super().__init__()
        self.inside = False
        self.scripts = []

    def handle_starttag(self, tag, attrs):
        if tag == 'script':
            self.inside = True
            self.scripts.append('')

    def handle_endtag(self, tag):
        if tag == 'script':
            self.inside = False

    def handle_data(self, data):
        if self.inside:
            self.scripts[-1] += data


def main():
    root = tempfile.mkdtemp(prefix='c12_1_')
    try:
        write(root, 'config/settings.yaml', SETTINGS)
        write(root, 'config/merchants.rules', RULES)
        write(root, 'data/bank.csv', CSV)
        cfg = os.path.join(root, 'config')
        js = json.loads(run_cli(['up', cfg, '--format', 'json', '-q']))['summary']
        md = run_cli(['up', cfg, '--format', 'markdown', '-q'])
        txt = run_cli(['up', cfg, '--format', 'summary', '-q'])
        html_path = os.path.join(root, 'report.html')
        run_cli(['up', cfg, '-q', '-o', html_path])
        p = Scripts()
        p.feed(open(html_path, encoding='utf-8').read())
        blob = next(s for s in p.scripts if s.lstrip().startswith('window.spendingData'))
        hd = json.loads(blob[blob.index('{'):blob.rindex('}') + 1])
    finally:
        shutil.rmtree(root, ignore_errors=True)

    def md_row(label):
        return money(re.search(r'\|\s*\**' + re.escape(label) + r'\**\s*\|\s*\**([-+$\d.,]+)', md).group(1))

    def txt_row(label):
        m = re.search(re.escape(label) + r'\s*([-+]?)\s*\$?(-?[\d,.]+)', txt)
        value = money(m.group(2))
        return -value if m.group(1) == '-' else value

    figures = {
        'markdown': dict(income=md_row('Income'), spending=abs(md_row('Spending')),
                         credits=md_row('Credits/Refunds'), cash_flow=md_row('Net Cash Flow')),
        'text': dict(income=txt_row('Income:'), spending=abs(txt_row('Spending:')),
                     credits=txt_row('Credits/Refunds:'), cash_flow=txt_row('Net Cash Flow:')),
        'html': dict(income=hd['incomeTotal'], spending=hd['spendingTotal'],
                     credits=hd['creditsTotal'], cash_flow=hd['cashFlow']),
        'json': dict(income=js['income_total'],
                     spending=js['total_spending'],       # also 'gross_spending': same value here
                     credits=js['credits_total'], cash_flow=js['net_cash_flow']),
    }
    # analysed by hand: income 5000; purchases 100 + 12; one refund of 30
    truth = dict(income=5000.0, spending=112.0, credits=30.0, cash_flow=5000.0 - 112.0 + 30.0)
    print(f"{'':10}" + ''.join(f"{k:>12}" for k in truth))
    print(f"{'expected':10}" + ''.join(f"{v:>12.2f}" for v in truth.values()))
    bad = []
    for fmt, vals in figures.items():
        print(f"{fmt:10}" + ''.join(f"{vals[k]:>12.2f}" for k in truth))
        for k in truth:
            if abs(vals[k] - truth[k]) > 0.5:       # text output is rounded to whole dollars
                bad.append(f"{fmt}: {k} = {vals[k]} (others / analysed: {truth[k]})")
    print("json summary:", js)
    if bad:
        print("\nPROPERTY VIOLATED (C12): the formats do not report the same figures:")
        for b in bad:
            print("  -", b)
        return 1
    print("ok")
    return 0


if __name__ == '__main__':
    sys.exit(main())
