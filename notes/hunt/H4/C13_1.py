#!/usr/bin/env python3
"""C13 counterexample 1: the report's JavaScript re-buckets each transaction with the
*merchant's* tag union, the command line buckets it with the *transaction's* own tags; for a
merchant whose transactions are not all tagged alike the browser totals differ from tally's.

Needs `node` on PATH (the property's own observation point). Runs the unmodified
classification block and the unmodified `filteredViewTotals` computation of
spending_report.js against the data embedded in a report produced by `tally up`."""
import contextlib
import html.parser
import io
import json
import os
import re
import shutil
import subprocess
import sys
import tempfile

SETTINGS = """year: 2025
merchants_file: config/merchants.rules
data_sources:
  - name: Bank
    file: data/bank.csv
    format: "{date:%Y-%m-%d},{description},{amount}"
"""
RULES = """[Venmo]
match: contains("VENMO")
category: Personal
subcategory: P2P

# tag-only rule: moving my Venmo balance to the bank is a transfer, paying people is not
[Venmo Cashout]
match: contains("VENMO") and contains("CASHOUT")
tags: transfer

[Grocer]
match: contains("GROCER")
category: Food
subcategory: Grocery
"""
CSV = """date,description,amount
2025-01-10,VENMO PAYMENT JOHN,50.00
2025-01-20,VENMO CASHOUT,-300.00
2025-02-03,GROCER STORE,100.00
"""


def write(root, rel, text):
    path = os.path.join(root, rel)
    os.makedirs(os.path.dirname(path), exist_ok=True)
    with open(path, 'w', encoding='utf-8') as f:
        f.write(text)


def run_cli(argv):
    from tally import cli
    out = io.StringIO()
    old = sys.argv
    sys.argv = ['tally'] + argv
    try:
        with contextlib.redirect_stdout(out), contextlib.redirect_stderr(io.StringIO()):
            try:
                cli.main()
            except SystemExit:
                pass
    finally:
        sys.argv = old
    return re.sub(r'\x1b\[[0-9;]*m', '', out.getvalue())


class Scripts(html.parser.HTMLParser):
    def __init__(self):
        super().__init__()
        self.inside = False
        self.scripts = []

    def handle_starttag(self, tag, attrs):
        if tag == 'script':
            self.inside = True
            self.scripts.append('')

    def handle_endtag(self, tag):
        if tag == 'script':
            self.inside = False

    def handle_data(self, data):
        if self.inside:
            self.scripts[-1] += data


def js_block(source, start_marker):
    """Text of `const X = computed(() => { ... });` starting at start_marker (brace matching)."""
    start = source.index(start_marker)
    i = source.index('{', start)
    depth = 0
    while True:
        if source[i] == '{':
            depth += 1
        elif source[i] == '}':
            depth -= 1
            if depth == 0:
                break
        i += 1
    return source[start:source.index(';', i) + 1]


def main():
    if not shutil.which('node'):
        print("node not found - cannot run the JavaScript side")
        return 2
    import tally
    js_src = open(os.path.join(os.path.dirname(tally.__file__), 'spending_report.js'),
                  encoding='utf-8').read()
    classification = js_src[js_src.index("const INCOME_TAG"):js_src.index("// ========== REUSABLE COMPONENTS")]
    totals_code = js_block(js_src, "const filteredViewTotals = computed(")

    root = tempfile.mkdtemp(prefix='c13_1_')
    try:
        write(root, 'config/settings.yaml', SETTINGS)
        write(root, 'config/merchants.rules', RULES)
        write(root, 'data/bank.csv', CSV)
        cfg = os.path.join(root, 'config')
        md = run_cli(['up', cfg, '--format', 'markdown', '-q'])
        html_path = os.path.join(root, 'report.html')
        run_cli(['up', cfg, '-q', '-o', html_path])
        p = Scripts()
        p.feed(open(html_path, encoding='utf-8').read())
        blob = next(s for s in p.scripts if s.lstrip().startswith('window.spendingData'))
        data = json.loads(blob[blob.index('{'):blob.rindex('}') + 1])

        # Browser side. `filteredCategoryView` with a filter that every transaction passes (e.g. the
        # month range 2025-01..2025-02) holds every merchant with filteredTxns == transactions;
        # filteredViewTotals falls back to exactly that when given the unfiltered view.
        script = (classification
                  + "\nconst computed = f => ({ get value() { return f(); } });\n"
                  + "const filteredCategoryView = { value: "
                  + json.dumps(data['categoryView']) + " };\n"
                  + totals_code
                  + "\nconsole.log(JSON.stringify(filteredViewTotals.value));\n")
        js_path = os.path.join(root, 'browser.js')
        write(root, 'browser.js', script)
        browser = json.loads(subprocess.check_output(['node', js_path], text=True))
    finally:
        shutil.rmtree(root, ignore_errors=True)

    def md_row(label):
        m = re.search(r'\|\s*\**' + re.escape(label) + r'\**\s*\|\s*\**([-+]?)\$([\d.,]+)', md)
        v = float(m.group(2).replace(',', ''))
        return -v if m.group(1) == '-' else v

    cli_totals = {
        'spending': abs(md_row('Spending')),
        'credits': md_row('Credits/Refunds'),
        'income': md_row('Income'),
        'transfers': md_row('Net Transfers'),
        'net': None,
    }
    cli_totals['net'] = cli_totals['spending'] - cli_totals['credits']   # JS "spending view" (no income)
    per_txn = [(t['description'], t['amount'], t['tags'], m['tags'])
               for c in data['categoryView'].values() for s in c['subcategories'].values()
               for m in s['merchants'].values() for t in m['transactions']]
    print("transactions in the report (description, amount, own tags, merchant tags):")
    for row in per_txn:
        print("   ", row)
    print("tally up (markdown / stats)     :", {k: cli_totals[k] for k in ('spending', 'credits', 'income', 'transfers')})
    print("report JS, all transactions shown:", {k: browser[k] for k in ('spending', 'credits', 'income', 'transfers')})
    print("report header data (from stats) :", {k: data[k] for k in ('spendingTotal', 'creditsTotal', 'incomeTotal', 'transfersNet')})
    bad = [k for k in ('spending', 'credits', 'income', 'transfers')
           if abs(browser[k] - cli_totals[k]) > 0.005]
    if bad:
        print("\nPROPERTY VIOLATED (C13): totals recomputed by the report's JavaScript differ from "
              "the totals tally prints for: " + ', '.join(bad))
        print("  'VENMO PAYMENT JOHN' 50.00 (no tags) is spending on the command line, but the "
              "report classifies it with its merchant's tags ['transfer'] -> transfer in.")
        return 1
    print("ok")
    return 0


if __name__ == '__main__':
    sys.exit(main())
