#!/usr/bin/env python3
"""C01 counterexample 3: for data sources declared with `type: amex` / `type: boa`
(deprecated but still supported) `tally up` never applies the rules file's field
transforms, so the same description is classified differently depending on the source type.
"""
import json
import os
import shutil
import subprocess
import sys
import tempfile

import tally

SETTINGS = """year: 2025
merchants_file: config/merchants.rules
data_sources:
  - name: Amex
    file: data/amex.csv
    type: amex
  - name: Boa
    file: data/boa.txt
    type: boa
  - name: Bank
    file: data/bank.csv
    format: "{date:%m/%d/%Y},{description},{amount}"
"""

RULES = """field.description = regex_replace(field.description, "^APLPAY\\\\s+", "")

[Starbucks]
match: startswith("STARBUCKS")
category: Food
subcategory: Coffee
"""


def run_up(budget):
    env = dict(os.environ)
    src = os.path.dirname(os.path.dirname(os.path.abspath(tally.__file__)))
    env["PYTHONPATH"] = src + os.pathsep + env.get("PYTHONPATH", "")
    p = subprocess.run(
        [sys.executable, "-m", "tally", "up", "--format", "json", "-v", "-q", os.path.join(budget, "config")],
        capture_output=True, text=True, env=env, cwd=budget,
    )
    if p.returncode != 0:
        print("tally up failed:", p.stdout, p.stderr)
        sys.exit(2)
    return json.loads(p.stdout)


def main():
    budget = tempfile.mkdtemp(prefix="c01_3_")
    try:
        os.makedirs(os.path.join(budget, "config"))
        os.makedirs(os.path.join(budget, "data"))
        with open(os.path.join(budget, "config", "settings.yaml"), "w") as f:
            f.write(SETTINGS)
        with open(os.path.join(budget, "config", "merchants.rules"), "w") as f:
            f.write(RULES)
        with open(os.path.join(budget, "data", "amex.csv"), "w") as f:
            f.write("Date,Description,Amount\n01/05/2025,APLPAY STARBUCKS AMEX,5.00\n")
        with open(os.path.join(budget, "data", "boa.txt"), "w") as f:
            f.write("01/07/2025  APLPAY STARBUCKS BOA  7.00  1,000.00\n")
        with open(os.path.join(budget, "data", "bank.csv"), "w") as f:
            f.write("Date,Description,Amount\n01/06/2025,APLPAY STARBUCKS BANK,6.00\n")
        out = run_up(budget)
    finally:
        shutil.rmtree(budget, ignore_errors=True)

    by_desc = {}
    for m in out["merchants"]:
        for raw in m.get("raw_descriptions", {}):
            by_desc[raw] = (m["name"], m["category"], m["subcategory"])

    expected = ("Starbucks", "Food", "Coffee")
    bad = {d: r for d, r in by_desc.items() if r != expected}
    assert by_desc.get("APLPAY STARBUCKS BANK") == expected, by_desc
    if bad:
        print("C01 VIOLATED: field transforms are not applied to type: amex / type: boa sources")
        for d, r in sorted(by_desc.items()):
            print(f"  {d!r:32} -> {r}")
        print(f"  expected {expected} for all three (transform strips 'APLPAY ', rule is startswith(\"STARBUCKS\"))")
        sys.exit(1)
    print("ok: property held")


if __name__ == "__main__":
    main()
