#!/usr/bin/env python3
"""C09 counterexample 3: "total length of its pattern text" is measured with two regexes,
"([^"]*)" and '([^']*)', run independently over the raw expression. Two apostrophes inside
double-quoted patterns (MCDONALD'S ... WENDY'S) are read as one long single-quoted string, so
the text BETWEEN the patterns (`S") or contains("WENDY`) is added to the length and a rule with
less pattern text outranks one with more.
"""
import sys

from tally.merchant_engine import parse_merchants, calculate_specificity

R_SHORT = """[Fast Food]
match: contains("MCDONALD'S") or contains("WENDY'S")
category: Food
subcategory: Fast Food
"""
R_LONG = """[Airport Dining]
match: contains("MCDONALD'S SEATAC") or contains("SEATAC DINING")
category: Travel
subcategory: Airport
"""
TXN = {"description": "MCDONALD'S SEATAC F1234", "amount": 11.0}


def main():
    true_len_short = len("MCDONALD'S") + len("WENDY'S")            # 17
    true_len_long = len("MCDONALD'S SEATAC") + len("SEATAC DINING")  # 30
    assert true_len_long > true_len_short
    problems = []
    for label, content in (("short first", R_SHORT + "\n" + R_LONG), ("long first", R_LONG + "\n" + R_SHORT)):
        eng = parse_merchants(content, match_mode="most_specific")
        res = eng.match(TXN)
        specs = {r.name: calculate_specificity(r) for r in res.all_matching_rules}
        assert len(specs) == 2, specs
        # equal priority (50), equal pattern conditions (2), no constraints (0) -> pattern text
        # length decides: 30 > 17 -> "Airport Dining" must win
        if res.merchant != "Airport Dining":
            problems.append(
                f"  [{label}] winner {res.merchant}/{res.category}; real pattern-text lengths "
                f"{true_len_short} vs {true_len_long}; computed tuples {specs}")
    if problems:
        print("C09 VIOLATED: pattern-text length miscounted when patterns contain apostrophes")
        print("\n".join(problems))
        sys.exit(1)
    print("ok: property held")


if __name__ == "__main__":
    main()
