#!/usr/bin/env python3
"""C02 counterexample 2 (same root cause as C01_1): tags of matching legacy CSV rules are lost
when the rule's regex starts with "(" / contains " and " / " or ", because the legacy loop
treats the pattern as an expression, fails to parse it and skips the rule. Applies to
categorizing and tag-only CSV rows alike.
"""
import os
import re
import shutil
import sys
import tempfile

from tally import merchant_utils as mu

CSV = """Pattern,Merchant,Category,Subcategory,Tags
UBER,Uber,Transport,Rideshare,ride
(UBER|LYFT|DELTA AIR),Work travel,,,Business|Reimbursable
HOTEL or MOTEL,Lodging,,,lodging
"""


def main():
    d = tempfile.mkdtemp(prefix="c02_2_")
    failures = []
    try:
        path = os.path.join(d, "merchant_categories.csv")
        with open(path, "w", encoding="utf-8") as f:
            f.write(CSV)
        mu.clear_engine_cache()
        rules = mu.get_all_rules(path)
        for desc in ("UBER TRIP HELP.UBER.COM", "GRAND HOTEL or MOTEL 6"):
            expected = set()
            for pattern, _m, _c, _s, _p, _src, tags in rules:
                if re.search(pattern, desc, re.IGNORECASE):
                    expected |= {t.lower() for t in tags if t.strip()}
            m, c, s, info = mu.normalize_merchant(desc, rules, amount=30.0)
            got = set(info["tags"]) if info else set()
            if got != expected:
                failures.append(f"  {desc!r}: union of matching rules' tags = {sorted(expected)}, got {sorted(got)}")
    finally:
        shutil.rmtree(d, ignore_errors=True)
    if failures:
        print("C02 VIOLATED: tags of matching legacy CSV rules dropped")
        print("\n".join(failures))
        sys.exit(1)
    print("ok: property held")


if __name__ == "__main__":
    main()
