#!/usr/bin/env python3
"""C09 counterexample 4: with `rule_mode: most_specific` and a legacy merchant_categories.csv,
`tally up` silently classifies in FIRST-MATCH order: get_all_rules() builds no engine for a CSV,
and the legacy loop in normalize_merchant() has no notion of the mode. The same rules converted
by the project's own CSV->engine / CSV->.rules helpers are ranked as the statement says.
"""
import json
import os
import shutil
import subprocess
import sys
import tempfile
from pathlib import Path

import tally
from tally.merchant_engine import load_csv_as_engine, csv_to_merchants_content
from tally.merchant_utils import load_merchant_rules

CSV = """Pattern,Merchant,Category,Subcategory,Tags
UBER,Uber,Transport,Rideshare,
UBER.*EATS,Uber Eats,Food,Delivery,
"""

SETTINGS = """year: 2025
rule_mode: most_specific
{merchants_line}
data_sources:
  - name: Bank
    file: data/bank.csv
    format: "{{date:%Y-%m-%d}},{{description}},{{amount}}"
"""


def run_up(budget):
    env = dict(os.environ)
    src = os.path.dirname(os.path.dirname(os.path.abspath(tally.__file__)))
    env["PYTHONPATH"] = src + os.pathsep + env.get("PYTHONPATH", "")
    p = subprocess.run([sys.executable, "-m", "tally", "up", "--format", "json", "-v", "-q",
                        os.path.join(budget, "config")],
                       capture_output=True, text=True, env=env, cwd=budget)
    if p.returncode != 0:
        print("tally up failed:", p.stdout, p.stderr)
        sys.exit(2)
    out = json.loads(p.stdout)
    return {raw: (m["name"], m["category"], m["subcategory"])
            for m in out["merchants"] for raw in m.get("raw_descriptions", {})}


def main():
    budget = tempfile.mkdtemp(prefix="c09_4_")
    try:
        os.makedirs(os.path.join(budget, "config"))
        os.makedirs(os.path.join(budget, "data"))
        with open(os.path.join(budget, "data", "bank.csv"), "w") as f:
            f.write("Date,Description,Amount\n2025-02-01,UBER EATS ORDER 77,31.40\n")
        csv_path = os.path.join(budget, "config", "merchant_categories.csv")
        with open(csv_path, "w") as f:
            f.write(CSV)

        # reference 1: the project's CSV->engine conversion in most_specific mode
        r = load_csv_as_engine(Path(csv_path), match_mode="most_specific").match(
            {"description": "UBER EATS ORDER 77", "amount": 31.40})
        engine_answer = (r.merchant, r.category, r.subcategory)

        # run 1: legacy CSV, rule_mode: most_specific
        with open(os.path.join(budget, "config", "settings.yaml"), "w") as f:
            f.write(SETTINGS.format(merchants_line=""))
        csv_answer = run_up(budget)["UBER EATS ORDER 77"]

        # run 2: same rules migrated to .rules by the project's own converter
        with open(os.path.join(budget, "config", "merchants.rules"), "w") as f:
            f.write(csv_to_merchants_content(load_merchant_rules(csv_path)))
        os.remove(csv_path)
        with open(os.path.join(budget, "config", "settings.yaml"), "w") as f:
            f.write(SETTINGS.format(merchants_line="merchants_file: config/merchants.rules"))
        rules_answer = run_up(budget)["UBER EATS ORDER 77"]
    finally:
        shutil.rmtree(budget, ignore_errors=True)

    expected = ("Uber Eats", "Food", "Delivery")   # equal priority/conditions/constraints, pattern text 10 > 4
    assert engine_answer == expected and rules_answer == expected, (engine_answer, rules_answer)
    if csv_answer != expected:
        print("C09 VIOLATED: rule_mode: most_specific is ignored for legacy CSV rule files")
        print(f"  tally up, merchant_categories.csv, most_specific : {csv_answer}")
        print(f"  tally up, same rules migrated to merchants.rules  : {rules_answer}")
        print(f"  load_csv_as_engine(csv, match_mode='most_specific'): {engine_answer}")
        sys.exit(1)
    print("ok: property held")


if __name__ == "__main__":
    main()
