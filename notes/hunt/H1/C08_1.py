#!/usr/bin/env python3
"""C08 counterexample 1: a legacy CSV rule whose regular expression cannot be compiled with an
exception other than re.error (here OverflowError: repeat count too large; RecursionError for
deeply nested groups behaves the same) is accepted by the loader, and then aborts the parsing
of every generic data source: `tally up` loses all transactions instead of skipping the rule.
A pattern that fails with re.error (e.g. "COSTCO #\\d{2,1}") is skipped as the property says.
"""
import json
import os
import shutil
import subprocess
import sys
import tempfile

import tally
from tally import merchant_utils as mu
from tally.format_parser import parse_format_string
from tally.parsers import parse_generic_csv

CSV_TEMPLATE = """Pattern,Merchant,Category,Subcategory,Tags
NETFLIX,Netflix,Subscriptions,Streaming,
{bad},Costco,Food,Grocery,
"""
BAD_OVERFLOW = r"COSTCO #\d{4294967296}"     # OverflowError in sre_parse
BAD_REERROR = r"COSTCO #\d{2,1}"             # re.error: min repeat greater than max repeat

SETTINGS = """year: 2025
data_sources:
  - name: Bank
    file: data/bank.csv
    format: "{date:%Y-%m-%d},{description},{amount}"
"""
BANK = "Date,Description,Amount\n2025-01-05,NETFLIX.COM,15.99\n2025-01-06,COSTCO #123,80.00\n"


def setup(budget, bad):
    os.makedirs(os.path.join(budget, "config"), exist_ok=True)
    os.makedirs(os.path.join(budget, "data"), exist_ok=True)
    with open(os.path.join(budget, "config", "settings.yaml"), "w") as f:
        f.write(SETTINGS)
    with open(os.path.join(budget, "config", "merchant_categories.csv"), "w") as f:
        f.write(CSV_TEMPLATE.format(bad=bad))
    with open(os.path.join(budget, "data", "bank.csv"), "w") as f:
        f.write(BANK)


def run_up(budget):
    env = dict(os.environ)
    src = os.path.dirname(os.path.dirname(os.path.abspath(tally.__file__)))
    env["PYTHONPATH"] = src + os.pathsep + env.get("PYTHONPATH", "")
    return subprocess.run([sys.executable, "-m", "tally", "up", "--format", "json", "-v",
                           os.path.join(budget, "config")],
                          capture_output=True, text=True, env=env, cwd=budget)


def main():
    budget = tempfile.mkdtemp(prefix="c08_1_")
    problems = []
    try:
        # control: a pattern failing with re.error only disables that rule
        setup(budget, BAD_REERROR)
        p = run_up(budget)
        assert p.returncode == 0 and "Bank: 2 transactions" in p.stdout, (p.stdout, p.stderr)

        setup(budget, BAD_OVERFLOW)
        # library level
        mu.clear_engine_cache()
        rules = mu.get_all_rules(os.path.join(budget, "config", "merchant_categories.csv"))
        assert len(rules) == 2, "loader accepts the file"
        spec = parse_format_string("{date:%Y-%m-%d},{description},{amount}")
        try:
            txns = parse_generic_csv(os.path.join(budget, "data", "bank.csv"), spec, rules, source_name="Bank")
            if len(txns) != 2:
                problems.append(f"  parse_generic_csv returned {len(txns)} transactions instead of 2")
        except Exception as e:  # noqa: BLE001
            problems.append(f"  parse_generic_csv raised {type(e).__name__}: {e}")
        # CLI level
        p = run_up(budget)
        if p.returncode != 0 or "Bank: 2 transactions" not in p.stdout:
            tail = [l for l in (p.stdout + p.stderr).splitlines() if "Bank:" in l or "Error" in l]
            problems.append(f"  tally up exit status {p.returncode}; output: {tail}")
    finally:
        shutil.rmtree(budget, ignore_errors=True)

    if problems:
        print("C08 VIOLATED: one uncompilable legacy CSV regex aborts the whole data source")
        print("\n".join(problems))
        sys.exit(1)
    print("ok: property held")


if __name__ == "__main__":
    main()
