#!/usr/bin/env python3
"""C09 counterexample 2: the "number of pattern conditions" component only counts the
exact spellings `contains(`, `regex(` ... - a call written with a space before the parenthesis
(valid syntax, accepted by the loader, evaluates identically) counts as zero pattern
conditions, so a rule with two pattern conditions loses to a rule with one.
"""
import sys

from tally.merchant_engine import parse_merchants, calculate_specificity

R_TWO = """[Uber Eats]
match: contains ("UBER") and contains ("EATS")
category: Food
subcategory: Delivery
"""
R_ONE = """[Uber]
match: contains("UBER")
category: Transport
subcategory: Rideshare
"""
TXN = {"description": "UBER EATS PENDING", "amount": 23.5}


def main():
    problems = []
    for label, content in (("two-condition rule first", R_TWO + "\n" + R_ONE), ("one-condition rule first", R_ONE + "\n" + R_TWO)):
        eng = parse_merchants(content, match_mode="most_specific")
        res = eng.match(TXN)
        specs = {r.name: calculate_specificity(r) for r in res.all_matching_rules}
        assert len(specs) == 2, specs
        # same priority; 2 pattern conditions > 1 pattern condition -> "Uber Eats" must win
        if (res.merchant, res.category, res.subcategory) != ("Uber Eats", "Food", "Delivery"):
            problems.append(f"  [{label}] winner {res.merchant}/{res.category}/{res.subcategory}; specificity tuples {specs}")
    # control: identical rules without the space rank as the statement says
    eng = parse_merchants(R_ONE + "\n" + R_TWO.replace('contains (', 'contains('), match_mode="most_specific")
    assert eng.match(TXN).merchant == "Uber Eats"
    if problems:
        print("C09 VIOLATED: pattern conditions written as `contains (\"...\")` are not counted")
        print("\n".join(problems))
        sys.exit(1)
    print("ok: property held")


if __name__ == "__main__":
    main()
