#!/usr/bin/env python3
"""C01 counterexample 1: a legacy CSV rule whose regex starts with "(" (or contains
" and " / " or ", or starts with "field.") never matches on the `tally up` path.

normalize_merchant() (legacy tuple loop) sends such patterns to the expression parser
instead of re.search(); "(UBER|LYFT)" is not a valid expression, so the rule is skipped
and the transaction falls through to a LATER rule or to Unknown.
"""
import os
import re
import shutil
import sys
import tempfile

from tally import merchant_utils as mu
from tally.merchant_engine import load_csv_as_engine

CSV = """Pattern,Merchant,Category,Subcategory,Tags
(UBER|LYFT),Rideshare,Transport,Rideshare,commute
BED BATH and BEYOND,Bed Bath,Shopping,Home,
UBER,Uber Generic,Misc,Other,
"""

CASES = [
    # description, expected (merchant, category, subcategory) = first rule whose regex matches
    ("UBER TRIP 8842 SAN FRANCISCO", ("Rideshare", "Transport", "Rideshare")),
    ("LYFT RIDE SUN 3PM", ("Rideshare", "Transport", "Rideshare")),
    ("BED BATH and BEYOND #331", ("Bed Bath", "Shopping", "Home")),
]


def main():
    d = tempfile.mkdtemp(prefix="c01_1_")
    failures = []
    try:
        path = os.path.join(d, "merchant_categories.csv")
        with open(path, "w", encoding="utf-8") as f:
            f.write(CSV)

        # Exactly what `tally up` does for a legacy CSV: get_all_rules() + normalize_merchant()
        mu.clear_engine_cache()
        rules = mu.get_all_rules(path)
        assert mu.get_cached_engine() is None

        for desc, expected in CASES:
            # sanity: the rule's documented condition (case-insensitive regex search) IS true
            first = next(r for r in rules if re.search(r[0], desc, re.IGNORECASE))
            assert (first[1], first[2], first[3]) == expected, (first, expected)

            merchant, cat, sub, info = mu.normalize_merchant(desc, rules, amount=12.0)
            if (merchant, cat, sub) != expected:
                failures.append(
                    f"  {desc!r}: expected {expected} (first rule whose regex matches), "
                    f"got {(merchant, cat, sub)} tags={info.get('tags') if info else None}"
                )

        # The same CSV through the engine conversion classifies as expected, so the two
        # code paths for one rule file disagree.
        eng = load_csv_as_engine(__import__("pathlib").Path(path))
        for desc, expected in CASES:
            r = eng.match({"description": desc, "amount": 12.0})
            assert (r.merchant, r.category, r.subcategory) == expected, (desc, r)
    finally:
        shutil.rmtree(d, ignore_errors=True)

    if failures:
        print("C01 VIOLATED: legacy CSV rules whose pattern looks like an 'expression' are skipped")
        print("\n".join(failures))
        sys.exit(1)
    print("ok: property held")


if __name__ == "__main__":
    main()
