#!/usr/bin/env python3
"""C09 counterexample 1: the "constraint kinds" component of the ranking is computed by
substring search over the whole match expression, including the TEXT of string literals.
A rule like contains("MONTHLY") is credited with a month constraint it does not use and beats
a rule with longer pattern text; both orders of the file give the same (wrong) winner.
"""
import sys
from datetime import date

from tally.merchant_engine import parse_merchants, calculate_specificity

R_LONG = """[Prime Video]
match: contains("AMAZON PRIME VIDEO")
category: Subscriptions
subcategory: Streaming
"""
R_SHORT = """[Monthly fee]
match: contains("MONTHLY")
category: Bills
subcategory: Fees
"""
TXN = {"description": "AMAZON PRIME VIDEO MONTHLY", "amount": 8.99, "date": date(2025, 3, 2)}

# Other everyday literals that trip the same wire: "PAYDAY"/"HOLIDAY INN"/"BIRTHDAY" (day),
# "UPDATE"/"VALIDATE" (date), "PARAMOUNT" (amount), "RESOURCE" (source), "NEW YEAR" (year).


def main():
    problems = []
    for label, content in (("long rule first", R_LONG + "\n" + R_SHORT), ("short rule first", R_SHORT + "\n" + R_LONG)):
        eng = parse_merchants(content, match_mode="most_specific")
        res = eng.match(TXN)
        specs = {r.name: calculate_specificity(r) for r in res.all_matching_rules}
        assert len(specs) == 2
        # Ranking per the statement: priority 50 = 50, pattern conditions 1 = 1,
        # constraint kinds used 0 = 0 (neither rule has an amount/date/source/field constraint),
        # pattern text length 18 > 7  -> "Prime Video" must win.
        if (res.merchant, res.category, res.subcategory) != ("Prime Video", "Subscriptions", "Streaming"):
            problems.append(f"  [{label}] winner {res.merchant}/{res.category}/{res.subcategory}; specificity tuples {specs}")
    if problems:
        print("C09 VIOLATED: keyword inside a string literal counted as a date constraint")
        print("\n".join(problems))
        sys.exit(1)
    print("ok: property held")


if __name__ == "__main__":
    main()
