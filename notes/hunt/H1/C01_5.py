#!/usr/bin/env python3
"""C01 counterexample 5 (report level): when two categorizing rules give the same merchant
name but different categories, `tally up --format json -v` (and the HTML categoryView, built
from the same by_merchant table) reports ALL of that merchant's transactions under the category
of whichever transaction was parsed last - i.e. a transaction is shown with the category of a
rule that does not match it / is placed after its winning rule, and the answer depends on the
order of the rows in the statement.
"""
import json
import os
import shutil
import subprocess
import sys
import tempfile

import tally

SETTINGS = """year: 2025
merchants_file: config/merchants.rules
data_sources:
  - name: Bank
    file: data/bank.csv
    format: "{date:%Y-%m-%d},{description},{amount}"
"""

RULES = """[Amazon Prime]
match: contains("AMAZON PRIME")
merchant: Amazon
category: Subscriptions
subcategory: Streaming

[Amazon]
match: contains("AMAZON")
category: Shopping
subcategory: Online
"""

ROWS = ["2025-01-05,AMAZON PRIME MEMBERSHIP,14.99", "2025-01-06,AMAZON MKTPLACE PMTS,80.00"]


def run_up(rows):
    budget = tempfile.mkdtemp(prefix="c01_5_")
    try:
        os.makedirs(os.path.join(budget, "config"))
        os.makedirs(os.path.join(budget, "data"))
        with open(os.path.join(budget, "config", "settings.yaml"), "w") as f:
            f.write(SETTINGS)
        with open(os.path.join(budget, "config", "merchants.rules"), "w") as f:
            f.write(RULES)
        with open(os.path.join(budget, "data", "bank.csv"), "w") as f:
            f.write("Date,Description,Amount\n" + "\n".join(rows) + "\n")
        env = dict(os.environ)
        src = os.path.dirname(os.path.dirname(os.path.abspath(tally.__file__)))
        env["PYTHONPATH"] = src + os.pathsep + env.get("PYTHONPATH", "")
        p = subprocess.run(
            [sys.executable, "-m", "tally", "up", "--format", "json", "-v", "-q",
             os.path.join(budget, "config")],
            capture_output=True, text=True, env=env, cwd=budget)
        if p.returncode != 0:
            print("tally up failed:", p.stdout, p.stderr)
            sys.exit(2)
        return json.loads(p.stdout)
    finally:
        shutil.rmtree(budget, ignore_errors=True)


def reported(out):
    res = {}
    for m in out["merchants"]:
        for raw in m.get("raw_descriptions", {}):
            res[raw] = (m["name"], m["category"], m["subcategory"])
    return res


def main():
    expected = {
        "AMAZON PRIME MEMBERSHIP": ("Amazon", "Subscriptions", "Streaming"),   # rule 1 is first match
        "AMAZON MKTPLACE PMTS": ("Amazon", "Shopping", "Online"),              # only rule 2 matches
    }
    a = reported(run_up(ROWS))
    b = reported(run_up(list(reversed(ROWS))))
    problems = []
    for label, got in (("rows in date order", a), ("rows reversed", b)):
        for desc, exp in expected.items():
            if got.get(desc) != exp:
                problems.append(f"  [{label}] {desc!r}: first matching rule gives {exp}, report says {got.get(desc)}")
    if problems:
        print("C01 VIOLATED at `tally up --format json -v` merchants[].category/subcategory:")
        print("\n".join(problems))
        sys.exit(1)
    print("ok: property held")


if __name__ == "__main__":
    main()
