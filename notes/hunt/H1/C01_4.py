#!/usr/bin/env python3
"""C01 counterexample 4: a rules file saved as "UTF-8 with BOM" (Excel's "CSV UTF-8",
Windows Notepad) is accepted without any error, but
  - .rules: the first rule (or first variable / transform) of the file is silently dropped,
  - legacy CSV: every rule is silently dropped,
so transactions are classified by a later rule or as Unknown.
"""
import os
import shutil
import sys
import tempfile

from tally import merchant_utils as mu

RULES = """[Netflix]
match: contains("NETFLIX")
category: Subscriptions
subcategory: Streaming

[Anything Flix]
match: contains("FLIX")
category: Misc
subcategory: Other
"""

CSV = """Pattern,Merchant,Category,Subcategory,Tags
NETFLIX,Netflix,Subscriptions,Streaming,
"""

EXPECTED = ("Netflix", "Subscriptions", "Streaming")


def classify(path, content, encoding):
    with open(path, "w", encoding=encoding) as f:
        f.write(content)
    mu.clear_engine_cache()
    rules = mu.get_all_rules(path)
    m, c, s, _ = mu.normalize_merchant("NETFLIX.COM 866-579-7172", rules, amount=15.99)
    return len(rules), (m, c, s)


def main():
    d = tempfile.mkdtemp(prefix="c01_4_")
    failures = []
    try:
        for name, content in (("merchants.rules", RULES), ("merchant_categories.csv", CSV)):
            path = os.path.join(d, name)
            n_plain, plain = classify(path, content, "utf-8")
            n_bom, bom = classify(path, content, "utf-8-sig")
            assert plain == EXPECTED, (name, plain)
            if bom != EXPECTED:
                failures.append(
                    f"  {name}: without BOM {n_plain} rules -> {plain}; "
                    f"with BOM {n_bom} rules loaded, no error -> {bom}"
                )
    finally:
        shutil.rmtree(d, ignore_errors=True)
        mu.clear_engine_cache()

    if failures:
        print("C01 VIOLATED: a UTF-8 BOM makes the loader silently ignore the first .rules rule / all CSV rules")
        print("\n".join(failures))
        sys.exit(1)
    print("ok: property held")


if __name__ == "__main__":
    main()
