#!/usr/bin/env python3
"""C02 counterexample 1: a dynamic {expression} tag that evaluates to a list (documented use:
list comprehension over a supplemental source) adds the EMPTY tag '' when an element is
whitespace-only. The statement says the tag set contains only non-empty tags and that empty
values are dropped (scalar whitespace values ARE dropped).
"""
import os
import shutil
import sys
import tempfile

from tally import merchant_utils as mu

RULES = """[Amazon]
match: contains("AMAZON")
category: Shopping
subcategory: Online
tags: {[r.kind for r in orders if r.amount == txn.amount]}

[Gift flag]
match: contains("AMAZON")
tags: {field.note}
"""


def main():
    d = tempfile.mkdtemp(prefix="c02_1_")
    try:
        path = os.path.join(d, "merchants.rules")
        with open(path, "w", encoding="utf-8") as f:
            f.write(RULES)
        mu.clear_engine_cache()
        rules = mu.get_all_rules(path)
        orders = [  # rows of a supplemental source, as load_supplemental_sources() builds them
            {"amount": 25.0, "kind": "Book", "description": "Novel"},
            {"amount": 25.0, "kind": " ", "description": "row with a blank 'kind' cell padded by a space"},
        ]
        for mode in ("first_match", "most_specific"):
            mu.get_cached_engine().match_mode = mode
            m, c, s, info = mu.normalize_merchant(
                "AMAZON MKTPLACE", rules, amount=25.0,
                field={"note": "   "},            # scalar whitespace value: correctly dropped
                data_sources={"orders": orders},
            )
            tags = sorted(info["tags"])
            expected = ["book"]
            if tags != expected:
                print(f"C02 VIOLATED ({mode}): tag set should be {expected}, got {tags} "
                      f"(contains the empty tag: {'' in tags})")
                sys.exit(1)
    finally:
        shutil.rmtree(d, ignore_errors=True)
        mu.clear_engine_cache()
    print("ok: property held")


if __name__ == "__main__":
    main()
