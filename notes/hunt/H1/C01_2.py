#!/usr/bin/env python3
"""C01 counterexample 2: a field transform whose target is not written in lower case
(field.Description = ..., field.Memo = ...) is accepted by the loader, evaluated, and then
stored under a key nobody reads - the rules still see the untransformed value.

Everything else in the rule language is case-insensitive for names (field.Memo reads the
'memo' capture, variables / let / field: names are lower-cased by the parser).
"""
import os
import shutil
import sys
import tempfile

from tally import merchant_utils as mu
from tally.format_parser import parse_format_string
from tally.parsers import parse_generic_csv

RULES_TEMPLATE = """field.{desc} = regex_replace(field.{desc}, "^APLPAY\\\\s+", "")
field.{memo} = trim(regex_replace(field.{memo}, "^REF:", ""))

[Starbucks]
match: startswith("STARBUCKS")
category: Food
subcategory: Coffee

[Invoice 42]
match: field.memo == "42"
category: Bills
subcategory: Invoices
"""

CSV = """Date,Description,Memo,Amount
2025-01-05,APLPAY STARBUCKS 123,x,5.00
2025-01-06,ACME CORP,REF: 42,100.00
"""


def classify(d, desc_name, memo_name):
    rules_path = os.path.join(d, f"merchants_{desc_name}.rules")
    with open(rules_path, "w", encoding="utf-8") as f:
        f.write(RULES_TEMPLATE.format(desc=desc_name, memo=memo_name))
    csv_path = os.path.join(d, "bank.csv")
    with open(csv_path, "w", encoding="utf-8") as f:
        f.write(CSV)
    mu.clear_engine_cache()
    # same sequence as commands/run.py
    transforms = mu.get_transforms(rules_path)
    rules = mu.get_all_rules(rules_path)
    assert mu.get_cached_engine() is not None, "rules file must be accepted by the loader"
    assert len(transforms) == 2
    spec = parse_format_string("{date:%Y-%m-%d},{description},{memo},{amount}")
    txns = parse_generic_csv(csv_path, spec, rules, source_name="Bank", transforms=transforms)
    return [(t["raw_description"], t["merchant"], t["category"], t["subcategory"]) for t in txns]


def main():
    d = tempfile.mkdtemp(prefix="c01_2_")
    try:
        lower = classify(d, "description", "memo")
        mixed = classify(d, "Description", "Memo")
    finally:
        shutil.rmtree(d, ignore_errors=True)
        mu.clear_engine_cache()

    expected = [
        ("APLPAY STARBUCKS 123", "Starbucks", "Food", "Coffee"),
        ("ACME CORP", "Invoice 42", "Bills", "Invoices"),
    ]
    assert lower == expected, f"baseline (lower-case targets) unexpectedly differs: {lower}"

    if mixed != expected:
        print("C01 VIOLATED: transforms written as field.Description / field.Memo are not applied before matching")
        print("  with 'field.description = ...' / 'field.memo = ...':")
        for row in lower:
            print("     ", row)
        print("  with 'field.Description = ...' / 'field.Memo = ...' (same file otherwise):")
        for row in mixed:
            print("     ", row)
        sys.exit(1)
    print("ok: property held")


if __name__ == "__main__":
    main()
