#!/usr/bin/env python3
"""C01 counterexample 6 (minor, unicode): the legacy CSV loop upper-cases the description
before re.search(), so a CSV pattern containing a character whose upper-case form is a
different string (German sharp s: 'ß'.upper() == 'SS') can never match a description that
contains exactly that text. The engine path for the same CSV (regex() on the raw description)
matches it.
"""
import os
import pathlib
import re
import shutil
import sys
import tempfile

from tally import merchant_utils as mu
from tally.merchant_engine import load_csv_as_engine

CSV = "Pattern,Merchant,Category,Subcategory,Tags\nBÄCKEREI WEIß,Baeckerei Weiss,Food,Bakery,\n"
DESCS = ["BÄCKEREI WEIß MÜNCHEN", "Bäckerei Weiß München"]
EXPECTED = ("Baeckerei Weiss", "Food", "Bakery")


def main():
    d = tempfile.mkdtemp(prefix="c01_6_")
    failures = []
    try:
        path = os.path.join(d, "merchant_categories.csv")
        with open(path, "w", encoding="utf-8") as f:
            f.write(CSV)
        mu.clear_engine_cache()
        rules = mu.get_all_rules(path)
        eng = load_csv_as_engine(pathlib.Path(path))
        for desc in DESCS:
            assert re.search(rules[0][0], desc, re.IGNORECASE), "pattern is a case-insensitive match"
            r = eng.match({"description": desc, "amount": 4.2})
            assert (r.merchant, r.category, r.subcategory) == EXPECTED
            got = mu.normalize_merchant(desc, rules, amount=4.2)[:3]
            if got != EXPECTED:
                failures.append(f"  {desc!r}: expected {EXPECTED}, tally-up path gives {got}")
    finally:
        shutil.rmtree(d, ignore_errors=True)
    if failures:
        print("C01 VIOLATED: legacy CSV regex is searched in description.upper(), not in the description")
        print("\n".join(failures))
        sys.exit(1)
    print("ok: property held")


if __name__ == "__main__":
    main()
