#!/usr/bin/env python
"""C14 counterexample 3: CSV patterns that start with '(' or contain ' and ' / ' or ' classify differently after migration.

The CSV side (normalize_merchant on get_all_rules(csv)) decides per pattern whether it is "an expression" with
_is_expression_pattern(); a plain regular expression such as (UBER|LYFT) or BARNES and NOBLE is then handed to the
expression evaluator, fails to parse and the rule is skipped.  The migrated file wraps the same text in regex("...")
and matches.  Both are the project's own code paths; the property demands that they agree.
"""
import os, sys, tempfile, shutil
from tally.merchant_utils import get_all_rules, load_merchant_rules, normalize_merchant, clear_engine_cache
from tally.merchant_engine import csv_to_merchants_content, parse_merchants

CASES = [
    ("(UBER|LYFT),Rideshare,Transport,Rideshare", "UBER TRIP 123"),           # alternation in a group
    ("(?i)netflix,Netflix,Subscriptions,Streaming", "NETFLIX.COM"),            # leading inline flag group
    ("BARNES and NOBLE,Barnes & Noble,Shopping,Books", "BARNES AND NOBLE #12"),
    ("BED BATH|HOME or GARDEN,Home,Shopping,Home", "HOME OR GARDEN CENTER"),
]
problems = []
tmp = tempfile.mkdtemp()
try:
    for row, desc in CASES:
        path = os.path.join(tmp, 'm.csv')
        with open(path, 'w', encoding='utf-8') as f:
            f.write("Pattern,Merchant,Category,Subcategory\n" + row + "\n")
        clear_engine_cache()
        rules = get_all_rules(path)
        old = normalize_merchant(desc, rules, amount=10.0)[1:3]
        eng = parse_merchants(csv_to_merchants_content(load_merchant_rules(path)))
        r = eng.match({'description': desc, 'amount': 10.0})
        new = (r.category, r.subcategory) if r.matched else ('Unknown', 'Unknown')
        if old != new:
            problems.append(f"row {row!r}, txn {desc!r}: CSV rules -> {old}, migrated rules -> {new}")
finally:
    shutil.rmtree(tmp, ignore_errors=True)

if problems:
    print("C14 VIOLATED: same CSV rule classifies differently before and after migration")
    for p in problems:
        print(" -", p)
    sys.exit(1)
print("ok")
