#!/usr/bin/env python
"""C17 counterexample 1: a merchants.rules file that cannot be loaded is treated as containing no rules.

One character is removed from a valid two-rule file (a closing parenthesis).  parse_merchants() rejects the text
with a line number - but `tally up`, `tally discover` and `tally explain` never show that error: get_all_rules()
swallows the exception, re-reads the .rules file as a legacy CSV, gets 0 rules, and the commands report
"Loaded 0 categorization rules" / "No merchant rules defined" and classify every transaction as Unknown, exit 0.
"""
import json, os, shutil, subprocess, sys, tempfile

SETTINGS = ('year: 2025\nmerchants_file: config/merchants.rules\ndata_sources:\n  - name: Bank\n'
            '    file: data/bank.csv\n    format: "{date:%Y-%m-%d},{description},{amount}"\n')
GOOD = ('[Netflix]\nmatch: contains("NETFLIX")\ncategory: Subscriptions\nsubcategory: Streaming\n\n'
        '[Costco]\nmatch: contains("COSTCO")\ncategory: Food\nsubcategory: Grocery\n')
BAD = GOOD.replace('contains("COSTCO")', 'contains("COSTCO"')      # single-point corruption


def tally(root, *args):
    return subprocess.run([sys.executable, '-m', 'tally', *args], cwd=root, capture_output=True, text=True,
                          stdin=subprocess.DEVNULL, env=dict(os.environ, NO_COLOR='1'))


from tally.merchant_engine import parse_merchants, MerchantParseError
try:
    parse_merchants(BAD)
    print("unexpected: corrupted text accepted by parse_merchants"); sys.exit(2)
except MerchantParseError as e:
    loader_error = str(e)

problems = []
tmp = tempfile.mkdtemp()
try:
    root = os.path.join(tmp, 'budget')
    os.makedirs(os.path.join(root, 'config')); os.makedirs(os.path.join(root, 'data'))
    open(os.path.join(root, 'config', 'settings.yaml'), 'w').write(SETTINGS)
    open(os.path.join(root, 'config', 'merchants.rules'), 'w').write(BAD)
    open(os.path.join(root, 'data', 'bank.csv'), 'w').write(
        'Date,Description,Amount\n2025-03-15,NETFLIX.COM,15.99\n2025-03-16,COSTCO WHSE #123,120.00\n')

    for cmd in (['up', 'config', '--summary'], ['up', 'config'], ['discover', 'config'],
                ['explain', 'config'], ['explain', 'NETFLIX.COM', 'config']):
        p = tally(root, *cmd)
        text = p.stdout + p.stderr
        mentions_error = any(w in text.lower() for w in ('error', 'invalid', 'syntax', 'line 6', 'could not', 'failed'))
        if p.returncode == 0 and not mentions_error:
            note = [l.strip() for l in text.splitlines() if 'Loaded' in l or 'No merchant rules' in l or 'Unknown' in l][:3]
            problems.append(f"`tally {' '.join(cmd)}`: exit 0, no mention of the load error; it says: {note}")
finally:
    shutil.rmtree(tmp, ignore_errors=True)

if problems:
    print("C17 VIOLATED: unloadable rules file is silently treated as an empty rule set")
    print("   loader error that is never shown:", loader_error)
    for p in problems:
        print(" -", p)
    sys.exit(1)
print("ok")
