#!/usr/bin/env python
"""C15 counterexample 3: `tally up --migrate` overwrites an existing config/merchants.rules (and an existing
merchant_categories.csv.bak) without keeping their content.

Scenario (every step is a normal command):
  1. old budget: settings.yaml without merchants_file, merchant_categories.csv containing only the header;
  2. `tally init .`  -> no migration (CSV has no rules), creates the starter config/merchants.rules;
  3. the user writes rules into config/merchants.rules, as every doc tells them to;
  4. `tally up` still shows the "Upgrade Available ... Tip: Run with --migrate" banner (the CSV is what
     load_config selects), the user follows the tip: `tally up --migrate`.
The user's merchants.rules is replaced by the (empty) conversion of the CSV; the rules exist nowhere any more.
The same open(..., 'w') means a crash/ENOSPC in that step truncates the existing file as well.
"""
import json, os, shutil, subprocess, sys, tempfile

SETTINGS = ('year: 2025\ndata_sources:\n  - name: Bank\n    file: data/bank.csv\n'
            '    format: "{date:%Y-%m-%d},{description},{amount}"\n')
USER_RULES = ('[Netflix]\nmatch: contains("NETFLIX")\ncategory: Subscriptions\nsubcategory: Streaming\n\n'
              '[Costco]\nmatch: contains("COSTCO")\ncategory: Food\nsubcategory: Grocery\n')
OLD_BAK = "Pattern,Merchant,Category,Subcategory\nHANDKEPT,Backup From 2023,Archive,Archive\n"


def tally(root, *args):
    return subprocess.run([sys.executable, '-m', 'tally', *args], cwd=root, capture_output=True, text=True,
                          stdin=subprocess.DEVNULL, env=dict(os.environ, NO_COLOR='1'))


problems = []
tmp = tempfile.mkdtemp()
try:
    root = os.path.join(tmp, 'budget')
    cfg = os.path.join(root, 'config')
    os.makedirs(cfg); os.makedirs(os.path.join(root, 'data'))
    open(os.path.join(cfg, 'settings.yaml'), 'w').write(SETTINGS)
    open(os.path.join(cfg, 'merchant_categories.csv'), 'w').write("Pattern,Merchant,Category,Subcategory\n")
    open(os.path.join(cfg, 'merchant_categories.csv.bak'), 'w').write(OLD_BAK)   # a backup the user kept
    open(os.path.join(root, 'data', 'bank.csv'), 'w').write(
        'Date,Description,Amount\n2025-03-15,NETFLIX.COM,15.99\n2025-03-16,COSTCO WHSE #123,120.00\n')

    tally(root, 'init', '.')                                           # step 2
    assert os.path.exists(os.path.join(cfg, 'merchants.rules'))
    with open(os.path.join(cfg, 'merchants.rules'), 'a') as f:         # step 3
        f.write('\n' + USER_RULES)
    banner = tally(root, 'up', 'config', '--summary').stdout           # step 4a
    tip = 'Run with --migrate' in banner
    p = tally(root, 'up', 'config', '--migrate', '--summary')          # step 4b

    rules_now = open(os.path.join(cfg, 'merchants.rules')).read()
    bak_now = open(os.path.join(cfg, 'merchant_categories.csv.bak')).read()
    everything = ''
    for dp, dn, fn in os.walk(root):
        for name in fn:
            try:
                everything += open(os.path.join(dp, name), encoding='utf-8').read()
            except Exception:
                pass
    if 'contains("NETFLIX")' not in everything:
        problems.append("the rules the user wrote in config/merchants.rules are gone from the budget directory "
                        f"(tip shown by tally up: {tip}); merchants.rules is now:\n"
                        + '\n'.join('        ' + l for l in rules_now.splitlines()))
    if 'HANDKEPT' not in everything:
        problems.append("the pre-existing merchant_categories.csv.bak was overwritten; it now contains: " + repr(bak_now))
finally:
    shutil.rmtree(tmp, ignore_errors=True)

if problems:
    print("C15 VIOLATED: user file content lost by the CSV -> .rules migration")
    for p in problems:
        print(" -", p)
    sys.exit(1)
print("ok")
