#!/usr/bin/env python
"""C15 counterexample 4: the folder-layout migration (`tally update --yes`) into an already existing ./tally/
nests the user's directories instead of moving them, reports success, and leaves the budget unusable.

Starting point: a working old-layout budget (./config, ./data) in a directory that also contains ./tally/ with
config/ and data/ in it (what `tally init` creates by default when run in a folder that had no ./config yet - or
what is left behind by any earlier attempt).  shutil.move(src, existing_dir) moves *into* the directory, so the
user's files end up in tally/config/config and tally/data/data; the schema marker is written, so re-running the
command does nothing.
"""
import json, os, shutil, subprocess, sys, tempfile

SETTINGS = ('year: 2025\nmerchants_file: config/merchants.rules\ndata_sources:\n  - name: Bank\n'
            '    file: data/bank.csv\n    format: "{date:%Y-%m-%d},{description},{amount}"\n')
RULES = '[Netflix]\nmatch: contains("NETFLIX")\ncategory: Subscriptions\nsubcategory: Streaming\n'


def tally(root, *args):
    return subprocess.run([sys.executable, '-m', 'tally', *args], cwd=root, capture_output=True, text=True,
                          stdin=subprocess.DEVNULL, env=dict(os.environ, NO_COLOR='1'))


def classify(root):
    p = tally(root, 'up', '--format', 'json')
    try:
        data = json.loads(p.stdout[p.stdout.index('{\n'):])
        return sorted((m['name'], m['category']) for m in data['merchants'])
    except ValueError:
        return 'ERROR: ' + (p.stderr.strip().splitlines() or ['?'])[0]


def tree(root):
    out = []
    for dp, dn, fn in os.walk(root):
        out += [os.path.relpath(os.path.join(dp, f), root) for f in fn]
    return sorted(out)


tmp = tempfile.mkdtemp()
try:
    root = os.path.join(tmp, 'home')
    os.makedirs(root)
    tally(root, 'init')                                   # creates ./tally/{config,data,output}
    os.makedirs(os.path.join(root, 'config')); os.makedirs(os.path.join(root, 'data'))
    open(os.path.join(root, 'config', 'settings.yaml'), 'w').write(SETTINGS)
    open(os.path.join(root, 'config', 'merchants.rules'), 'w').write(RULES)
    open(os.path.join(root, 'data', 'bank.csv'), 'w').write('Date,Description,Amount\n2025-03-15,NETFLIX.COM,15.99\n')

    before = classify(root)
    upd = tally(root, 'update', '--yes')
    after = classify(root)
    upd2 = tally(root, 'update', '--yes')
    after2 = classify(root)
    files = tree(root)
finally:
    shutil.rmtree(tmp, ignore_errors=True)

if after != before or after2 != before:
    print("C15 VIOLATED: layout migration reported success but the budget no longer classifies, and re-running does not help")
    print("  tally up before          :", before)
    print("  tally update --yes said  :", [l.strip() for l in upd.stdout.splitlines() if 'Mov' in l or 'Migrated' in l or 'Error' in l])
    print("  tally up afterwards      :", after)
    print("  second tally update said :", [l.strip() for l in upd2.stdout.splitlines() if l.strip()][-1:])
    print("  tally up after re-run    :", after2)
    print("  user files are now at    :", [f for f in files if 'config/config' in f or 'data/data' in f])
    sys.exit(1)
print("ok")
