#!/usr/bin/env python
"""C14 counterexample 1: the [date:lastNdays] modifier is not preserved by the CSV -> .rules conversion.

(a) alone, the condition is silently dropped: the migrated rule matches transactions of any age;
(b) combined with any other modifier, the generated merchants.rules does not load at all;
(c) load_csv_as_engine (the other consumer of the conversion) builds a rule that can never match.
"""
import os, sys, tempfile, shutil
from datetime import date, timedelta

from tally.merchant_utils import get_all_rules, load_merchant_rules, normalize_merchant, clear_engine_cache
from tally.merchant_engine import csv_to_merchants_content, parse_merchants, load_csv_as_engine

problems = []
tmp = tempfile.mkdtemp()
try:
    old = date.today() - timedelta(days=400)
    recent = date.today() - timedelta(days=3)

    # ---- (a) relative date alone -------------------------------------------------
    csv_a = os.path.join(tmp, 'a.csv')
    with open(csv_a, 'w', encoding='utf-8') as f:
        f.write("Pattern,Merchant,Category,Subcategory\nGYM[date:last30days],Gym,Health,Fitness\n")
    clear_engine_cache()
    rules = get_all_rules(csv_a)
    content = csv_to_merchants_content(load_merchant_rules(csv_a))
    engine = parse_merchants(content)
    for d in (recent, old):
        clear_engine_cache()
        m, c, s, _ = normalize_merchant("GYM MEMBERSHIP", rules, amount=30.0, txn_date=d)
        r = engine.match({'description': "GYM MEMBERSHIP", 'amount': 30.0, 'date': d})
        new = (r.category, r.subcategory) if r.matched else ('Unknown', 'Unknown')
        if (c, s) != new:
            problems.append(f"(a) GYM[date:last30days], txn dated {d}: CSV rules -> {(c, s)}, migrated rules -> {new}\n"
                            f"    migrated match expression: {engine.rules[0].match_expr!r}")

    # ---- (b) relative date combined with an amount modifier -----------------------
    csv_b = os.path.join(tmp, 'b.csv')
    with open(csv_b, 'w', encoding='utf-8') as f:
        f.write("Pattern,Merchant,Category,Subcategory\n"
                "GYM[amount>5][date:last30days],Gym,Health,Fitness\n"
                "NETFLIX,Netflix,Subscriptions,Streaming\n")
    clear_engine_cache()
    rules = get_all_rules(csv_b)
    content = csv_to_merchants_content(load_merchant_rules(csv_b))
    try:
        parse_merchants(content)
    except Exception as e:
        m, c, s, _ = normalize_merchant("NETFLIX.COM", rules, amount=15.99, txn_date=recent)
        problems.append(f"(b) generated merchants.rules does not load: {e}\n"
                        f"    offending line: {[l for l in content.splitlines() if 'Note' in l]}\n"
                        f"    (the CSV rules classified NETFLIX.COM as {(m, c, s)}; the migrated file classifies nothing)")

    # ---- (c) load_csv_as_engine ---------------------------------------------------
    eng = load_csv_as_engine(csv_a)
    clear_engine_cache()
    rules = get_all_rules(csv_a)
    m, c, s, _ = normalize_merchant("GYM MEMBERSHIP", rules, amount=30.0, txn_date=recent)
    r = eng.match({'description': "GYM MEMBERSHIP", 'amount': 30.0, 'date': recent})
    if (c != 'Unknown') != r.matched:
        problems.append(f"(c) load_csv_as_engine: recent GYM txn: CSV rules -> {c}, engine matched={r.matched} "
                        f"(match_expr {eng.rules[0].match_expr!r} is not a valid expression, the rule is skipped)")
finally:
    shutil.rmtree(tmp, ignore_errors=True)

if problems:
    print("C14 VIOLATED: relative-date modifier is not preserved by the migration")
    for p in problems:
        print(" -", p)
    sys.exit(1)
print("ok")
