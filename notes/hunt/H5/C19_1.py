#!/usr/bin/env python
"""C19 counterexample 1: with a field transform in merchants.rules, the rule `tally discover` suggests does not
match the transaction it was suggested for, so adding it does not shrink the Unknown list.

discover builds the suggestion from the *raw* description (as read from the statement), but rules are matched
against the description *after* the `field.description = ...` transforms.  Here the transform strips the
processor prefix "PAYPAL *"; discover proposes contains("PAYPAL") and contains("*SPOTIFY"), which can never be true
for the transformed text "SPOTIFY".  The discover -> write -> re-run loop does not terminate.
"""
import json, os, shutil, subprocess, sys, tempfile

SETTINGS = ('year: 2025\nmerchants_file: config/merchants.rules\ndata_sources:\n  - name: Bank\n'
            '    file: data/bank.csv\n    format: "{date:%Y-%m-%d},{description},{amount}"\n')
RULES = ('field.description = regex_replace(field.description, "^PAYPAL \\\\*", "")\n\n'
         '[Netflix]\nmatch: contains("NETFLIX")\ncategory: Subscriptions\nsubcategory: Streaming\n')
DATA = 'Date,Description,Amount\n2025-03-15,NETFLIX.COM,15.99\n2025-03-16,PAYPAL *SPOTIFY,9.99\n'


def discover(root):
    p = subprocess.run([sys.executable, '-m', 'tally', 'discover', 'config', '--format', 'json'], cwd=root,
                       capture_output=True, text=True, stdin=subprocess.DEVNULL, env=dict(os.environ, NO_COLOR='1'))
    if p.stdout.lstrip().startswith('['):
        return json.loads(p.stdout)
    return []          # "No unknown transactions found!"


tmp = tempfile.mkdtemp()
try:
    root = os.path.join(tmp, 'budget')
    os.makedirs(os.path.join(root, 'config')); os.makedirs(os.path.join(root, 'data'))
    open(os.path.join(root, 'config', 'settings.yaml'), 'w').write(SETTINGS)
    open(os.path.join(root, 'config', 'merchants.rules'), 'w').write(RULES)
    open(os.path.join(root, 'data', 'bank.csv'), 'w').write(DATA)

    first = discover(root)
    from tally.merchant_engine import parse_merchants
    with open(os.path.join(root, 'config', 'merchants.rules'), 'a') as f:
        for item in first:
            rule = item['suggested_rule'].replace('category: CATEGORY', 'category: Entertainment') \
                                         .replace('subcategory: SUBCATEGORY', 'subcategory: Music')
            parse_merchants(rule)                  # accepted by the loader
            f.write('\n' + rule + '\n')
    second = discover(root)
finally:
    shutil.rmtree(tmp, ignore_errors=True)

still = [i['raw_description'] for i in second if i['raw_description'] in {j['raw_description'] for j in first}]
if still:
    print("C19 VIOLATED: suggested rules were added but the same descriptions are still Unknown")
    for item in first:
        print("  raw description :", item['raw_description'])
        print("  suggested rule  :", item['suggested_rule'].splitlines()[1])
    print("  Unknown before:", [i['raw_description'] for i in first])
    print("  Unknown after :", [i['raw_description'] for i in second])
    sys.exit(1)
print("ok")
