#!/usr/bin/env python
"""C19 counterexample 2 (deprecated output format): `tally discover --format csv` prints rule lines that, pasted
into merchant_categories.csv as instructed, are not read as the intended rule.

  '#1 CHINESE KITCHEN'  -> the suggested line starts with '#': the CSV loader treats it as a comment; never matches
  '"BIG" STORE'         -> the pattern starts with a double quote: csv parsing strips the quotes, the regex becomes
                           BIG\\s*STORE and no longer matches the description
  'AMAZON.COM, INC'     -> the comma is not quoted: columns shift, the transaction gets category "Amazon.Com"
Adding the suggestions therefore does not shrink the Unknown list for the first two, and mis-files the third.
"""
import csv, io, os, shutil, subprocess, sys, tempfile

DESCS = ['#1 CHINESE KITCHEN', '"BIG" STORE', 'AMAZON.COM, INC']
SETTINGS = ('year: 2025\ndata_sources:\n  - name: Bank\n    file: data/bank.csv\n'
            '    format: "{date:%Y-%m-%d},{description},{amount}"\n')


def tally(root, *args):
    return subprocess.run([sys.executable, '-m', 'tally', *args], cwd=root, capture_output=True, text=True,
                          stdin=subprocess.DEVNULL, env=dict(os.environ, NO_COLOR='1'))


problems = []
tmp = tempfile.mkdtemp()
try:
    root = os.path.join(tmp, 'budget')
    os.makedirs(os.path.join(root, 'config')); os.makedirs(os.path.join(root, 'data'))
    open(os.path.join(root, 'config', 'settings.yaml'), 'w').write(SETTINGS)
    rules_csv = os.path.join(root, 'config', 'merchant_categories.csv')
    open(rules_csv, 'w').write("Pattern,Merchant,Category,Subcategory\nZZZZ,Placeholder,Misc,Misc\n")
    buf = io.StringIO(); w = csv.writer(buf, lineterminator='\n'); w.writerow(['Date', 'Description', 'Amount'])
    for d in DESCS:
        w.writerow(['2025-03-15', d, '10.00'])
    open(os.path.join(root, 'data', 'bank.csv'), 'w').write(buf.getvalue())

    out = tally(root, 'discover', 'config', '--format', 'csv').stdout
    body = out.split('Pattern,Merchant,Category,Subcategory', 1)[1]
    suggested = [l for l in body.splitlines() if l.strip()]
    with open(rules_csv, 'a') as f:
        for line in suggested:
            f.write(line.replace(',CATEGORY,SUBCATEGORY', ',Food,Restaurant') + '\n')

    from tally.merchant_utils import get_all_rules, normalize_merchant, clear_engine_cache
    clear_engine_cache()
    rules = get_all_rules(rules_csv)
    for d, line in zip(DESCS, suggested):
        m, c, s, _ = normalize_merchant(d, rules, amount=10.0)
        if c != 'Food':
            problems.append(f"{d!r}: suggested line {line!r}; after adding it (category Food) the transaction is {c!r}")
    still = tally(root, 'discover', 'config', '--format', 'json').stdout
finally:
    shutil.rmtree(tmp, ignore_errors=True)

if problems:
    print("C19 VIOLATED for --format csv suggestions")
    for p in problems:
        print(" -", p)
    sys.exit(1)
print("ok")
