#!/usr/bin/env python
"""C20 counterexample: `tally init` run in a folder that already has files does not keep each of them.

Folder: an old budget with config/merchant_categories.csv (two rules), NO merchants.rules, and a
config/merchant_categories.csv.bak that the user kept from an earlier clean-up (different content).
`tally init .` auto-migrates the CSV (nobody asked for a migration) and renames it onto the existing .bak:
the old .bak content is gone from the folder; merchant_categories.csv itself no longer exists under its name.
(`tally up --migrate` does the same to the .bak and, in addition, overwrites an existing merchants.rules without
a backup - see C15_3.)
"""
import hashlib, os, shutil, subprocess, sys, tempfile

SETTINGS = ('year: 2025\ndata_sources:\n  - name: Bank\n    file: data/bank.csv\n'
            '    format: "{date:%Y-%m-%d},{description},{amount}"\n')
CSV = "Pattern,Merchant,Category,Subcategory\nNETFLIX,Netflix,Subscriptions,Streaming\nCOSTCO,Costco,Food,Grocery\n"
OLD_BAK = ("Pattern,Merchant,Category,Subcategory\n# my 2023 rule set, kept for reference\n"
           "WHOLEFDS,Whole Foods,Food,Grocery\nSHELL OIL,Shell,Transport,Gas\n")


def snapshot(root):
    out = {}
    for dp, dn, fn in os.walk(root):
        for name in fn:
            p = os.path.join(dp, name)
            out[os.path.relpath(p, root)] = open(p, 'rb').read()
    return out


tmp = tempfile.mkdtemp()
try:
    root = os.path.join(tmp, 'budget')
    os.makedirs(os.path.join(root, 'config')); os.makedirs(os.path.join(root, 'data'))
    open(os.path.join(root, 'config', 'settings.yaml'), 'w').write(SETTINGS)
    open(os.path.join(root, 'config', 'merchant_categories.csv'), 'w').write(CSV)
    open(os.path.join(root, 'config', 'merchant_categories.csv.bak'), 'w').write(OLD_BAK)
    open(os.path.join(root, 'data', 'bank.csv'), 'w').write('Date,Description,Amount\n2025-03-15,NETFLIX.COM,15.99\n')

    before = snapshot(root)
    p = subprocess.run([sys.executable, '-m', 'tally', 'init', '.'], cwd=root, capture_output=True, text=True,
                       stdin=subprocess.DEVNULL, env=dict(os.environ, NO_COLOR='1'))
    after = snapshot(root)
finally:
    shutil.rmtree(tmp, ignore_errors=True)

problems = []
notes = []
for path, content in before.items():
    if path.endswith('settings.yaml'):
        if not after.get(path, b'').startswith(content):
            problems.append(f"{path}: changed other than by appending")
        continue
    if after.get(path) != content:
        where = [k for k, v in after.items() if v == content]
        if where:   # renamed, content kept: arguably the intended "backup" - informational only
            notes.append(f"{path}: no longer present under this name (content kept at {where}; the migration was not requested)")
        else:
            problems.append(f"{path}: content replaced - its previous content exists NOWHERE in the folder any more")

if problems:
    print("C20 VIOLATED: `tally init` in a folder with existing files did not keep each of them")
    for x in problems:
        print(" -", x)
    for x in notes:
        print("   note:", x)
    print("   init said:", [l.strip() for l in p.stdout.splitlines() if 'Backed up' in l or 'Upgrading' in l])
    sys.exit(1)
print("ok")
