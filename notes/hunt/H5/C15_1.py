#!/usr/bin/env python
"""C15 counterexample 1: a settings.yaml that merely *mentions* `merchants_file:` (e.g. in a comment) makes the
CSV -> .rules migration strand the budget with an empty rule set.

_migrate_csv_to_rules decides whether settings.yaml must be updated with the substring test
`'merchants_file:' not in content`.  With a commented-out line the setting is not added, the CSV is nevertheless
renamed to .bak, and from the next run on load_config finds neither a merchants_file setting nor the CSV:
every transaction is Unknown although merchants.rules and the .bak are both on disk.  Re-running the same command
does not help.  `tally init` (which migrates automatically) does the same.
"""
import os, sys, json, tempfile, shutil, subprocess

SETTINGS = ('year: 2025\n'
            '# merchants_file: config/merchants.rules   <- enable after upgrading to the new format\n'
            'data_sources:\n  - name: Bank\n    file: data/bank.csv\n'
            '    format: "{date:%Y-%m-%d},{description},{amount}"\n')
CSV = "Pattern,Merchant,Category,Subcategory\nNETFLIX,Netflix,Subscriptions,Streaming\nCOSTCO,Costco,Food,Grocery\n"
DATA = 'Date,Description,Amount\n2025-03-15,NETFLIX.COM,15.99\n2025-03-16,COSTCO WHSE #123,120.00\n'


def make(root):
    os.makedirs(os.path.join(root, 'config')); os.makedirs(os.path.join(root, 'data'))
    open(os.path.join(root, 'config', 'settings.yaml'), 'w').write(SETTINGS)
    open(os.path.join(root, 'config', 'merchant_categories.csv'), 'w').write(CSV)
    open(os.path.join(root, 'data', 'bank.csv'), 'w').write(DATA)


def tally(root, *args):
    return subprocess.run([sys.executable, '-m', 'tally', *args], cwd=root, capture_output=True, text=True,
                          stdin=subprocess.DEVNULL, env=dict(os.environ, NO_COLOR='1'))


def classify(root, *extra):
    p = tally(root, 'up', 'config', '--format', 'json', *extra)
    data = json.loads(p.stdout[p.stdout.index('{\n'):])
    return sorted((m['name'], m['category']) for m in data['merchants'])


problems = []
tmp = tempfile.mkdtemp()
try:
    # Variant: the budget is run with --settings settings-2024.yaml (documented usage). The migration only ever
    # edits config/settings.yaml, so the settings file actually in use never learns about merchants.rules.
    root = os.path.join(tmp, 'alt_settings')
    make(root)
    plain = SETTINGS.replace(SETTINGS.splitlines(True)[1], '')
    open(os.path.join(root, 'config', 'settings.yaml'), 'w').write(plain)
    open(os.path.join(root, 'config', 'settings-2024.yaml'), 'w').write(plain)
    alt = ('--settings', 'settings-2024.yaml')
    before = classify(root, *alt)
    tally(root, 'up', 'config', '--migrate', '--summary', *alt)
    after = classify(root, *alt)
    tally(root, 'up', 'config', '--migrate', '--summary', *alt)
    after_rerun = classify(root, *alt)
    if after != before or after_rerun != before:
        problems.append(
            f"tally up --settings settings-2024.yaml --migrate (no comment needed):\n      before            : {before}\n"
            f"      after migration   : {after}\n      after re-running  : {after_rerun}\n"
            f"      config/ now holds : {sorted(os.listdir(os.path.join(root, 'config')))}")
    for label, cmd in (("tally up --migrate", ['up', 'config', '--migrate', '--summary']), ("tally init .", ['init', '.'])):
        root = os.path.join(tmp, label.replace(' ', '_'))
        make(root)
        before = classify(root)
        out = tally(root, *cmd).stdout
        files = sorted(os.listdir(os.path.join(root, 'config')))
        after = classify(root)
        rerun = tally(root, *cmd)
        after_rerun = classify(root)
        if after != before or after_rerun != before:
            problems.append(
                f"{label}:\n      before            : {before}\n      after migration   : {after}\n"
                f"      after re-running  : {after_rerun}\n      config/ now holds : {files}\n"
                f"      migration said    : {[l.strip() for l in out.splitlines() if 'Created' in l or 'Backed up' in l or 'Updated' in l or 'complete' in l]}")
finally:
    shutil.rmtree(tmp, ignore_errors=True)

if problems:
    print("C15 VIOLATED: completed migration leaves the budget classifying with no rules while the rules are on disk")
    for p in problems:
        print(" -", p)
    sys.exit(1)
print("ok")
