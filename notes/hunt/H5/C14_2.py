#!/usr/bin/env python
"""C14 counterexample 2: CSV rows that the CSV loader accepts but whose conversion makes merchants.rules unloadable.

A row with an empty Category (and no tags), or an empty Merchant, is accepted by load_merchant_rules and is harmless
in the CSV (it never decides a category).  The converter writes it as a rule block that the .rules loader rejects,
so the *whole* migrated file fails to load; `tally up --migrate` then leaves the budget classifying everything as
Unknown on the next run.  A short row (missing columns) is converted to the literal category "None".
"""
import os, sys, json, tempfile, shutil, subprocess

from tally.merchant_utils import get_all_rules, load_merchant_rules, normalize_merchant, clear_engine_cache
from tally.merchant_engine import csv_to_merchants_content, parse_merchants

HEADER = "Pattern,Merchant,Category,Subcategory\n"
GOOD = "NETFLIX,Netflix,Subscriptions,Streaming\n"
problems = []
tmp = tempfile.mkdtemp()


def check(label, csv_text, desc):
    path = os.path.join(tmp, 'm.csv')
    with open(path, 'w', encoding='utf-8') as f:
        f.write(csv_text)
    clear_engine_cache()
    rules = get_all_rules(path)
    old = normalize_merchant(desc, rules, amount=10.0)[:3]
    content = csv_to_merchants_content(load_merchant_rules(path))
    try:
        eng = parse_merchants(content)
    except Exception as e:
        problems.append(f"{label}: CSV loader accepted {len(rules)} rules ({desc!r} -> {old}); "
                        f"generated merchants.rules fails to load: {e}")
        return
    r = eng.match({'description': desc, 'amount': 10.0})
    new = (r.merchant, r.category, r.subcategory) if r.matched else (old[0], 'Unknown', 'Unknown')
    if new != old:
        problems.append(f"{label}: {desc!r}: CSV rules -> {old}, migrated rules -> {new}")


try:
    check("empty category", HEADER + "PLACEHOLDER,Todo,,\n" + GOOD, "NETFLIX.COM")
    check("empty merchant", HEADER + "FOO,,Food,Snacks\n" + GOOD, "NETFLIX.COM")
    check("short row", HEADER + "FOO,Foo\n" + GOOD, "FOO BAR")

    # End to end: migrate a budget whose CSV has one category-less row
    root = os.path.join(tmp, 'budget')
    os.makedirs(os.path.join(root, 'config')); os.makedirs(os.path.join(root, 'data'))
    with open(os.path.join(root, 'config', 'settings.yaml'), 'w') as f:
        f.write('year: 2025\ndata_sources:\n  - name: Bank\n    file: data/bank.csv\n'
                '    format: "{date:%Y-%m-%d},{description},{amount}"\n')
    with open(os.path.join(root, 'config', 'merchant_categories.csv'), 'w') as f:
        f.write(HEADER + "PLACEHOLDER,Todo,,\n" + GOOD)
    with open(os.path.join(root, 'data', 'bank.csv'), 'w') as f:
        f.write('Date,Description,Amount\n2025-03-15,NETFLIX.COM,15.99\n')

    def up(*extra):
        p = subprocess.run([sys.executable, '-m', 'tally', 'up', 'config', '--format', 'json', *extra],
                           cwd=root, capture_output=True, text=True, stdin=subprocess.DEVNULL,
                           env=dict(os.environ, NO_COLOR='1'))
        data = json.loads(p.stdout[p.stdout.index('{\n'):])
        return [(m['name'], m['category']) for m in data['merchants']], p.stdout

    before, _ = up()
    _, out = up('--migrate')
    after, _ = up()
    if before != after:
        problems.append(f"end-to-end: before migration {before}; `tally up --migrate` printed "
                        f"{'Migration complete!' in out and 'Migration complete!' or '?'}; next `tally up` -> {after}")
finally:
    shutil.rmtree(tmp, ignore_errors=True)

if problems:
    print("C14 VIOLATED: accepted CSV rows make the generated merchants.rules unloadable / change classification")
    for p in problems:
        print(" -", p)
    sys.exit(1)
print("ok")
