#!/usr/bin/env python
"""C17 counterexample 2: anything that precedes the first [section] header and is not a well-formed assignment is
silently skipped by the merchants.rules reader - single-point corruptions are trimmed, not rejected.

Each case below is a valid file with ONE damaged spot.  The property requires a MerchantParseError naming the line;
instead the file loads and a rule / variable / transform has quietly disappeared.
"""
import sys
from tally.merchant_engine import parse_merchants, MerchantParseError

VALID = ('is_large = amount > 500\n'
         'field.description = regex_replace(field.description, "^APLPAY ", "")\n'
         '\n'
         '[Netflix]\nmatch: contains("NETFLIX")\ncategory: Subscriptions\n\n'
         '[Big]\nmatch: is_large\ncategory: Shopping\n')

CASES = [
    ("first header lost its '['",            VALID.replace('[Netflix]', 'Netflix]')),
    ("first header lost its ']'",            VALID.replace('[Netflix]', '[Netflix')),
    ("comment appended to first header",     VALID.replace('[Netflix]', '[Netflix]  # streaming')),
    ("UTF-8 BOM before a leading header",    '﻿' + VALID.split('\n\n', 1)[1]),
    ("typo in variable name (is-large)",     VALID.replace('is_large = ', 'is-large = ')),
    ("typo in transform target (fields.)",   VALID.replace('field.description =', 'fields.description =')),
    ("stray property line before any rule",  'category: Oops\n' + VALID),
]

base = parse_merchants(VALID)
summary = lambda e: ([r.name for r in e.rules], sorted(e.variables), [t[0] for t in e.transforms])
problems = []
for label, text in CASES:
    try:
        e = parse_merchants(text)
    except MerchantParseError:
        continue                                  # rejected: what the property asks for
    problems.append(f"{label}: accepted. rules/variables/transforms = {summary(e)}   (valid file: {summary(base)})")

# what the loss means for classification: the [Big] rule silently never matches once its variable is gone
e = parse_merchants(VALID.replace('is_large = ', 'is-large = '))
r = e.match({'description': 'APPLE STORE', 'amount': 1200.0})
r0 = base.match({'description': 'APPLE STORE', 'amount': 1200.0})
if r.category != r0.category:
    problems.append(f"effect: $1200 APPLE STORE is {r0.category!r} with the valid file, {r.category or 'Unknown'!r} with the typo - no error anywhere")

if problems:
    print("C17 VIOLATED: malformed content before the first section is dropped silently")
    for p in problems:
        print(" -", p)
    sys.exit(1)
print("ok")
