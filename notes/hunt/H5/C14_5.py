#!/usr/bin/env python
"""C14 counterexample 5 (minor, text-level): names, tags and letter case are not carried over faithfully.

 - merchant / category / subcategory with leading or trailing blanks (quoted CSV fields) lose them;
 - a tag containing a comma or an open parenthesis is split / merged differently (CSV tags are '|'-separated,
   .rules tags are ','-separated outside parentheses);
 - the CSV matcher searches the UPPER-CASED description, the migrated regex() searches the original one:
   'ß'.upper() == 'SS', so STRASSE matches "Hauptstraße" only before migration; (?-i:...) groups behave differently.
"""
import os, sys, tempfile, shutil
from tally.merchant_utils import get_all_rules, load_merchant_rules, normalize_merchant, clear_engine_cache
from tally.merchant_engine import csv_to_merchants_content, parse_merchants

H = "Pattern,Merchant,Category,Subcategory,Tags\n"
CASES = [
    ('blanks in names',      'FOO," Foo Inc "," Food "," Snacks ",\n',       "FOO 1"),
    ('tag with comma',       'FOO,Foo,Food,Snacks,"tax,2025|work"\n',        "FOO 1"),
    ('tag with open paren',  'FOO,Foo,Food,Snacks,"biz (q1|work"\n',         "FOO 1"),
    ('sharp s upper-casing', 'STRASSE,Hotel,Travel,Lodging,\n',              "Hotel Hauptstraße 5"),
    ('case-sensitive group', '(?-i:Netflix),Netflix,Subscriptions,Streaming,\n', "Netflix.com"),
]
problems = []
tmp = tempfile.mkdtemp()
try:
    for label, row, desc in CASES:
        path = os.path.join(tmp, 'm.csv')
        with open(path, 'w', encoding='utf-8') as f:
            f.write(H + row)
        clear_engine_cache()
        rules = get_all_rules(path)
        m, c, s, info = normalize_merchant(desc, rules, amount=10.0)
        old = (m if c != 'Unknown' else None, c, s, sorted((info or {}).get('tags', [])))
        eng = parse_merchants(csv_to_merchants_content(load_merchant_rules(path)))
        r = eng.match({'description': desc, 'amount': 10.0})
        new = (r.merchant, r.category, r.subcategory, sorted(r.tags)) if r.matched else (None, 'Unknown', 'Unknown', sorted(r.tags))
        if old != new:
            problems.append(f"{label}: row {row.strip()!r}, txn {desc!r}\n      CSV rules      -> {old}\n      migrated rules -> {new}")
finally:
    shutil.rmtree(tmp, ignore_errors=True)

if problems:
    print("C14 VIOLATED (text-level differences between CSV rules and migrated rules)")
    for p in problems:
        print(" -", p)
    sys.exit(1)
print("ok")
