#!/usr/bin/env python
"""C15 counterexample 2: a crash while settings.yaml is being appended strands the budget.

The migration appends two lines to settings.yaml in place.  We run the real `tally up --migrate` in-process and
kill it (BaseException, so no handler of the program runs) after part of the appended text has reached the file -
the "in-flight file partially written" case of the property.

  cut A: "...\\nmerchants_file: config/merch"   -> settings names a file that does not exist: load_config sets no
         rules file at all (it does not fall back to the CSV that is still there): everything Unknown, and re-running
         `tally up --migrate` does not repair it ("No merchant rules found").
  cut B: "...\\nmerchants_file:"                -> harmless at first (empty value -> CSV still used), but re-running the
         same command now skips the settings update ('merchants_file:' is in the text), renames the CSV to .bak and
         leaves the budget with no rules although merchants.rules and the .bak exist.
"""
import builtins, io, json, os, shutil, subprocess, sys, tempfile

SETTINGS = ('year: 2025\ndata_sources:\n  - name: Bank\n    file: data/bank.csv\n'
            '    format: "{date:%Y-%m-%d},{description},{amount}"\n')
CSV = "Pattern,Merchant,Category,Subcategory\nNETFLIX,Netflix,Subscriptions,Streaming\nCOSTCO,Costco,Food,Grocery\n"
DATA = 'Date,Description,Amount\n2025-03-15,NETFLIX.COM,15.99\n2025-03-16,COSTCO WHSE #123,120.00\n'
COMMENT = '\n# Merchant rules file (migrated from CSV)\n'


class Killed(BaseException):
    pass


def make(root):
    os.makedirs(os.path.join(root, 'config')); os.makedirs(os.path.join(root, 'data'))
    open(os.path.join(root, 'config', 'settings.yaml'), 'w').write(SETTINGS)
    open(os.path.join(root, 'config', 'merchant_categories.csv'), 'w').write(CSV)
    open(os.path.join(root, 'data', 'bank.csv'), 'w').write(DATA)


def classify(root, *extra):
    p = subprocess.run([sys.executable, '-m', 'tally', 'up', 'config', '--format', 'json', *extra], cwd=root,
                       capture_output=True, text=True, stdin=subprocess.DEVNULL, env=dict(os.environ, NO_COLOR='1'))
    data = json.loads(p.stdout[p.stdout.index('{\n'):])
    return sorted((m['name'], m['category']) for m in data['merchants'])


def migrate_and_die_during_append(root, keep_chars):
    """Run the unmodified CLI; only `keep_chars` characters of the append to settings.yaml reach the disk."""
    real_open = builtins.open

    class Torn:
        def __init__(self, f): self.f, self.n = f, 0
        def write(self, s):
            self.f.write(s[:max(keep_chars - self.n, 0)]); self.n += len(s)
            if self.n >= keep_chars:
                self.f.flush(); self.f.close(); raise Killed()
        def __enter__(self): return self
        def __exit__(self, *a): self.f.close(); return False

    def spy_open(path, mode='r', *a, **k):
        f = real_open(path, mode, *a, **k)
        if str(path).endswith('settings.yaml') and 'a' in mode:
            return Torn(f)
        return f

    from tally.cli import main
    saved = (sys.argv, os.getcwd(), sys.stdout)
    builtins.open = spy_open
    sys.argv = ['tally', 'up', 'config', '--migrate', '--summary']
    os.chdir(root); sys.stdout = io.StringIO()
    try:
        main()
        raise AssertionError("crash point not reached")
    except Killed:
        pass
    finally:
        builtins.open = real_open
        sys.argv = saved[0]; os.chdir(saved[1]); sys.stdout = saved[2]


problems = []
tmp = tempfile.mkdtemp()
try:
    for label, tail in (("A", 'merchants_file: config/merch'), ("B", 'merchants_file:')):
        root = os.path.join(tmp, label)
        make(root)
        before = classify(root)
        migrate_and_die_during_append(root, len(COMMENT) + len(tail))
        settings_tail = open(os.path.join(root, 'config', 'settings.yaml')).read()[len(SETTINGS):]
        after_crash = classify(root)
        after_rerun_cmd = classify(root, '--migrate')     # "simply re-running the same command"
        later = classify(root)
        files = sorted(os.listdir(os.path.join(root, 'config')))
        if after_crash != before or later != before:
            problems.append(
                f"cut {label}: settings.yaml gained {settings_tail!r}\n"
                f"      before the migration        : {before}\n"
                f"      tally up after the crash    : {after_crash}\n"
                f"      re-run tally up --migrate   : {after_rerun_cmd}\n"
                f"      tally up after the re-run   : {later}\n"
                f"      config/ at the end          : {files}")
finally:
    shutil.rmtree(tmp, ignore_errors=True)

if problems:
    print("C15 VIOLATED: interrupted append to settings.yaml leaves the budget without rules (rules still on disk)")
    for p in problems:
        print(" -", p)
    sys.exit(1)
print("ok")
