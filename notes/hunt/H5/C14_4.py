#!/usr/bin/env python
"""C14 counterexample 4: with `rule_mode: most_specific` in settings.yaml, migrating the CSV changes classification.

CSV rules are always evaluated first-match (the legacy loop in normalize_merchant ignores rule_mode); the migrated
merchants.rules is evaluated by MerchantEngine in the configured mode.  Same budget, same statement, different
category before and after `tally up --migrate`.
"""
import os, sys, json, tempfile, shutil, subprocess

tmp = tempfile.mkdtemp()
try:
    root = os.path.join(tmp, 'budget')
    os.makedirs(os.path.join(root, 'config')); os.makedirs(os.path.join(root, 'data'))
    with open(os.path.join(root, 'config', 'settings.yaml'), 'w') as f:
        f.write('year: 2025\nrule_mode: most_specific\ndata_sources:\n  - name: Bank\n    file: data/bank.csv\n'
                '    format: "{date:%Y-%m-%d},{description},{amount}"\n')
    with open(os.path.join(root, 'config', 'merchant_categories.csv'), 'w') as f:
        f.write("Pattern,Merchant,Category,Subcategory\n"
                "COSTCO,Costco,Food,Grocery\n"
                "COSTCO GAS,Costco Gas,Transport,Gas\n")
    with open(os.path.join(root, 'data', 'bank.csv'), 'w') as f:
        f.write('Date,Description,Amount\n2025-03-16,COSTCO GAS #123,40.00\n')

    def up(*extra):
        p = subprocess.run([sys.executable, '-m', 'tally', 'up', 'config', '--format', 'json', *extra],
                           cwd=root, capture_output=True, text=True, stdin=subprocess.DEVNULL,
                           env=dict(os.environ, NO_COLOR='1'))
        data = json.loads(p.stdout[p.stdout.index('{\n'):])
        return [(m['name'], m['category'], m['subcategory']) for m in data['merchants']]

    before = up()
    up('--migrate')
    after = up()
finally:
    shutil.rmtree(tmp, ignore_errors=True)

if before != after:
    print("C14 VIOLATED: classification changed by the migration under rule_mode: most_specific")
    print("  with merchant_categories.csv :", before)
    print("  with migrated merchants.rules:", after)
    sys.exit(1)
print("ok")
