#!/usr/bin/env python
"""C04 counterexample 1: the reference's own supplemental-data example
    [r for r in orders if abs(r.date - txn.date) <= 3]      ("within 3 days")
can never be evaluated: date - date is a timedelta and timedelta <= 3 is a TypeError,
so the expression fails for every transaction and every row."""
import sys
from datetime import date

from tally import expr_parser
from tally.merchant_engine import parse_merchants

ORDERS = [
    {'date': date(2025, 1, 2), 'item': 'Book', 'amount': 10.0},    # 1 day before  -> within 3 days
    {'date': date(2025, 1, 20), 'item': 'Lamp', 'amount': 10.0},   # 17 days after -> not
]
ROWS = {'orders': ORDERS}
TXN = {'description': 'AMAZON MKTP', 'amount': 10.0, 'date': date(2025, 1, 3)}

problems = []

# The example exactly as printed by `tally reference` (section "Transaction Context (txn.)")
SRC = '[r for r in orders if abs(r.date - txn.date) <= 3]'
expected = [r for r in ORDERS if abs((r['date'] - TXN['date']).days) <= 3]
try:
    got = expr_parser.evaluate_transaction(SRC, TXN, None, ROWS)
    if got != expected:
        problems.append(f'{SRC!r}: expected {expected!r}, got {got!r}')
except expr_parser.ExpressionError as e:
    problems.append(f'{SRC!r}: expected {expected!r}, got ExpressionError: {e}')

# Same thing inside a rule file: the let: binding silently becomes None, len(None) fails,
# the rule is skipped and the transaction stays Unknown.
RULES = '''
[Amazon - Verified]
let: near = [r for r in orders if abs(r.date - txn.date) <= 3]
match: contains("AMAZON") and len(near) > 0
category: Shopping
'''
result = parse_merchants(RULES).match(TXN, data_sources=ROWS)
if not result.matched:
    problems.append('rule using the documented "within 3 days" query does not match a '
                    'transaction that has an order 1 day away (rule skipped silently)')

# Informational only: there is no other spelling either
notes = []
for alt in ['len([r for r in orders if r.date - txn.date <= 3]) >= 0',
            'len([r for r in orders if abs(r.date - txn.date).days <= 3]) >= 0']:
    try:
        expr_parser.evaluate_transaction(alt, TXN, None, ROWS)
    except expr_parser.ExpressionError as e:
        notes.append(f'(note) alternative spelling {alt!r} also fails: {str(e)[:90]}')

if problems:
    print('C04 VIOLATED: documented date-distance query does not evaluate:')
    for p in problems:
        print('  -', p)
    for n in notes:
        print('  ', n)
    sys.exit(1)
print('OK')
sys.exit(0)
