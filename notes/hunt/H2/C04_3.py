#!/usr/bin/env python
"""C04 counterexample 3: `x in <list>` does not use the language's own equality.
`==` on strings ignores case and `==` between a date and an ISO string compares dates, but
membership in a list of supplemental values does neither, so
    "book" in [r.item for r in orders]        is not   any(r.item == "book" for r in orders)
and changing the letter case of an ASCII literal changes the result."""
import sys
from datetime import date

from tally import expr_parser
from tally.merchant_engine import parse_merchants

ROWS = {'orders': [{'date': date(2025, 1, 2), 'item': 'Book', 'amount': 10.0},
                   {'date': date(2025, 1, 9), 'item': 'Pen', 'amount': 5.0}]}
TXN = {'description': 'AMAZON MKTP', 'amount': 10.0, 'date': date(2025, 1, 2)}


def ev(src):
    try:
        return bool(expr_parser.evaluate_transaction(src, TXN, None, ROWS))
    except expr_parser.ExpressionError as e:
        return f'ExpressionError({e})'


problems = []
PAIRS = [
    # (expression, equivalent rewriting that must give the same result)
    ('"book" in [r.item for r in orders]', 'any(r.item == "book" for r in orders)'),
    ('"book" in [r.item for r in orders]', '"BOOK" in [r.item for r in orders]'),
    ('"book" in [r.item for r in orders]', '"Book" in [r.item for r in orders]'),
    ('"book" not in [r.item for r in orders]', 'all(r.item != "book" for r in orders)'),
    ('"2025-01-02" in [r.date for r in orders]', 'any(r.date == "2025-01-02" for r in orders)'),
]
for a, b in PAIRS:
    ra, rb = ev(a), ev(b)
    if ra != rb:
        problems.append(f'{a}  ->  {ra}   but   {b}  ->  {rb}')

# Same through a single-rule file: the rule only fires for one spelling of the literal
def matched(literal):
    rules = f'[Books]\nmatch: {literal} in [r.item for r in orders]\ncategory: Shopping\n'
    return parse_merchants(rules).match(TXN, data_sources=ROWS).matched
if matched('"Book"') != matched('"book"'):
    problems.append(f'rule `match: "Book" in [r.item for r in orders]` matched={matched(chr(34)+"Book"+chr(34))}, '
                    f'with "book" matched={matched(chr(34)+"book"+chr(34))}')

if problems:
    print('C04 VIOLATED: list membership is case-sensitive / not date-aware, unlike ==:')
    for p in problems:
        print('  -', p)
    sys.exit(1)
print('OK')
sys.exit(0)
