#!/usr/bin/env python
"""C03 counterexample 1: generator objects (interpreter internals) escape from rule
expressions as values and inside strings (tags, field: values, let: variables)."""
import re
import sys
import types
from datetime import date

from tally import expr_parser
from tally.merchant_engine import parse_merchants

ROWS = {'orders': [{'date': date(2025, 1, 2), 'item': 'Book', 'amount': 10.0},
                   {'date': date(2025, 1, 9), 'item': 'Pen', 'amount': 5.0}]}
TXN = {'description': 'AMAZON MKTP', 'amount': 10.0, 'date': date(2025, 1, 3),
       'field': {'memo': 'abc'}, 'source': 'Amex'}

INTERNAL = re.compile(r'<generator object|object at 0x|<function|<class |<built-in|<module|<bound method', re.I)
problems = []


def contains_internal(value, depth=0):
    """True if value is/contains a non-data Python object or a string showing one."""
    if isinstance(value, str):
        return bool(INTERNAL.search(value))
    if isinstance(value, (types.GeneratorType, types.FunctionType, types.MethodType,
                          types.ModuleType, types.BuiltinFunctionType, type,
                          types.FrameType, types.CodeType)):
        return True
    if isinstance(value, (list, tuple, set)) and depth < 5:
        return any(contains_internal(v, depth + 1) for v in value)
    if isinstance(value, dict) and depth < 5:
        return any(contains_internal(v, depth + 1) for v in value.values())
    return False


# 1. Direct evaluation: all of these load (pass the whitelist) and evaluate without error
EXPRS = [
    '[(r.item for r in orders) for x in orders]',          # list of generator objects
    '"%s" % (r.item for r in orders)',                     # generator repr inside a string
    'trim([(r.item for r in orders) for x in orders])',    # documented function, same leak
    'uppercase([(r.item for r in orders) for x in orders])',
]
for src in EXPRS:
    try:
        expr_parser.parse_expression(src)  # "rejected when the file is loaded"? no
        value = expr_parser.evaluate_transaction(src, TXN, None, ROWS)
    except expr_parser.ExpressionError as e:
        continue  # rejected or failed as an expression error: that is what the property wants
    if contains_internal(value):
        problems.append(f'evaluate_transaction({src!r}) returned {value!r}')

# 2. Through a .rules file: tag text, field: value and let: variable carry the object
RULES = '''
[Amazon]
let: gens = [(r.item for r in orders) for x in orders]
match: contains("AMAZON") and len(gens) == 2
category: Shopping
field: note = "%s" % (r.item for r in orders)
field: raw = gens
tags: {[(r.item for r in orders) for x in orders]}
'''
engine = parse_merchants(RULES)          # loads without complaint
result = engine.match(TXN, data_sources=ROWS)
if not result.matched:
    print('unexpected: rule did not match')
    sys.exit(2)
for tag in sorted(result.tags):
    if contains_internal(tag):
        problems.append(f'engine.match() produced the tag {tag!r}')
for name, value in result.extra_fields.items():
    if contains_internal(value):
        problems.append(f'engine.match() produced extra field {name} = {value!r}')

if problems:
    print('C03 VIOLATED: interpreter internals (generator objects) escape from expressions:')
    for p in problems:
        print('  -', p)
    sys.exit(1)
print('OK: no interpreter internals escaped')
sys.exit(0)
