#!/usr/bin/env python
"""C03 counterexample 2 (low severity): evaluating fuzzy(...) imports a module at
evaluation time: the interpreter searches sys.path, opens files, unmarshals/compiles and
executes module code while a match expression is being evaluated."""
import sys
from datetime import date

from tally import expr_parser

events = []
recording = [False]


def hook(event, args):
    if recording[0] and event in ('import', 'open', 'exec', 'compile', 'marshal.loads'):
        events.append((event, str(args)[:90]))


sys.addaudithook(hook)

TXN = {'description': 'STARBUKS COFFEE', 'amount': 4.5, 'date': date(2025, 1, 3)}
SRC = 'fuzzy("STARBUCKS")'

tree = expr_parser.parse_expression(SRC)      # loading (ast.parse) is done here, not recorded
already = 'difflib' in sys.modules

recording[0] = True
value = expr_parser.evaluate_transaction_ast(tree, TXN)
recording[0] = False

bad = [e for e in events if e[0] in ('import', 'open', 'exec', 'marshal.loads')]
if bad:
    print(f'C03 VIOLATED: evaluating {SRC!r} (result {value!r}) raised these audit events:')
    seen = set()
    for ev, args in bad:
        if (ev, args) not in seen:
            seen.add((ev, args))
            print(f'  - {ev}: {args}')
    print('  (cause: "from difflib import SequenceMatcher" inside TransactionContext._fn_fuzzy)')
    sys.exit(1)
if already:
    print('INCONCLUSIVE: difflib was already imported before evaluation')
    sys.exit(2)
print('OK: evaluation raised no import/open/exec events')
sys.exit(0)
