#!/usr/bin/env python
"""C04 counterexample 6: comprehension / generator / := scoping differs from Python.
Each expression below is valid Python (with rows as attribute-access dicts); the expected
value is computed by Python's own eval and compared with tally's evaluator.
  a) a comprehension whose loop variable reuses a name bound to None by := unbinds that name
  b) next() closes a generator that is still referenced through :=, so a second next() sees
     it exhausted
  c) a loop variable called txn or field is ignored by attribute access (txn.amount reads the
     transaction although `txn` is the innermost binding)"""
import sys
from datetime import date

from tally import expr_parser


class Row(dict):
    __getattr__ = dict.__getitem__


ORDERS = [Row(date=date(2025, 1, 2), item='Book', amount=10.0, memo='m1'),
          Row(date=date(2025, 1, 9), item='Pen', amount=5.0, memo='m2')]
TXN = {'description': 'AMAZON MKTP', 'amount': 99.0, 'date': date(2025, 1, 3),
       'field': {'memo': 'txn-memo'}}

CASES = [
    ('a', '((x := None) == None) and (len([x for x in orders]) == 2) and (x == None)'),
    ('b', '((g := (r.amount for r in orders)) != 0) and (next(g, 0) + next(g, 0) == 15)'),
    ('b', '((g := (r.item for r in orders)) != 0) and (next(g) == "Book") and (next(g) == "Pen")'),
    ('c', 'sum(txn.amount for txn in orders)'),
    ('c', 'len([field for field in orders if field.memo == "m1"])'),
]

problems = []
for kind, src in CASES:
    py_env = {'orders': ORDERS, 'amount': TXN['amount'], 'txn': Row(TXN), 'field': Row(TXN['field'])}
    expected = eval(src, {'__builtins__': {'len': len, 'sum': sum, 'next': next}}, py_env)
    try:
        got = expr_parser.evaluate_transaction(src, TXN, None, {'orders': [dict(r) for r in ORDERS]})
    except expr_parser.ExpressionError as e:
        got = f'ExpressionError: {e}'
    if got != expected:
        problems.append(f'({kind}) {src}\n        Python: {expected!r}   tally: {got!r}')

if problems:
    print('C04 VIOLATED: comprehension/generator/:= constructs do not behave like Python:')
    for p in problems:
        print('  -', p)
    sys.exit(1)
print('OK')
sys.exit(0)
