#!/usr/bin/env python
"""C04 counterexample 2: `match: *` (the reference's match-everything example, section
"Dynamic Tags") is not an expression of the language: the rules file is rejected."""
import os
import shutil
import sys
import tempfile
from datetime import date

from tally.merchant_engine import parse_merchants, MerchantParseError
from tally.merchant_utils import get_all_rules, normalize_merchant, clear_engine_cache

# Exactly the example printed by `tally reference`
RULES = '''[All Purchases]
match: *
tags: {source}
'''
TXN = {'description': 'ANY SHOP', 'amount': 12.0, 'date': date(2025, 1, 3), 'source': 'alice-amex'}
problems = []

try:
    engine = parse_merchants(RULES)
    tags = engine.match(TXN).tags
    if tags != {'alice-amex'}:
        problems.append(f'expected tags {{"alice-amex"}}, got {tags!r}')
except MerchantParseError as e:
    problems.append(f'parse_merchants rejects the documented example: {e}')

# Through the path `tally up` uses the failure is silent: no rules, no tags
tmp = tempfile.mkdtemp()
try:
    path = os.path.join(tmp, 'merchants.rules')
    with open(path, 'w', encoding='utf-8') as f:
        f.write(RULES)
    rules = get_all_rules(path)
    info = normalize_merchant('ANY SHOP', rules, amount=12.0, txn_date=date(2025, 1, 3),
                              data_source='alice-amex')[3]
    tags = (info or {}).get('tags', [])
    if 'alice-amex' not in tags:
        problems.append(f'get_all_rules + normalize_merchant: {len(rules)} rules loaded, tags {tags!r} '
                        f'(expected the tag "alice-amex")')
finally:
    clear_engine_cache()
    shutil.rmtree(tmp, ignore_errors=True)

if problems:
    print('C04 VIOLATED: documented `match: *` does not mean "every transaction":')
    for p in problems:
        print('  -', p)
    sys.exit(1)
print('OK')
sys.exit(0)
