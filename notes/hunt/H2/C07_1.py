#!/usr/bin/env python
"""C07 counterexample 1 (API level, borderline): a CSV rule file loaded with
load_merchant_rules() after a .rules file was loaded with get_all_rules() is ignored:
normalize_merchant(desc, csv_rules) keeps classifying with the earlier .rules engine."""
import os
import shutil
import subprocess
import sys
import tempfile

from tally import merchant_utils as mu

tmp = tempfile.mkdtemp()
try:
    a_rules = os.path.join(tmp, 'a.rules')
    c_csv = os.path.join(tmp, 'c.csv')
    with open(a_rules, 'w', encoding='utf-8') as f:
        f.write('[Netflix A]\nmatch: contains("NETFLIX")\ncategory: FromRulesFile\n')
    with open(c_csv, 'w', encoding='utf-8') as f:
        f.write('Pattern,Merchant,Category,Subcategory\nNETFLIX,Netflix C,FromCsvFile,Streaming\n')

    # History: load A (.rules), then load C (CSV) with the public CSV loader, classify with C
    mu.get_all_rules(a_rules)
    csv_rules = mu.load_merchant_rules(c_csv)
    with_history = mu.normalize_merchant('NETFLIX.COM', csv_rules, amount=15.99)[:3]

    # Same last two operations in a fresh interpreter
    code = ('from tally import merchant_utils as mu;'
            f'r = mu.load_merchant_rules({c_csv!r});'
            'print(mu.normalize_merchant("NETFLIX.COM", r, amount=15.99)[:3])')
    fresh = subprocess.run([sys.executable, '-c', code], capture_output=True, text=True,
                           env=dict(os.environ)).stdout.strip()
finally:
    mu.clear_engine_cache()
    shutil.rmtree(tmp, ignore_errors=True)

if repr(with_history) != fresh:
    print('C07 VIOLATED: classification with the most recently loaded (CSV) rule set depends on an '
          'earlier .rules load:')
    print(f'  - after get_all_rules(a.rules); load_merchant_rules(c.csv): {with_history!r}')
    print(f'  - fresh process, load_merchant_rules(c.csv) only:          {fresh}')
    sys.exit(1)
print('OK')
sys.exit(0)
