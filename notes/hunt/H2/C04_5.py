#!/usr/bin/env python
"""C04 counterexample 5: a top-level variable cannot use another top-level variable.
Variable expressions are evaluated without the user variables in scope, the failure is
swallowed, and every rule that uses the second variable silently never matches."""
import sys
from datetime import date

from tally.merchant_engine import parse_merchants

TXN = {'description': 'COSTCO WHSE', 'amount': 600.0, 'date': date(2025, 12, 3)}

WITH_CHAIN = '''
is_large = amount > 500
is_holiday = month >= 11 and month <= 12
holiday_splurge = is_large and is_holiday

[Holiday Splurge]
match: holiday_splurge
category: Shopping
'''
INLINED = '''
is_large = amount > 500
is_holiday = month >= 11 and month <= 12

[Holiday Splurge]
match: is_large and is_holiday
category: Shopping
'''
e1 = parse_merchants(WITH_CHAIN)     # loads without any complaint
e2 = parse_merchants(INLINED)
r1 = e1.match(TXN)
r2 = e2.match(TXN)
values = e1._evaluate_variables(TXN)

if r1.matched != r2.matched or 'holiday_splurge' not in values:
    print('C04 VIOLATED: user variables are not resolvable inside variable expressions:')
    print(f'  - `match: is_large and is_holiday`                      -> matched={r2.matched}')
    print(f'  - `holiday_splurge = is_large and is_holiday` + `match: holiday_splurge` -> matched={r1.matched}')
    print(f'  - evaluated variables for the transaction: {values} (holiday_splurge silently dropped)')
    sys.exit(1)
print('OK')
sys.exit(0)
