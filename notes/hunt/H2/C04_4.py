#!/usr/bin/env python
"""C04 counterexample 4: the target of a field transform is case-sensitive although every
other name in the language is case-insensitive. `field.MEMO = trim(field.memo)` or
`field.Description = ...` load fine, but write to a key that no expression can ever read,
so the transform silently has no effect."""
import sys
from datetime import date

from tally.merchant_engine import parse_merchants
from tally.merchant_utils import apply_transforms


def classify(transform_line):
    rules = f'''{transform_line}

[Starbucks]
match: startswith("STARBUCKS") and field.memo == "ref"
category: Food
'''
    engine = parse_merchants(rules)
    txn = {'description': 'APLPAY STARBUCKS', 'amount': 4.5, 'date': date(2025, 1, 3),
           'field': {'memo': '  ref  '}}
    apply_transforms(txn, engine.transforms)
    return engine.match(txn).matched, txn


problems = []
VARIANTS = [
    # (lower-case spelling, same line with the case of a name changed)
    ('field.description = strip_prefix(field.description, "APLPAY ")\nfield.memo = trim(field.memo)',
     'field.Description = strip_prefix(field.description, "APLPAY ")\nfield.memo = trim(field.memo)'),
    ('field.description = strip_prefix(field.description, "APLPAY ")\nfield.memo = trim(field.memo)',
     'field.description = strip_prefix(field.description, "APLPAY ")\nfield.MEMO = trim(field.memo)'),
]
for lower, changed in VARIANTS:
    m1, t1 = classify(lower)
    m2, t2 = classify(changed)
    if m1 != m2:
        diff = changed.replace(lower.split('\n')[0] + '\n', '') if changed.startswith(lower.split('\n')[0]) else changed.split('\n')[0]
        problems.append(f'with {diff!r} instead of its lower-case spelling: matched {m1} -> {m2}; '
                        f'transaction after transforms: {t2}')

if problems:
    print('C04 VIOLATED: changing the letter case of a transform target changes the classification:')
    for p in problems:
        print('  -', p)
    sys.exit(1)
print('OK')
sys.exit(0)
