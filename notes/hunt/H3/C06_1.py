#!/usr/bin/env python
"""C06 counterexample 1: the summary that `tally up --format json` prints does not conserve
money.  It is recomputed from per-merchant net totals instead of the six per-transaction buckets:
income and investment are ALSO counted as gross_spending, net transfers-out show up as credits,
a refund is netted against purchases of the same merchant, and net_cash_flow is income minus the
signed raw total.  `--format markdown` / `--format summary` / the HTML report of the same budget
show the per-transaction figures, so two outputs of one command disagree."""
import json, os, shutil, subprocess, sys, tempfile
from datetime import datetime
from tally.analyzer import analyze_transactions, export_json

def T(merchant, cat, amount, tags=()):
    return dict(date=datetime(2024, 1, 5), raw_description=merchant.upper(), description=merchant,
                amount=amount, merchant=merchant, category=cat, subcategory="S", source="X",
                tags=list(tags))

def close(a, b):
    return a is not None and abs(a - b) < 0.005

def main():
    failed = False
    txns = [T("Employer", "Income", -3000.0, ["income"]),     # paycheck (bank shows deposits negative)
            T("Grocer", "Food", 100.0),                        # purchase
            T("Grocer", "Food", -30.0),                        # refund
            T("Broker", "Invest", 500.0, ["investment"]),
            T("Bank", "Xfer", -200.0, ["transfer"]),
            T("Bank", "Xfer", 50.0, ["transfer"])]
    stats = analyze_transactions(txns)
    want = dict(income=3000.0, investment=500.0, spending=100.0, credits=30.0,
                transfers_in=50.0, transfers_out=200.0)
    assert close(stats["income_total"], 3000) and close(stats["spending_total"], 100) \
        and close(stats["credits_total"], 30) and close(stats["cash_flow"], 2930), stats
    summ = json.loads(export_json(stats))["summary"]
    print("six buckets (analyze_transactions):", want, "cash_flow", stats["cash_flow"])
    print("export_json summary               :", summ)
    checks = [("gross_spending", summ["gross_spending"], 100.0),
              ("credits_total", summ["credits_total"], 30.0),
              ("income_total", summ["income_total"], 3000.0),
              ("net_cash_flow", summ["net_cash_flow"], 2930.0)]
    for name, got, exp in checks:
        if not close(got, exp):
            failed = True
            print("VIOLATION: JSON summary %s = %r, per-transaction bucket value is %r" % (name, got, exp))
    # grand total: per-merchant totals do not add up to stats['total'] (printed as total_spending)
    per_merchant = sum(d["total"] for d in stats["by_merchant"].values())
    if not close(per_merchant, stats["total"]):
        failed = True
        print("VIOLATION: sum of per-merchant totals = %r but grand total stats['total'] "
              "(JSON total_spending) = %r" % (per_merchant, stats["total"]))

    # same thing end to end: paycheck-only budget, json vs markdown of the same command
    tmp = tempfile.mkdtemp(prefix="c06_1_")
    try:
        os.makedirs(os.path.join(tmp, "config")); os.makedirs(os.path.join(tmp, "data"))
        open(os.path.join(tmp, "config", "settings.yaml"), "w").write(
            'year: 2024\nmerchants_file: config/merchants.rules\ndata_sources:\n'
            '  - name: Bank\n    file: data/bank.csv\n'
            '    format: "{date:%Y-%m-%d}, {description}, {amount}"\n')
        open(os.path.join(tmp, "config", "merchants.rules"), "w").write(
            '[Employer]\nmatch: contains("PAYROLL")\ncategory: Income\nsubcategory: Salary\ntags: income\n')
        open(os.path.join(tmp, "data", "bank.csv"), "w").write(
            "Date,Description,Amount\n2024-01-31,ACME PAYROLL,-3000.00\n")
        def up(fmt):
            r = subprocess.run([sys.executable, "-m", "tally", "up", os.path.join(tmp, "config"),
                                "-q", "--format", fmt], capture_output=True, text=True, cwd=tmp)
            return r.stdout
        js = up("json"); md = up("markdown")
        s = json.loads(js[js.index("{"):])["summary"]
        print("tally up --format json, paycheck-only budget:", s)
        print("tally up --format markdown says:", [l for l in md.splitlines() if "Spending |" in l or "Income |" in l or "Net Cash" in l])
        if not close(s["gross_spending"], 0.0) or not close(s["net_cash_flow"], 3000.0):
            failed = True
            print("VIOLATION: a budget with one 3000 paycheck and no purchase reports gross_spending=%r, "
                  "net_cash_flow=%r (expected 0 and 3000)" % (s["gross_spending"], s["net_cash_flow"]))
    finally:
        shutil.rmtree(tmp, ignore_errors=True)
    if not failed:
        print("ok")
    return 1 if failed else 0

if __name__ == "__main__":
    sys.exit(main())
