#!/usr/bin/env python
"""C05 counterexample 4 (fidelity, low severity): a quoted description with an embedded CR LF
or bare CR comes back with the line break rewritten to LF, because the file is opened without
newline='' (the csv module's documented requirement)."""
import os, shutil, sys, tempfile
from tally.format_parser import parse_format_string
from tally.parsers import parse_generic_csv

def main():
    tmp = tempfile.mkdtemp(prefix="c05_4_")
    try:
        p = os.path.join(tmp, "a.csv")
        with open(p, "wb") as f:
            f.write(b'Date,Description,Amount\r\n'
                    b'2024-01-01,"ACME\r\nSECOND LINE",5.00\r\n'
                    b'2024-01-02,"FOO\rBAR",6.00\r\n')
        spec = parse_format_string("{date:%Y-%m-%d}, {description}, {amount}")
        got = [t["raw_description"] for t in parse_generic_csv(p, spec, [], source_name="Bank")]
        exp = ["ACME\r\nSECOND LINE", "FOO\rBAR"]
        if got != exp:
            print("VIOLATION: description text not carried faithfully")
            print("   cell text %r\n   read as   %r" % (exp, got))
            return 1
        print("ok")
        return 0
    finally:
        shutil.rmtree(tmp, ignore_errors=True)

if __name__ == "__main__":
    sys.exit(main())
