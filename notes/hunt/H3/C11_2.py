#!/usr/bin/env python
"""C11 counterexample 2: supplemental sources are read by a second, weaker reader
(config_loader.load_supplemental_sources), so they are NOT made available to rule expressions the way
their own settings say:
  (a) named columns next to {description} are missing from the rows (r.item unknown);
  (b) decimal_separator "," with a thousands separator ("1.234,56") yields amount 0.0;
  (c) {-amount} (and €/£, parentheses) are ignored: sign/amount differ from the main reader;
  (d) a regex-delimited supplemental source is silently unavailable;
  (e) a missing supplemental file is not reported at all.
Each case: one bank transaction AMAZON ORDER 1234.56 and one rule that should match it through the
supplemental source `orders`."""
import json, os, shutil, subprocess, sys, tempfile

RULE_AMOUNT = ('[Matched]\nmatch: contains("AMAZON") and any(r.amount == amount for r in orders)\n'
               'category: Shopping\nsubcategory: Online\n')
RULE_ITEM = ('[Matched]\nmatch: contains("AMAZON") and any(r.item == "Book" for r in orders)\n'
             'category: Shopping\nsubcategory: Online\n')

CASES = [
    # name, supplemental block (yaml, indented), orders file content (None = do not create), rules
    ("control: plain supplemental source works",
     '    format: "{date:%m/%d/%Y}, {item}, {amount}"\n    columns:\n      description: "{item}"\n',
     'Date,Item,Amount\n01/05/2024,Book,"1,234.56"\n', RULE_AMOUNT, True),
    ("(a) named column next to {description}",
     '    format: "{date:%m/%d/%Y}, {description}, {item}, {amount}"\n',
     'Date,Desc,Item,Amount\n01/05/2024,order 1,Book,1234.56\n', RULE_ITEM, False),
    ("(b) decimal_separator ',' with thousands separator",
     '    format: "{date:%m/%d/%Y}, {item}, {amount}"\n    decimal_separator: ","\n    columns:\n      description: "{item}"\n',
     'Date,Item,Amount\n01/05/2024,Book,"1.234,56"\n', RULE_AMOUNT, False),
    ("(c) {-amount} sign setting",
     '    format: "{date:%m/%d/%Y}, {item}, {-amount}"\n    columns:\n      description: "{item}"\n',
     'Date,Item,Amount\n01/05/2024,Book,-1234.56\n', RULE_AMOUNT, False),
    ("(d) regex delimiter",
     '    format: "{date:%m/%d/%Y}, {item}, {amount}"\n    has_header: false\n'
     '    delimiter: "regex:^(\\\\S+) (\\\\S+) (\\\\S+)$"\n    columns:\n      description: "{item}"\n',
     '01/05/2024 Book 1234.56\n', RULE_ITEM, False),
]

def run_case(block, orders, rules):
    tmp = tempfile.mkdtemp(prefix="c11_2_")
    try:
        files = {
            "config/settings.yaml": 'year: 2024\nmerchants_file: config/merchants.rules\ndata_sources:\n'
                                    '  - name: Bank\n    file: data/bank.csv\n'
                                    '    format: "{date:%m/%d/%Y}, {description}, {amount}"\n'
                                    '  - name: orders\n    file: data/orders.csv\n    supplemental: true\n' + block,
            "config/merchants.rules": rules,
            "data/bank.csv": "Date,Description,Amount\n01/06/2024,AMAZON ORDER,1234.56\n",
        }
        if orders is not None:
            files["data/orders.csv"] = orders
        for rel, text in files.items():
            p = os.path.join(tmp, rel); os.makedirs(os.path.dirname(p), exist_ok=True)
            with open(p, "w", encoding="utf-8", newline="") as f:
                f.write(text)
        r = subprocess.run([sys.executable, "-m", "tally", "up", os.path.join(tmp, "config"), "--format", "json"],
                           capture_output=True, text=True, cwd=tmp)
        i = r.stdout.find("{\n")
        preamble = r.stdout[:i] + r.stderr
        merchants = [(m["name"], m["category"]) for m in json.loads(r.stdout[i:])["merchants"]] if i >= 0 else None
        return merchants, preamble
    finally:
        shutil.rmtree(tmp, ignore_errors=True)

def main():
    failed = False
    for name, block, orders, rules, is_control in CASES:
        merchants, pre = run_case(block, orders, rules)
        ok = merchants == [("Matched", "Shopping")]
        print("%-55s -> %r%s" % (name, merchants, "" if "Supplemental sources: orders" in pre else "   [source not loaded, nothing reported]"))
        if is_control and not ok:
            print("control failed, environment problem"); return 2
        if not is_control and not ok:
            failed = True
            print("   VIOLATION: the rule using the supplemental source did not match")
    # (e) missing supplemental file: must at least be reported
    merchants, pre = run_case(CASES[0][1], None, RULE_AMOUNT)
    mentioned = "orders" in pre and ("not found" in pre.lower() or "error" in pre.lower())
    print("%-55s -> %r, reported=%r" % ("(e) supplemental file missing", merchants, mentioned))
    if not mentioned:
        failed = True
        print("   VIOLATION: missing supplemental source 'orders' is not reported anywhere in the output")
    if not failed:
        print("ok")
    return 1 if failed else 0

if __name__ == "__main__":
    sys.exit(main())
