#!/usr/bin/env python
"""C05 counterexample 3: a UTF-8 byte-order mark (what Excel's "CSV UTF-8" and many bank
exports write) glues itself to the first cell.  With has_header: false the first row is a
transaction row and it is silently dropped (date column first) or gets a U+FEFF inside its
description (description column first)."""
import os, shutil, sys, tempfile
from tally.format_parser import parse_format_string
from tally.parsers import parse_generic_csv

def read(path, fmt):
    spec = parse_format_string(fmt)
    spec.has_header = False
    txns = parse_generic_csv(path, spec, [], source_name="Bank")
    return [(t["date"].strftime("%Y-%m-%d"), t["raw_description"], t["amount"]) for t in txns]

def main():
    tmp = tempfile.mkdtemp(prefix="c05_3_")
    failed = False
    try:
        p = os.path.join(tmp, "a.csv")
        with open(p, "wb") as f:
            f.write(b"\xef\xbb\xbf2024-01-01,ALPHA,5.00\n2024-01-02,BETA,6.00\n")
        got = read(p, "{date:%Y-%m-%d}, {description}, {amount}")
        exp = [("2024-01-01", "ALPHA", 5.0), ("2024-01-02", "BETA", 6.0)]
        if got != exp:
            failed = True
            print("VIOLATION (date first): expected %r\n                        got      %r" % (exp, got))
        p = os.path.join(tmp, "b.csv")
        with open(p, "wb") as f:
            f.write(b"\xef\xbb\xbfALPHA,2024-01-01,5.00\nBETA,2024-01-02,6.00\n")
        got = read(p, "{description}, {date:%Y-%m-%d}, {amount}")
        if got != exp:
            failed = True
            print("VIOLATION (description first): expected %r\n                               got      %r" % (exp, got))
        if not failed:
            print("ok")
        return 1 if failed else 0
    finally:
        shutil.rmtree(tmp, ignore_errors=True)

if __name__ == "__main__":
    sys.exit(main())
