#!/usr/bin/env python
"""C11 counterexample 3: `rule_mode: most_specific` is silently ignored when the budget uses the
legacy config/merchant_categories.csv rules: `tally up` classifies first-match.  The same rules written as
a .rules file (what `--migrate` produces) honour the setting, so the report changes on migration."""
import json, os, shutil, subprocess, sys, tempfile

CSV_RULES = ("Pattern,Merchant,Category,Subcategory\n"
             "UBER,Uber,Transport,Rideshare\n"
             "UBER\\s*EATS,Uber Eats,Food,Delivery\n")
DOT_RULES = ('[Uber]\nmatch: regex("UBER")\ncategory: Transport\nsubcategory: Rideshare\n\n'
             '[Uber Eats]\nmatch: regex("UBER\\\\s*EATS")\ncategory: Food\nsubcategory: Delivery\n')

def run(mode, rules_rel, rules_text, extra=""):
    tmp = tempfile.mkdtemp(prefix="c11_3_")
    try:
        files = {
            "config/settings.yaml": "year: 2024\nrule_mode: %s\n%sdata_sources:\n  - name: Bank\n"
                                    "    file: data/bank.csv\n"
                                    '    format: "{date:%%m/%%d/%%Y}, {description}, {amount}"\n' % (mode, extra),
            rules_rel: rules_text,
            "data/bank.csv": "Date,Description,Amount\n01/06/2024,UBER EATS ORDER 42,12.99\n",
        }
        for rel, text in files.items():
            p = os.path.join(tmp, rel); os.makedirs(os.path.dirname(p), exist_ok=True)
            with open(p, "w", encoding="utf-8", newline="") as f:
                f.write(text)
        r = subprocess.run([sys.executable, "-m", "tally", "up", os.path.join(tmp, "config"), "-q", "--format", "json"],
                           capture_output=True, text=True, cwd=tmp, stdin=subprocess.DEVNULL)
        return [(m["name"], m["category"]) for m in json.loads(r.stdout[r.stdout.index("{"):])["merchants"]]
    finally:
        shutil.rmtree(tmp, ignore_errors=True)

def main():
    res = {}
    for mode in ("first_match", "most_specific"):
        res[("csv", mode)] = run(mode, "config/merchant_categories.csv", CSV_RULES)
        res[("rules", mode)] = run(mode, "config/merchants.rules", DOT_RULES, "merchants_file: config/merchants.rules\n")
    for k, v in res.items():
        print(k, v)
    failed = False
    if res[("rules", "most_specific")] != [("Uber Eats", "Food")] or res[("rules", "first_match")] != [("Uber", "Transport")]:
        print("unexpected control result"); return 2
    if res[("csv", "most_specific")] != [("Uber Eats", "Food")]:
        failed = True
        print("VIOLATION: rule_mode: most_specific with legacy CSV rules classified the transaction as %r; "
              "the more specific rule 'UBER\\s*EATS' -> ('Uber Eats', 'Food') should win (it does with the "
              "equivalent .rules file)" % (res[("csv", "most_specific")],))
    if not failed:
        print("ok")
    return 1 if failed else 0

if __name__ == "__main__":
    sys.exit(main())
