#!/usr/bin/env python
"""C06 counterexample 2: the same multiset of transactions, supplied in a different order (or with the
two data sources listed in the other order in settings.yaml), gives different figures:
the merchant record's category is 'last transaction wins', and everything grouped from the merchant
record - view (section) totals, the HTML report's categoryView totals, the category shown per merchant
in the JSON - moves with it.  Within one report the per-category total of analyze_transactions
(Shopping 100.00) and the category grouping built from merchants (Shopping 114.99 or 0) disagree."""
import sys
from datetime import datetime
from tally.analyzer import analyze_transactions, classify_by_sections, compute_section_totals
from tally.section_engine import parse_sections

def T(day, desc, merchant, cat, sub, amount):
    return dict(date=datetime(2024, 1, day), raw_description=desc, description=merchant, amount=amount,
                merchant=merchant, category=cat, subcategory=sub, source="S", tags=[])

# Two rules that share a merchant name (merchant: Amazon) but file it under different categories:
#   [Amazon Prime] match: contains("AMAZON PRIME")  category: Subscriptions  merchant: Amazon
#   [Amazon]       match: contains("AMAZON")        category: Shopping
a = T(6, "AMAZON PRIME MEMBERSHIP", "Amazon", "Subscriptions", "Streaming", 14.99)
b = T(7, "AMAZON MKTP ORDER", "Amazon", "Shopping", "Online", 100.00)
VIEWS = parse_sections('[Shopping]\nfilter: category == "Shopping"\n\n[Subs]\nfilter: category == "Subscriptions"\n')

def figures(txns):
    stats = analyze_transactions(txns)
    views = classify_by_sections(stats["by_merchant"], VIEWS, stats["num_months"])
    return {
        "merchant_category": stats["by_merchant"]["Amazon"]["category"],
        "view_totals": {k: round(compute_section_totals(v)["total"], 2) for k, v in views.items()},
        "by_category": {k[0]: round(v["total"], 2) for k, v in stats["by_category"].items()},
    }

def main():
    f1, f2 = figures([a, b]), figures([b, a])
    print("order [prime, order]:", f1)
    print("order [order, prime]:", f2)
    failed = False
    if f1["view_totals"] != f2["view_totals"] or f1["merchant_category"] != f2["merchant_category"]:
        failed = True
        print("VIOLATION: figures depend on the order in which the transactions are supplied")
    for f in (f1, f2):
        if f["view_totals"].get("Shopping") != f["by_category"].get("Shopping"):
            failed = True
            print("VIOLATION: view 'category == \"Shopping\"' totals %r but by_category['Shopping'] is %r"
                  % (f["view_totals"].get("Shopping"), f["by_category"].get("Shopping")))
            break
    if not failed:
        print("ok")
    return 1 if failed else 0

if __name__ == "__main__":
    sys.exit(main())
