#!/usr/bin/env python
"""C05 counterexample 2: one bad cell makes *other* rows unreadable.
 (a) tab-separated file, one description starting with an unbalanced double quote:
     every following row is silently swallowed (no error, no transaction).
 (b) one row containing a byte that is not valid UTF-8 (e.g. a Latin-1 'E acute'):
     parse_generic_csv raises and no row of the file is read."""
import os, shutil, sys, tempfile
from tally.format_parser import parse_format_string
from tally.parsers import parse_generic_csv

def read(path, delimiter=None):
    spec = parse_format_string("{date:%Y-%m-%d}, {description}, {amount}")
    spec.delimiter = delimiter
    txns = parse_generic_csv(path, spec, [], source_name="Bank")
    return [(t["date"].strftime("%Y-%m-%d"), t["raw_description"], t["amount"]) for t in txns]

def main():
    tmp = tempfile.mkdtemp(prefix="c05_2_")
    failed = False
    try:
        # (a) unbalanced quote in a TSV export (TSV exports normally do not quote at all)
        p = os.path.join(tmp, "a.tsv")
        with open(p, "wb") as f:
            f.write(b"Date\tDescription\tAmount\n"
                    b"2024-01-01\tALPHA\t5.00\n"
                    b"2024-01-02\t\"NEW ACCT\t6.00\n"      # malformed cell
                    b"2024-01-03\tGAMMA\t7.00\n"
                    b"2024-01-04\tDELTA\t8.00\n")
        got = read(p, "tab")
        must_have = [("2024-01-01", "ALPHA", 5.0), ("2024-01-03", "GAMMA", 7.0), ("2024-01-04", "DELTA", 8.0)]
        missing = [r for r in must_have if r not in got]
        if missing:
            failed = True
            print("VIOLATION (a): rows after the cell with the stray quote were not read")
            print("   got      %r" % (got,))
            print("   missing  %r" % (missing,))

        # (b) one non-UTF-8 byte in one row
        p = os.path.join(tmp, "b.csv")
        with open(p, "wb") as f:
            f.write(b"Date,Description,Amount\n"
                    b"2024-01-01,ALPHA,5.00\n"
                    b"2024-01-02,CAF\xc9 ROUGE,6.00\n"     # Latin-1 E-acute
                    b"2024-01-03,GAMMA,7.00\n")
        must_have = [("2024-01-01", "ALPHA", 5.0), ("2024-01-03", "GAMMA", 7.0)]
        try:
            got = read(p)
            missing = [r for r in must_have if r not in got]
            if missing:
                failed = True
                print("VIOLATION (b): got %r, missing %r" % (got, missing))
        except Exception as e:
            failed = True
            print("VIOLATION (b): %s: %s -> none of the good rows %r was read"
                  % (type(e).__name__, e, must_have))
        if not failed:
            print("ok")
        return 1 if failed else 0
    finally:
        shutil.rmtree(tmp, ignore_errors=True)

if __name__ == "__main__":
    sys.exit(main())
