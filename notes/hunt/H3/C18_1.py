#!/usr/bin/env python
"""C18 counterexample 1: description-template validation in parse_format_string only recognises
references spelled exactly `{word}`.
 (A) Templates naming an UNCAPTURED column with a conversion/format suffix, blanks or an empty field
     are accepted; the failure surfaces later while reading data (KeyError aborting the whole file, or
     IndexError swallowed by the per-row handler so that every row is silently dropped).
 (B) Conversely a template that names a CAPTURED column using the same letter case as the format string
     (`{Merchant}` ... `{Merchant}`) is rejected, because capture names are lower-cased and template
     references are not."""
import os, shutil, sys, tempfile
from tally.format_parser import parse_format_string
from tally.parsers import parse_generic_csv

FMT = "{date:%Y-%m-%d}, {merchant}, {amount}"

def main():
    failed = False
    tmp = tempfile.mkdtemp(prefix="c18_1_")
    try:
        path = os.path.join(tmp, "a.csv")
        with open(path, "w", encoding="utf-8", newline="") as f:
            f.write("Date,Merchant,Amount\n2024-01-01,ACME,5.00\n")
        # (A) uncaptured column references that are NOT rejected
        for tmpl in ("{merchant} {type:>8}", "{merchant} {type!s}", "{merchant} { type }", "{merchant} {}"):
            try:
                spec = parse_format_string(FMT, tmpl)
            except ValueError as e:
                print("rejected as required: %-24r (%s)" % (tmpl, str(e)[:50]))
                continue
            failed = True
            try:
                rows = parse_generic_csv(path, spec, [], source_name="S")
                outcome = "reading the file then returns %d of 1 rows, silently" % len(rows)
            except Exception as e:
                outcome = "reading the file then raises %s: %s" % (type(e).__name__, e)
            print("VIOLATION (A): template %-24r names an uncaptured column but is accepted; %s" % (tmpl, outcome))
        # control: the plain spelling is rejected
        try:
            parse_format_string(FMT, "{merchant} {type}")
            print("unexpected: control template accepted"); return 2
        except ValueError:
            pass
        # (B) same-case reference to a captured column is rejected
        try:
            spec = parse_format_string("{date:%Y-%m-%d}, {Merchant}, {amount}", "{Merchant}")
            rows = parse_generic_csv(path, spec, [], source_name="S")
            if [t["raw_description"] for t in rows] != ["ACME"]:
                failed = True
                print("VIOLATION (B): wrong description %r" % rows)
        except ValueError as e:
            failed = True
            print("VIOLATION (B): format {Merchant} + template {Merchant} rejected: %s" % e)
        if not failed:
            print("ok")
        return 1 if failed else 0
    finally:
        shutil.rmtree(tmp, ignore_errors=True)

if __name__ == "__main__":
    sys.exit(main())
