#!/usr/bin/env python
"""C11 counterexample 1: a data source configured with the (deprecated but still accepted)
`type: amex` / `type: boa` is not given the budget's transforms, its configured source name, or the
supplemental sources.  The same statement row is therefore classified differently from an identical
row of a `format:` source in the same run."""
import json, os, shutil, subprocess, sys, tempfile

SETTINGS = '''year: 2024
merchants_file: config/merchants.rules
data_sources:
  - name: Gold Card
    file: data/amex.csv
    type: amex
  - name: Checking
    file: data/boa.txt
    type: boa
  - name: Generic
    file: data/generic.csv
    format: "{date:%m/%d/%Y}, {description}, {amount}"
  - name: orders
    file: data/orders.csv
    format: "{date:%m/%d/%Y}, {item}, {amount}"
    columns:
      description: "{item}"
    supplemental: true
'''
RULES = '''field.description = regex_replace(field.description, "^APLPAY ", "")

[Coffee]
match: startswith("STARBUCKS")
category: Food
subcategory: Coffee

[Verified Order]
match: contains("AMZN") and any(r.amount == amount for r in orders)
category: Shopping
subcategory: Online

[By Source]
match: source == "Gold Card" or source == "Checking" or source == "Generic"
tags: src-ok
'''
FILES = {
    "config/settings.yaml": SETTINGS,
    "config/merchants.rules": RULES,
    "data/amex.csv": "Date,Description,Amount\n01/05/2024,APLPAY STARBUCKS 123,5.00\n01/06/2024,AMZN MKTP,20.00\n",
    "data/boa.txt": "01/05/2024  APLPAY STARBUCKS 123  5.00  100.00\n01/06/2024  AMZN MKTP  20.00  80.00\n",
    "data/generic.csv": "Date,Description,Amount\n01/05/2024,APLPAY STARBUCKS 123,5.00\n01/06/2024,AMZN MKTP,20.00\n",
    "data/orders.csv": "Date,Item,Amount\n01/06/2024,Book,20.00\n",
}

def main():
    tmp = tempfile.mkdtemp(prefix="c11_1_")
    try:
        for rel, text in FILES.items():
            p = os.path.join(tmp, rel); os.makedirs(os.path.dirname(p), exist_ok=True)
            with open(p, "w", encoding="utf-8", newline="") as f:
                f.write(text)
        out = os.path.join(tmp, "r.html")
        r = subprocess.run([sys.executable, "-m", "tally", "up", os.path.join(tmp, "config"), "-q", "-o", out],
                           capture_output=True, text=True, cwd=tmp)
        html = open(out, encoding="utf-8").read()
        start = html.index("window.spendingData = ") + len("window.spendingData = ")
        data = json.JSONDecoder().raw_decode(html[start:].replace("<\\/", "</"))[0]
        rows = []
        for cat, c in data["categoryView"].items():
            for sub in c["subcategories"].values():
                for m in sub["merchants"].values():
                    for t in m["transactions"]:
                        rows.append((t["source"], t["description"], m["displayName"], cat, tuple(t["tags"])))
        rows.sort()
        for row in rows:
            print("  ", row)
        failed = False
        # every source has the same two rows; all three should be classified identically
        for desc, want_merchant in (("APLPAY STARBUCKS 123", "Coffee"), ("AMZN MKTP", "Verified Order")):
            got = {src: mer for src, d, mer, cat, tags in rows if d == desc}
            if set(got.values()) != {want_merchant}:
                failed = True
                print("VIOLATION: %r should be merchant %r in every source, got %r" % (desc, want_merchant, got))
        sources = sorted({r[0] for r in rows})
        if sources != ["Checking", "Generic", "Gold Card"]:
            failed = True
            print("VIOLATION: configured source names are Gold Card / Checking / Generic, report has %r" % sources)
        untagged = sorted({r[0] for r in rows if "src-ok" not in r[4]})
        if untagged:
            failed = True
            print("VIOLATION: rule `source == <configured name>` did not match rows of sources %r" % untagged)
        if not failed:
            print("ok")
        return 1 if failed else 0
    finally:
        shutil.rmtree(tmp, ignore_errors=True)

if __name__ == "__main__":
    sys.exit(main())
