#!/usr/bin/env python
"""C05 counterexample 1: with a regex delimiter, one line whose optional capture group
did not participate (group value None) raises AttributeError out of parse_generic_csv,
so every other, perfectly good, row of the file is lost."""
import os, shutil, sys, tempfile
from tally.format_parser import parse_format_string
from tally.parsers import parse_generic_csv

CONTENT = (
    "2024-01-01 COFFEE 5.00\n"
    "2024-01-02 PENDING\n"          # malformed row: no amount -> group 3 is None
    "2024-01-03 MILK 3.00\n"
)
PATTERN = r"regex:^(\S+) (\w+)(?: (-?[\d.]+))?$"

def main():
    tmp = tempfile.mkdtemp(prefix="c05_1_")
    try:
        path = os.path.join(tmp, "stmt.txt")
        with open(path, "w", encoding="utf-8", newline="") as f:
            f.write(CONTENT)
        spec = parse_format_string("{date:%Y-%m-%d}, {description}, {amount}")
        spec.delimiter = PATTERN
        spec.has_header = False
        expected = [("2024-01-01", "COFFEE", 5.0), ("2024-01-03", "MILK", 3.0)]
        try:
            txns = parse_generic_csv(path, spec, [], source_name="Bank")
            got = [(t["date"].strftime("%Y-%m-%d"), t["raw_description"], t["amount"]) for t in txns]
        except Exception as e:  # noqa
            print("VIOLATION: parse_generic_csv raised %s: %s" % (type(e).__name__, e))
            print("  expected the malformed middle row to be skipped on its own and the")
            print("  two good rows to be read: %r" % (expected,))
            return 1
        if got != expected:
            print("VIOLATION: expected %r, got %r" % (expected, got))
            return 1
        print("ok")
        return 0
    finally:
        shutil.rmtree(tmp, ignore_errors=True)

if __name__ == "__main__":
    sys.exit(main())
