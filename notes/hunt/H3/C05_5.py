#!/usr/bin/env python
"""C05 counterexample 5: European amounts written with a NO-BREAK SPACE (U+00A0) or NARROW
NO-BREAK SPACE (U+202F) as thousands separator - what fr/pl/cs/sv locale exports actually
contain - are not understood under decimal_separator ','; the row is silently dropped, while
the same number with an ASCII space is read."""
import os, shutil, sys, tempfile
from tally.format_parser import parse_format_string
from tally.parsers import parse_generic_csv

def main():
    tmp = tempfile.mkdtemp(prefix="c05_5_")
    try:
        p = os.path.join(tmp, "a.csv")
        with open(p, "w", encoding="utf-8", newline="") as f:
            f.write("Date;Description;Amount\n"
                    "2024-01-01;ASCII SPACE;1 234,56\n"
                    "2024-01-02;NBSP;1\u00a0234,56\n"
                    "2024-01-03;NARROW NBSP;1\u202f234,56\n")
        spec = parse_format_string("{date:%Y-%m-%d}, {description}, {amount}")
        spec.delimiter = ";"
        got = [(t["raw_description"], t["amount"])
               for t in parse_generic_csv(p, spec, [], source_name="Bank", decimal_separator=",")]
        exp = [("ASCII SPACE", 1234.56), ("NBSP", 1234.56), ("NARROW NBSP", 1234.56)]
        if got != exp:
            print("VIOLATION: expected %r\n           got      %r" % (exp, got))
            return 1
        print("ok")
        return 0
    finally:
        shutil.rmtree(tmp, ignore_errors=True)

if __name__ == "__main__":
    sys.exit(main())
