#!/usr/bin/env python
"""C18 counterexample 2: a date format that contains a comma (e.g. "Jan 05, 2024" -> %b %d, %Y, the
format of Amazon / Apple / many US exports, always quoted in the CSV) cannot be expressed: the format
string is split on every comma before the {date:...} token is parsed, so the arrangement
date, description, amount with that date format is rejected instead of being mapped to columns 0,1,2."""
import os, shutil, sys, tempfile
from tally.format_parser import parse_format_string
from tally.parsers import parse_generic_csv

def main():
    fmt = "{date:%b %d, %Y}, {description}, {amount}"
    try:
        spec = parse_format_string(fmt)
    except ValueError as e:
        print("VIOLATION: %r rejected: %s" % (fmt, e))
        print("  expected date_column=0, date_format='%b %d, %Y', description_column=1, amount_column=2")
        return 1
    tmp = tempfile.mkdtemp(prefix="c18_2_")
    try:
        p = os.path.join(tmp, "a.csv")
        with open(p, "w", encoding="utf-8", newline="") as f:
            f.write('Date,Description,Amount\n"Jan 05, 2024",ACME,5.00\n')
        rows = parse_generic_csv(p, spec, [], source_name="S")
        got = [(t["date"].strftime("%Y-%m-%d"), t["raw_description"], t["amount"]) for t in rows]
        if (spec.date_column, spec.description_column, spec.amount_column, spec.date_format) != (0, 1, 2, "%b %d, %Y") \
                or got != [("2024-01-05", "ACME", 5.0)]:
            print("VIOLATION: spec=%r rows=%r" % (spec, got))
            return 1
        print("ok")
        return 0
    finally:
        shutil.rmtree(tmp, ignore_errors=True)

if __name__ == "__main__":
    sys.exit(main())
