"""C10 - section_engine.evaluate_variables: the variables of a views file (global, and local to a view) are evaluated one after the other, each with
the variables before it in scope, and each is stored under the name the evaluator LOOKS UP - names are case-insensitive in the language and
ExpressionEvaluator._eval_Name reads `node.id.lower()` - with its own value; a variable whose expression cannot be evaluated is left UNDEFINED (so that a filter using it cannot be evaluated either); the variables handed in
(`existing_vars`: the globals, for a view's locals) stay visible and are not modified."""
import ast

import z3

from pyvc.extract import find_function
from pyvc.interp import Interp, Spec, LoopSpec, PyRaise, Frame
from pyvc.runner import Harness
from pyvc.values import SymMap, Obj, Func, Untracked, UF, StrS, BoolS, ObjS, to_z3

SE = 'tally.section_engine.'
lower = UF('str.lower', StrS, StrS)
IsNone = UF('py.is_none', ObjS, BoolS)
SetS = z3.SetSort(StrS)


def h_evaluate_variables(ctx):
    sp = Spec()
    sp.exc_table.update({'ExpressionError': 'Exception'})
    I = Interp(ctx, sp)
    q = SE + 'evaluate_variables'
    fi = find_function(q)
    exprs = SymMap(StrS, {None: ctx.fresh('variable_exprs', z3.ArraySort(StrS, StrS))}, dom=ctx.fresh('variable_names', SetS))
    has_existing = bool(ctx.choose(2, 'existing_vars'))
    ex_arr, ex_dom = ctx.fresh('existing.values', z3.ArraySort(StrS, ObjS)), ctx.fresh('existing.names', SetS)
    existing = SymMap(StrS, {None: ex_arr}, dom=ex_dom) if has_existing else None
    if existing is not None:
        existing.may_hold_none = IsNone
    txns = Obj(ctx.fresh('transactions', ObjS), 'pylist')
    flags = {}

    def fresh_result(c):
        m = SymMap(StrS, {None: c.fresh('result.values', z3.ArraySort(StrS, ObjS))}, dom=c.fresh('result.names', SetS))
        m.may_hold_none = IsNone
        return m

    def m_dict(I_, a, k, n):
        if a and isinstance(a[0], SymMap):
            return a[0].copy()
        return SymMap(StrS, {None: z3.K(StrS, ctx.fresh('unset', ObjS))}, dom=z3.EmptySet(StrS)) if not a else Untracked()
    sp.models['dict'] = Func(m_dict)

    def m_context(I_, a, k, n):
        res = I_.frames[-1].env.get('result')
        ctx.check('C10.variables.each_variable_is_evaluated_with_the_variables_before_it_in_scope', res is not None and k.get('variables') is res, 'property')
        ctx.check('C10.variables.evaluated_over_the_merchants_own_transactions', k.get('transactions') is txns, 'property')
        if isinstance(res, SymMap):
            flags['before'] = (res.dom, res.fields[None])
        return Obj(I_.fresh('context', ObjS), 'context')
    sp.models['expr_parser.create_context'] = Func(m_context)

    def m_evaluate(I_, a, k, n):
        flags['expr'] = to_z3(a[0], StrS)
        if I_.ctx.choose(2, 'variable.cannot_be_evaluated'):
            raise PyRaise('ExpressionError', (), 'evaluate')
        flags['value'] = I_.fresh('value', ObjS)
        return Obj(flags['value'], 'pyvalue')
    sp.models['expr_parser.evaluate'] = Func(m_evaluate)

    def unfold(I_, env, k, it):
        flags.clear()
        flags['in_step'] = not (z3.is_app(k) and k.decl().kind() == z3.Z3_OP_CONST_ARRAY) and not z3.eq(k, exprs.dom)
        return []

    def inv(I_, env, k, it):
        out = {}
        res = env['result']
        if flags.get('in_step') and 'before' in flags and isinstance(res, SymMap) and flags.get('name') is not None:
            dom0, arr0 = flags['before']
            key = lower(flags['name'])
            stored = z3.Select(res.fields[None], key)
            if 'value' in flags:
                out['variable_is_stored_under_the_name_the_evaluator_looks_up'] = z3.And(res.dom == z3.SetAdd(dom0, key), stored == flags['value'])
            else:
                # "a filter that cannot be evaluated excludes the merchant": a variable whose expression cannot be evaluated is UNDEFINED afterwards (not None,
                # which would read as false and make `not v` true; not a global of the same name either), so that every filter that uses it is unevaluable
                out['a_variable_that_cannot_be_evaluated_is_left_undefined'] = res.dom == z3.SetDel(dom0, key)
            other = ctx.fresh('any_other_name', StrS)
            out['no_other_variable_changes'] = z3.Implies(other != key, z3.Select(res.fields[None], other) == z3.Select(arr0, other))
        return out
    fr = Frame(fi, {})
    for nd in ast.walk(fi.node):
        if isinstance(nd, ast.For):
            sp.loops[(q, fr.loop_ordinals[id(nd)])] = LoopSpec(inv, {'result': fresh_result}, kind='property', unfold=unfold)
    orig_assign = I.assign

    def assign(t, v, frm):
        if isinstance(t, ast.Tuple) and isinstance(v, tuple) and len(v) == 2 and z3.is_expr(v[0]) and v[0].sort() == StrS:
            flags['name'] = v[0]
        return orig_assign(t, v, frm)
    I.assign = assign
    r = I.call_function(fi, [exprs, txns], {'num_months': 12, 'existing_vars': existing, 'period_data': Untracked()})
    ctx.check('C10.variables.returns_the_dict_of_variables', isinstance(r, SymMap), 'property')
    if existing is not None:
        ctx.check('C10.variables.the_variables_handed_in_are_not_modified', z3.And(existing.dom == ex_dom, existing.fields[None] == ex_arr), 'property')
    ctx.cover('evaluate_variables.returns')


def harnesses(tier):
    return [Harness('evaluate_variables', h_evaluate_variables, [SE + 'evaluate_variables'], prune=True)]
