"""C02 - MerchantEngine._resolve_tags never yields the empty tag: "the union of the lower-cased, NON-EMPTY tags ... each {expression} tag replaced by the
value it evaluates to (dropped when empty or not evaluable)".  Loop invariant '' not in resolved, over the rule's tags and - for an expression that yields a
list - over its elements, from any state.  str.strip / str.lower are uninterpreted; the only facts used: lower-casing keeps the length, and a non-empty
text that is stripped of nothing stays non-empty is NOT assumed (the code has to test the stripped text)."""
import ast

import z3

from pyvc.extract import find_function
from pyvc.interp import Interp, Spec, LoopSpec, PyRaise, Frame
from pyvc.runner import Harness
from pyvc.values import SymSeq, SymSet, Rec, Obj, Func, Untracked, UF, StrS, IntS, BoolS, ObjS, to_z3

ME = 'tally.merchant_engine.'
strip = UF('str.strip', StrS, StrS)
lower = UF('str.lower', StrS, StrS)
PyStr = UF('py.str', ObjS, StrS)
sv = z3.StringVal
SetS = z3.SetSort(StrS)


def h_no_empty_tag(ctx):
    sp = Spec()
    sp.exc_table.update({'ExpressionError': 'Exception'})
    I = Interp(ctx, sp)
    q = ME + 'MerchantEngine._resolve_tags'
    fi = find_function(q)
    kind = ('scalar', 'list', 'fails')[ctx.choose(3, 'expression_value')]
    made = {}

    def m_eval(I_, a, k, n):
        if kind == 'fails':
            raise PyRaise('ExpressionError', (), 'evaluate_transaction')
        if kind == 'list':
            items = I_.ctx.fresh('items', z3.SeqSort(ObjS))
            return SymSeq([items], None, ['pyvalue'])
        v = I_.ctx.fresh('value', ObjS)
        I_.ctx.assume(z3.Not(UF('isinstance_list', ObjS, BoolS)(v)))          # the list case is the other alternative
        return Obj(v, 'pyvalue')
    sp.models['expr_parser.evaluate_transaction'] = Func(m_eval)
    # str(x) of a value; truthiness of a value is unknown (both outcomes explored)
    orig_to_str = I.to_str

    def to_str(x, fmt=None, conv=-1):
        if isinstance(x, Obj) and x.cls == 'pyvalue':
            return PyStr(x.expr)
        return orig_to_str(x, fmt, conv)
    I.to_str = to_str
    sp.models['str'] = Func(lambda I_, a, k, n: to_str(a[0]) if a else '')
    orig_truthy = I.truthy

    def truthy(v):
        if isinstance(v, Obj) and v.cls == 'pyvalue':
            return UF('py.truthy', ObjS, BoolS)(v.expr)
        return orig_truthy(v)
    I.truthy = truthy
    orig_str_method = I.str_method

    def str_method(z, attr, args, node):
        r = orig_str_method(z, attr, args, node)
        if attr == 'lower' and not args and z3.is_expr(r):
            ctx.assume(z3.Length(r) == z3.Length(z))          # lower-casing keeps the length (A: str.lower)
        return r
    I.str_method = str_method
    tags = ctx.fresh('rule.tags', SetS)
    rule = Rec('MerchantRule', {'tags': SymSet(tags)})

    def no_empty(I_, env, k, it):
        r = env['resolved']
        e = r.expr if isinstance(r, SymSet) and r.expr is not None else z3.EmptySet(StrS)
        return {'no_empty_tag_so_far': z3.Not(z3.IsMember(sv(''), e))}
    fr = Frame(fi, {})
    for nd in ast.walk(fi.node):
        if isinstance(nd, ast.For):
            sp.loops[(q, fr.loop_ordinals[id(nd)])] = LoopSpec(no_empty, {'resolved': lambda c: SymSet(c.fresh('resolved', SetS))}, kind='property')
    me = Rec('MerchantEngine', {})
    r = I.call_function(fi, [rule, Obj(ctx.fresh('transaction', ObjS), 'pydict'), Untracked(), Untracked()], {}, self_obj=me)
    e = r.expr if isinstance(r, SymSet) and r.expr is not None else z3.EmptySet(StrS)
    ctx.check('C02.engine_tags.never_the_empty_tag', z3.Not(z3.IsMember(sv(''), e)), 'property')
    ctx.cover('_resolve_tags.returns')


def harnesses(tier):
    return [Harness('MerchantEngine._resolve_tags.no_empty_tag', h_no_empty_tag, [ME + 'MerchantEngine._resolve_tags'], prune=True)]
