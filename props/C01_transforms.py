"""C01 - apply_transforms: one transform of the file, from ANY state of the transaction (so, by induction over the transforms of a file, all of them):
the value of the expression is stored where expressions READ the field - names are case-insensitive in the language and the evaluator looks a field up
under its lower-cased name (TransactionEvaluator._eval_Attribute), `description` being the transaction's own description - and nothing else that an
expression can read changes; a transform whose expression cannot be evaluated changes nothing.  "...whose match condition is true for that transaction
after the file's field transforms have been applied."

The transaction is a ghost record (description, the dict of custom fields: a map, None - what parse_generic_csv stores for a source without custom
captures - or absent); the `_raw_<field>` copies kept for debugging are abstract.  Expression evaluation is uninterpreted: it succeeds with some text or
raises."""
import ast

import z3

from pyvc.core import Unsupported
from pyvc.extract import find_function
from pyvc.interp import Interp, Spec, PyRaise
from pyvc.runner import Harness
from pyvc.values import SymMap, Obj, Func, Untracked, UF, StrS, BoolS, ObjS, to_z3

MU = 'tally.merchant_utils.'
sv = z3.StringVal
lower = UF('str.lower', StrS, StrS)
MapS = z3.ArraySort(StrS, StrS)


def h_apply_one_transform(ctx):
    sp = Spec()
    sp.exc_table.update({'ExpressionError': 'Exception'})
    I = Interp(ctx, sp)
    fi = find_function(MU + 'apply_transforms')
    path, expr = ctx.fresh('field_path', StrS), ctx.fresh('expression', StrS)
    # what the rules parser stores as a transform target: "field." followed by an identifier
    ctx.assume(z3.PrefixOf(sv('field.'), path))
    ctx.assume(z3.Length(path) > 6)
    d0 = ctx.fresh('description', StrS)
    variant = ('map', 'none', 'absent')[ctx.choose(3, 'custom_fields')]
    arr0, dom0 = ctx.fresh('fields', MapS), ctx.fresh('fields.keys', z3.SetSort(StrS))
    state = {'description': d0, 'field': SymMap(StrS, {None: arr0}, dom=dom0) if variant == 'map' else None, 'has_field': variant != 'absent'}

    def is_raw(k):
        return (isinstance(k, str) and k.startswith('_raw_')) or z3.is_expr(k)

    def t_contains(I_, c, item, node):
        if item == 'field':
            return state['has_field']
        if item == 'description':
            return True
        if is_raw(item):
            return I_.ctx.fresh('raw_copy_saved', BoolS)
        raise Unsupported('transaction key %r' % (item,))

    def t_get(I_, o, k, node):
        if k == 'description':
            return state['description']
        if k == 'field':
            if not state['has_field']:
                I_.raise_py('KeyError', node)
            return state['field']
        if is_raw(k):
            return Untracked()
        raise Unsupported('transaction key %r' % (k,))

    def t_set(I_, o, k, v, node):
        if k == 'description':
            state['description'] = v
        elif k == 'field':
            if isinstance(v, dict) and not v:
                v = SymMap(StrS, {None: z3.K(StrS, sv(''))}, dom=z3.EmptySet(StrS))
            elif not isinstance(v, SymMap):
                raise Unsupported('custom fields replaced by %r' % (v,))
            state['field'], state['has_field'] = v, True
        elif is_raw(k):
            pass                      # debugging copy: abstract
        else:
            raise Unsupported('transaction key %r' % (k,))
    sp.field_sorts[('contains', 'txn')] = t_contains
    sp.field_sorts[('txn', '[]')] = t_get
    sp.field_sorts[('setitem', 'txn')] = t_set

    def m_get(I_, a, k, nd):
        key, default = a[1], (a[2] if len(a) > 2 else None)
        if key == 'field' and not state['has_field']:
            return default
        if key in ('field', 'description'):
            return t_get(I_, a[0], key, nd)
        return Untracked()
    sp.models['method:Obj:txn.get'] = Func(m_get)
    # evaluation of the transform expression: succeeds with some text, or fails
    ok = {}

    def may_fail(what, value):
        def m(I_, a, k, nd):
            if I_.ctx.choose(2, what + '.raises'):
                raise PyRaise('ExpressionError', (), what)
            return value(I_)
        return Func(m)
    sp.models['expr_parser.TransactionContext.from_transaction'] = may_fail('from_transaction', lambda I_: Obj(I_.fresh('context', ObjS), 'context'))
    sp.models['expr_parser.parse_expression'] = may_fail('parse_expression', lambda I_: Obj(I_.fresh('tree', ObjS), 'tree'))
    sp.models['expr_parser.TransactionEvaluator'] = Func(lambda I_, a, k, nd: Obj(I_.fresh('evaluator', ObjS), 'evaluator'))

    def m_evaluate(I_, a, k, nd):
        if I_.ctx.choose(2, 'evaluate.raises'):
            raise PyRaise('ExpressionError', (), 'evaluate')
        ok['value'] = I_.fresh('new_value', StrS)
        return ok['value']
    sp.models['method:Obj:evaluator.evaluate'] = Func(m_evaluate)
    txn = Obj(ctx.fresh('transaction', ObjS), 'txn')
    sp.truthy_classes.add('txn')
    r = I.call_function(fi, [txn, [(path, expr)]])
    ctx.check('C01.transforms.returns_the_transaction', r is txn, 'property')
    name = lower(z3.SubString(path, 6, z3.Length(path) - 6))          # the name under which expressions read the field
    f1 = state['field']
    if 'value' not in ok:
        ctx.check('C01.transforms.failed_transform_changes_nothing', z3.And(state['description'] == d0, z3.BoolVal(variant != 'map') if not isinstance(f1, SymMap) or variant != 'map'
                                                                           else z3.And(f1.fields[None] == arr0, f1.dom == dom0)), 'property')
        ctx.cover('transform.fails')
        return
    v = ok['value']
    is_desc = name == sv('description')
    desc_ok = to_z3(state['description'], StrS) == z3.If(is_desc, v, d0)
    ctx.check('C01.transforms.description_is_the_new_value_for_its_own_transform_and_untouched_by_others', desc_ok, 'property')
    if isinstance(f1, SymMap):
        before = arr0 if variant == 'map' else z3.K(StrS, sv(''))
        dom_before = dom0 if variant == 'map' else z3.EmptySet(StrS)
        stored = z3.And(f1.fields[None] == z3.Store(before, name, v), f1.dom == z3.SetAdd(dom_before, name))
        untouched = z3.And(f1.fields[None] == before, f1.dom == dom_before)
        ctx.check('C01.transforms.value_is_stored_under_the_name_expressions_read', z3.If(is_desc, untouched, stored), 'property')
    else:
        # no dict of custom fields after the transform: only right if the transform was the description's
        ctx.check('C01.transforms.value_is_stored_under_the_name_expressions_read', is_desc, 'property')
    ctx.cover('transform.applies')


def harnesses(tier):
    return [Harness('apply_transforms.one_transform', h_apply_one_transform, [MU + 'apply_transforms'], prune=True)]
