"""C06 part 2: the accumulation loop of analyzer.analyze_transactions and its derived figures."""
import z3

from pyvc.core import Unsupported
from pyvc.extract import find_function
from pyvc.ghost import Ghost
from pyvc.interp import Interp, Spec, LoopSpec
from pyvc.runner import Harness
from pyvc.values import (SymSeq, SymSet, SymMap, Func, UF, StrS, IntS, RealS, BoolS, ObjS, Obj,
                         Untracked, to_z3, tuple_sort)

Q = 'tally.analyzer.analyze_transactions'
SeqObj = z3.SeqSort(ObjS)
SeqStr = z3.SeqSort(StrS)

# ---- the transaction record: a dict with the keys the analyzer reads (precondition = shape) ----
T_amount = UF('Txn.amount', ObjS, RealS)
T_tags = UF('Txn.tags', ObjS, SeqStr)
T_cat = UF('Txn.category', ObjS, StrS)
T_sub = UF('Txn.subcategory', ObjS, StrS)
T_merchant = UF('Txn.merchant', ObjS, StrS)
T_date = UF('Txn.date', ObjS, ObjS)
strftime_ym = UF('strftime[%Y-%m]', ObjS, StrS)
CatKey, mkCatKey, _ = tuple_sort([StrS, StrS])


def txn_getitem(I, o, k, node):
    if k == 'amount':
        return T_amount(o.expr)
    if k == 'tags':
        return SymSeq([T_tags(o.expr)])
    if k == 'category':
        return T_cat(o.expr)
    if k == 'subcategory':
        return T_sub(o.expr)
    if k == 'merchant':
        return T_merchant(o.expr)
    if k == 'date':
        return Obj(T_date(o.expr), 'datetime')
    if k in ('description', 'source', 'extra_fields', 'match_info', 'raw_description', 'location'):
        return Untracked()
    I.raise_py('KeyError', node)


def txn_get(I, args, kwargs, node):
    o, k = args[0], args[1]
    if k == 'tags':
        # a missing key and an empty list are indistinguishable for every caller (default [])
        return SymSeq([T_tags(o.expr)])
    if k in ('amount', 'category', 'subcategory', 'merchant', 'date'):
        return txn_getitem(I, o, k, node)
    return Untracked()


def dt_strftime(I, args, kwargs, node):
    o, fmt = args
    if fmt == '%Y-%m':
        return strftime_ym(o.expr)
    return Untracked()


# ---- spec functions (from the statement) -------------------------------------------------
from props.C06 import I_, V_, X_, bucket_spec, m_get_tags_lower   # noqa: E402


def eff(t):
    a = T_amount(t)
    return z3.If(z3.Or(I_(T_tags(t)), V_(T_tags(t))), z3.If(a >= 0, a, -a), a)


def contrib(t, j):
    a = T_amount(t)
    return z3.If(bucket_spec(T_tags(t), a) == j, z3.If(a >= 0, a, -a), z3.RealVal(0))


SumB = [Ghost('SumBucket%d' % j, [SeqObj], RealS,
              base=lambda s: z3.RealVal(0),
              step=(lambda j: lambda s, k, acc: acc + contrib(s[k], j))(j)) for j in range(6)]
SumEff = Ghost('SumEff', [SeqObj], RealS, base=lambda s: z3.RealVal(0), step=lambda s, k, acc: acc + eff(s[k]))

KEYS = {
    'category': (CatKey, lambda t: mkCatKey(T_cat(t), T_sub(t))),
    'merchant': (StrS, lambda t: T_merchant(t)),
    'month': (StrS, lambda t: strftime_ym(T_date(t))),
}


def _group(name, ksort, keyf):
    asort = z3.ArraySort(ksort, RealS)
    gsum = Ghost('GroupSum_' + name, [SeqObj], asort,
                 base=lambda s: z3.K(ksort, z3.RealVal(0)),
                 step=lambda s, k, acc: z3.Store(acc, keyf(s[k]), acc[keyf(s[k])] + eff(s[k])))
    gcnt = Ghost('GroupCnt_' + name, [SeqObj], asort,
                 base=lambda s: z3.K(ksort, z3.RealVal(0)),
                 step=lambda s, k, acc: z3.Store(acc, keyf(s[k]), acc[keyf(s[k])] + 1))
    gdom = Ghost('GroupDom_' + name, [SeqObj], z3.SetSort(ksort),
                 base=lambda s: z3.EmptySet(ksort),
                 step=lambda s, k, acc: z3.SetAdd(acc, keyf(s[k])))
    return gsum, gcnt, gdom


GROUPS = {n: _group(n, ks, kf) for n, (ks, kf) in KEYS.items()}
ALL_GHOSTS = SumB + [SumEff] + [g for tr in GROUPS.values() for g in tr]


def unfold_all(seq, k):
    out = []
    for g in ALL_GHOSTS:
        out.extend(g.unfold(seq, k))
    return out


TOTALS = ['income_total', 'investment_total', 'transfers_in', 'transfers_out', 'spending_total', 'credits_total']


def m_categorize_amount(I, args, kwargs, node):
    amount, tags = args
    if not isinstance(tags, SymSeq):
        raise Unsupported('categorize_amount contract: tags must be a list of str')
    a = to_z3(amount, RealS)
    want = bucket_spec(tags.cols[0], a)
    absa = z3.If(a >= 0, a, -a)
    names = ['income', 'investment', 'transfer_in', 'transfer_out', 'spending', 'credits']
    return {n: z3.If(want == j, absa, z3.RealVal(0)) for j, n in enumerate(names)}


def m_normalize_amount(I, args, kwargs, node):
    amount, tags = args
    if not isinstance(tags, SymSeq):
        raise Unsupported('normalize_amount contract: tags must be a list of str')
    a = to_z3(amount, RealS)
    return z3.If(z3.Or(I_(tags.cols[0]), V_(tags.cols[0])), z3.If(a >= 0, a, -a), a)


def m_cash_flow(I, args, kwargs, node):
    a, b, c = [to_z3(x, RealS) for x in args]
    return a - b + c


def m_transfers_net(I, args, kwargs, node):
    a, b = [to_z3(x, RealS) for x in args]
    return a - b


def fresh_map(I, name, ksort, record):
    asort = z3.ArraySort(ksort, RealS)
    if record:
        fields = {'count': I.fresh(name + '.count', asort), 'total': I.fresh(name + '.total', asort)}
    else:
        fields = {None: I.fresh(name + '.val', asort)}
    return SymMap(ksort, fields, dom=I.fresh(name + '.dom', z3.SetSort(ksort)), default=True)


def map_arrays(v, ksort, record):
    """(total, count, dom) of a map value that may still be untyped (no key seen yet)."""
    zero = z3.K(ksort, z3.RealVal(0))
    if not isinstance(v, SymMap):
        raise Unsupported('expected a defaultdict, got %r' % (v,))
    if v.ksort is None:
        return zero, zero, z3.EmptySet(ksort)
    if v.ksort != ksort:
        raise Unsupported('map key sort %s, contract says %s' % (v.ksort, ksort))
    if record:
        if 'total' not in v.fields or 'count' not in v.fields:
            raise Unsupported('map lacks total/count fields')
        return v.fields['total'], v.fields['count'], v.dom
    if None not in v.fields:
        raise Unsupported('expected scalar map')
    return v.fields[None], None, v.dom


MAPS = {'by_category': ('category', True), 'by_merchant': ('merchant', True), 'by_month': ('month', False)}


def loop0_spec():
    def inv(I, env, k, it):
        seq = it.cols[0]
        out = {}
        for j, nme in enumerate(TOTALS):
            out['total.' + nme] = to_z3(env[nme], RealS) == SumB[j](seq, k)
        for var, (g, record) in MAPS.items():
            ks = KEYS[g][0]
            tot, cnt, dom = map_arrays(env[var], ks, record)
            gsum, gcnt, gdom = GROUPS[g]
            out['%s.total' % var] = tot == gsum(seq, k)
            if record:
                out['%s.count' % var] = cnt == gcnt(seq, k)
            out['%s.dom' % var] = dom == gdom(seq, k)
        return out

    def unfold(I, env, k, it):
        return unfold_all(it.cols[0], k)
    havoc = {n: (lambda n: lambda I: I.fresh(n, RealS))(n) for n in TOTALS}
    for var, (g, record) in MAPS.items():
        havoc[var] = (lambda var, g, record: lambda I: fresh_map(I, var, KEYS[g][0], record))(var, g, record)
    return LoopSpec(inv, havoc, kind='property', unfold=unfold)       # the statement's sums and groupings, for the transactions read so far


def frame_loop_spec():
    """Loops 1 and 2 (per-merchant derived values): tracked state of by_merchant is unchanged."""
    def pre(I, env):
        return map_arrays(env['by_merchant'], StrS, True)

    def inv(I, env, P, it):
        tot, cnt, dom = map_arrays(env['by_merchant'], StrS, True)
        p = env['$pre']
        return {'by_merchant.total_unchanged': tot == p[0], 'by_merchant.count_unchanged': cnt == p[1],
                'by_merchant.dom_unchanged': dom == p[2]}
    return LoopSpec(inv, {'by_merchant': lambda I: fresh_map(I, 'by_merchant', StrS, True)}, kind='auxiliary', pre=pre)


def make_spec():
    sp = Spec()
    sp.models['categorize_amount'] = Func(m_categorize_amount, 'categorize_amount')
    sp.models['normalize_amount'] = Func(m_normalize_amount, 'normalize_amount')
    sp.models['calculate_cash_flow'] = Func(m_cash_flow, 'calculate_cash_flow')
    sp.models['calculate_transfers_net'] = Func(m_transfers_net, 'calculate_transfers_net')
    sp.models['method:Obj:Txn.get'] = Func(txn_get)
    sp.models['method:Obj:datetime.strftime'] = Func(dt_strftime)
    sp.field_sorts[('Txn', '[]')] = txn_getitem
    sp.loops[(Q, 0)] = loop0_spec()
    return sp


def h_analyze(ctx):
    sp = make_spec()
    # loop ordinals: 0 = accumulation loop; then the per-merchant loops and comprehensions
    fi = find_function(Q)
    I = Interp(ctx, sp)
    seq = ctx.fresh('transactions', SeqObj)
    txns = SymSeq([seq], None, ['Txn'])
    # ordinals of the remaining loops are looked up from the source (statement-level For only)
    import ast
    fors = [n for n in ast.walk(fi.node) if isinstance(n, ast.For)]
    fors.sort(key=lambda n: n.lineno)
    from pyvc.interp import Frame
    fr = Frame(fi, {})
    for n in fors[1:]:
        sp.loops[(Q, fr.loop_ordinals[id(n)])] = frame_loop_spec()
    # `sum(t['amount'] for t in transactions)` (the raw 'total' figure) is not part of the property
    for n in ast.walk(fi.node):
        if isinstance(n, ast.GeneratorExp) and ast.unparse(n.generators[0].iter) == 'transactions':
            sp.abstract_comprehensions.add((Q, fr.loop_ordinals[id(n)]))
    r = I.call_function(fi, [txns])
    if not isinstance(r, dict):
        raise Unsupported('analyze_transactions must return a dict display')
    n = z3.Length(seq)
    for f in unfold_all(seq, z3.IntVal(-1)):
        ctx.assume(f)

    def real(key):
        v = r.get(key)
        if v is None or isinstance(v, Untracked):
            raise Unsupported('result key %r missing or untracked' % key)
        return to_z3(v, RealS)
    for j, nme in enumerate(TOTALS):
        ctx.check('post.%s' % nme, real(nme) == SumB[j](seq, n), 'property')
    ctx.check('post.cash_flow', real('cash_flow') == SumB[0](seq, n) - SumB[4](seq, n) + SumB[5](seq, n), 'property')
    ctx.check('post.transfers_net', real('transfers_net') == SumB[2](seq, n) - SumB[3](seq, n), 'property')
    ctx.check('post.count', real('count') == z3.ToReal(n), 'property')
    for var, (g, record) in MAPS.items():
        ks = KEYS[g][0]
        tot, cnt, dom = map_arrays(r[var], ks, record)
        gsum, gcnt, gdom = GROUPS[g]
        ctx.check('post.%s.total' % var, tot == gsum(seq, n), 'property')
        if record:
            ctx.check('post.%s.count' % var, cnt == gcnt(seq, n), 'property')
        ctx.check('post.%s.keys' % var, dom == gdom(seq, n), 'property')
    asort = z3.ArraySort(StrS, RealS)
    MS = UF('MapSum[%s]' % asort, asort, RealS)
    ctx.check('post.total_transactions', real('total_transactions') == MS(GROUPS['merchant'][0](seq, n)), 'property')
    ctx.cover('analyze.exit')


def h_partition_lemma(ctx):
    """L_partition (code independent): the entries of GroupSum_g(T,k) add up to SumEff(T,k) and those
    of GroupCnt_g(T,k) to k, by induction on k with the MapSum axioms."""
    seq = ctx.fresh('T', SeqObj)
    k = ctx.fresh('k', IntS)
    which = ctx.choose(3, 'group')
    g = ['category', 'merchant', 'month'][which]
    ks, keyf = KEYS[g]
    gsum, gcnt, _ = GROUPS[g]
    asort = z3.ArraySort(ks, RealS)
    MS = UF('MapSum[%s]' % asort, asort, RealS)
    for f in unfold_all(seq, k):
        ctx.assume(f)
    # MapSum axioms (trusted base): empty map sums to 0; a point update changes the sum by the delta
    ctx.assume(MS(z3.K(ks, z3.RealVal(0))) == 0)
    key = keyf(seq[k])
    for arr, delta in ((gsum(seq, k), eff(seq[k])), (gcnt(seq, k), z3.RealVal(1))):
        ctx.assume(MS(z3.Store(arr, key, arr[key] + delta)) == MS(arr) + delta)
    ctx.check('lemma.%s.sum.base' % g, MS(gsum(seq, 0)) == SumEff(seq, 0), 'property')
    ctx.check('lemma.%s.cnt.base' % g, MS(gcnt(seq, 0)) == 0, 'property')
    ctx.assume(k >= 0)
    ctx.assume(MS(gsum(seq, k)) == SumEff(seq, k))
    ctx.assume(MS(gcnt(seq, k)) == z3.ToReal(k))
    ctx.check('lemma.%s.sum.step' % g, MS(gsum(seq, k + 1)) == SumEff(seq, k + 1), 'property')
    ctx.check('lemma.%s.cnt.step' % g, MS(gcnt(seq, k + 1)) == z3.ToReal(k + 1), 'property')


def h_swap_lemma(ctx):
    """Order independence (spec level, A1 reals): swapping two adjacent transactions leaves every sum and
    every group array unchanged two steps later."""
    s1 = ctx.fresh('T1', SeqObj)
    s2 = ctx.fresh('T2', SeqObj)
    k = ctx.fresh('k', IntS)
    ctx.assume(k >= 0)
    ctx.assume(s2[k] == s1[k + 1])
    ctx.assume(s2[k + 1] == s1[k])
    for s in (s1, s2):
        for f in unfold_all(s, k) + unfold_all(s, k + 1):
            ctx.assume(f)
    for g in ALL_GHOSTS:
        ctx.assume(g(s1, k) == g(s2, k))
    for g in ALL_GHOSTS:
        ctx.check('lemma.swap.%s' % g.name, g(s1, k + 2) == g(s2, k + 2), 'property')


def h_concat_lemma(ctx):
    """Partition independence for the flow totals: Sum over T ++ [x] continues Sum over T (so totals of a
    split list add up); stated as the step equation of the fold, which is the ghost definition itself, plus
    totals being independent of *which* prefix produced the accumulator."""
    s = ctx.fresh('T', SeqObj)
    k = ctx.fresh('k', IntS)
    ctx.assume(k >= 0)
    for f in unfold_all(s, k):
        ctx.assume(f)
    for j in range(6):
        ctx.check('lemma.fold.%d' % j, SumB[j](s, k + 1) - SumB[j](s, k) == contrib(s[k], j), 'property')
    ctx.check('lemma.fold.exactly_one_bucket',
              z3.Sum([contrib(s[k], j) for j in range(6)]) == z3.If(T_amount(s[k]) >= 0, T_amount(s[k]), -T_amount(s[k])),
              'property')


def harnesses(tier):
    return [
        Harness('analyze_transactions', h_analyze, [Q]),
        Harness('L_partition', h_partition_lemma, []),
        Harness('L_swap', h_swap_lemma, []),
        Harness('L_fold', h_concat_lemma, []),
    ]
