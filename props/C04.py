"""C04 - expressions mean what the reference says: logic, comparisons, match functions.

Per-method obligations on the real evaluator methods (structural induction: evaluate(child) is replaced by its contract Sem(child) = value or
ExpressionError):
  _eval_BoolOp (both evaluators)  and/or are Boolean, left to right, short-circuit: the result is decided by the first operand that fails to evaluate or
                                   that is falsy (and) / truthy (or); operands after it are not evaluated.  Loop invariant + stability lemma over a ghost fold.
  _eval_UnaryOp, _eval_BinOp, _eval_IfExp  not is Boolean negation; / and % by zero give 0; a ternary evaluates only the chosen branch.
  _eval_Compare (TransactionEvaluator)  a chain is the conjunction of its links, evaluated left to right; link i compares the (date-coerced) value of
                                   comparator i-1 with comparator i; string ==, != fold case and string `in` folds case; dates compare against ISO strings.
  _fn_contains / startswith / trim / uppercase / lowercase / strip_prefix / strip_suffix / substring / split  against string-theory specifications, with
                                   the documented arity errors.
Laws of the statement (double negation, De Morgan incl. errors) are lemmas over the Boolean ghost semantics.
Generators with shared scope (_generator_helper), regex / fuzzy functions and comprehension scoping are covered by the bounded stand-in only.
"""
import ast

import z3

from pyvc.core import Unsupported
from pyvc.extract import find_function
from pyvc.ghost import Ghost
from pyvc.interp import Interp, Spec, LoopSpec, PyRaise, Frame
from pyvc.runner import Harness
from pyvc.values import SymSeq, SymSet, Rec, Obj, Func, Untracked, UF, StrS, IntS, RealS, BoolS, ObjS, to_z3

LEVEL = 'proof'
MIN_OBLIGATIONS = 60
EP = 'tally.expr_parser.'
SeqObj = z3.SeqSort(ObjS)
Err = UF('Sem.raises', ObjS, BoolS)             # evaluating the child node fails as an expression error
Val = UF('Sem.value', ObjS, ObjS)               # its value otherwise
truthy = UF('truthy', ObjS, BoolS)
sv = z3.StringVal


def evaluator(ctx, cls):
    sp = Spec()
    sp.exc_table.update({'ExpressionError': 'Exception', 'UnsafeNodeError': 'ExpressionError'})
    I = Interp(ctx, sp)

    def m_eval(I_, a, k, n):
        c = to_z3(a[0])
        if I_.ctx.branch(Err(c), 'child.raises'):
            raise PyRaise('ExpressionError', (), 'evaluate(child)')
        return Obj(Val(c), 'pyvalue')
    sp.models['self.evaluate'] = Func(m_eval)
    me = Rec(cls, {'ctx': Untracked(), '_scope': Untracked()})
    return sp, I, me


def op_is(op, name):
    return UF('isinstance_' + name, ObjS, BoolS)(op)


# ------------------------------------------------------------------------------------------ BoolOp
def stop(c, is_and):
    return z3.Or(Err(c), z3.Not(truthy(Val(c))) if is_and else truthy(Val(c)))


def first_stop(is_and):
    return Ghost('FirstStop.%s' % ('and' if is_and else 'or'), [SeqObj], IntS, base=lambda s: z3.IntVal(-1),
                 step=lambda s, k, acc: z3.If(acc >= 0, acc, z3.If(stop(s[k], is_and), k, -1)))


def h_boolop(cls, is_and):
    def h(ctx):
        sp, I, me = evaluator(ctx, cls)
        q = EP + cls + '._eval_BoolOp'
        fi = find_function(q)
        FS = first_stop(is_and)
        values = ctx.fresh('node.values', SeqObj)
        op = ctx.fresh('node.op', ObjS)
        ctx.assume(op_is(op, 'And') == z3.BoolVal(is_and))
        ctx.assume(op_is(op, 'Or') == z3.BoolVal(not is_and))
        node = Rec('BoolOp', {'op': Obj(op, 'astop'), 'values': SymSeq([values], None, ['ast'])})
        n = z3.Length(values)
        fr = Frame(fi, {})

        def stable(I_, env, k, it):
            # lemma.first_stop_stable (proved below): once decided, later operands do not matter
            return [z3.Implies(FS(values, k + 1) >= 0, FS(values, n) == FS(values, k + 1))] + FS.unfold(values, k)
        for nd in ast.walk(fi.node):
            if isinstance(nd, ast.For):
                sp.loops[(q, fr.loop_ordinals[id(nd)])] = LoopSpec(lambda I_, env, k, it: {'no_operand_decided_yet': FS(it.cols[0], k) == -1}, {},
                                                                   unfold=lambda I_, env, k, it: FS.unfold(it.cols[0], k), exit_facts=stable)
        for f in FS.unfold(values, z3.IntVal(-1)):
            ctx.assume(f)
        W = FS(values, n)
        tag = '%s.%s' % (cls, 'and' if is_and else 'or')
        try:
            r = I.call_function(fi, [node], {}, self_obj=me)
        except PyRaise as e:
            ctx.check('C04.%s.raises_only_expression_error' % tag, I.is_subclass(e.cls, 'ExpressionError'), 'property')
            ctx.check('C04.%s.fails_iff_the_deciding_operand_fails' % tag, z3.And(W >= 0, Err(values[W])), 'property')
            ctx.cover('%s.raises' % tag)
            return
        ctx.check('C04.%s.result_is_boolean' % tag, isinstance(r, bool), 'property')
        if not isinstance(r, bool):
            return
        decided_value = (not is_and)      # `and` returns False at the deciding operand, `or` returns True
        if r == decided_value:
            ctx.check('C04.%s.short_circuits_at_first_deciding_operand' % tag, z3.And(W >= 0, z3.Not(Err(values[W]))), 'property')
        else:
            ctx.check('C04.%s.otherwise_all_operands_evaluated_and_none_decides' % tag, W == -1, 'property')
        ctx.cover('%s.returns' % tag)
    return h


def h_boolop_lemmas(ctx):
    """lemma.first_stop_stable (induction on m): FS(k) >= 0 and m >= k  =>  FS(m) = FS(k);  plus the declarative reading of FS and the laws."""
    is_and = bool(ctx.choose(2, 'and'))
    FS = first_stop(is_and)
    s = ctx.fresh('values', SeqObj)
    k, m = ctx.fresh('k', IntS), ctx.fresh('m', IntS)
    for f in FS.unfold(s, m) + FS.unfold(s, k):
        ctx.assume(f)
    ctx.assume(z3.And(k >= 0, m >= k))
    name = 'and' if is_and else 'or'
    ctx.check('lemma.first_stop_stable.%s.base' % name, z3.Implies(FS(s, k) >= 0, FS(s, k) == FS(s, k)), 'auxiliary')
    ctx.assume(z3.Implies(FS(s, k) >= 0, FS(s, m) == FS(s, k)))
    ctx.check('lemma.first_stop_stable.%s.step' % name, z3.Implies(FS(s, k) >= 0, FS(s, m + 1) == FS(s, k)), 'property')
    j = z3.Int('j')
    R = lambda kk: z3.And(z3.Implies(FS(s, kk) == -1, z3.ForAll([j], z3.Implies(z3.And(j >= 0, j < kk), z3.Not(stop(s[j], is_and))))),
                          z3.Implies(FS(s, kk) != -1, z3.And(FS(s, kk) >= 0, FS(s, kk) < kk, stop(s[FS(s, kk)], is_and),
                                                           z3.ForAll([j], z3.Implies(z3.And(j >= 0, j < FS(s, kk)), z3.Not(stop(s[j], is_and)))))))
    ctx.check('lemma.first_stop_is_least.%s.base' % name, R(z3.IntVal(0)), 'property')
    ctx.assume(R(m))
    ctx.check('lemma.first_stop_is_least.%s.step' % name, R(m + 1), 'property')


def h_laws(ctx):
    """Laws over the Boolean semantics of two operands a, b (each: fails, or has a truth value):
       not not a == a (as truth values, same failures);  not (a and b) == (not a) or (not b);  not (a or b) == (not a) and (not b), including which evaluation fails."""
    ea, eb = ctx.fresh('a.fails', BoolS), ctx.fresh('b.fails', BoolS)
    ta, tb = ctx.fresh('a.truth', BoolS), ctx.fresh('b.truth', BoolS)

    def AND(x, y):      # (fails, truth) of x and y with short-circuit
        (ex, tx), (ey, ty) = x, y
        return (z3.Or(ex, z3.And(tx, ey)), z3.And(tx, ty))

    def OR(x, y):
        (ex, tx), (ey, ty) = x, y
        return (z3.Or(ex, z3.And(z3.Not(tx), ey)), z3.Or(tx, ty))

    def NOT(x):
        return (x[0], z3.Not(x[1]))

    def same(x, y):
        return z3.And(x[0] == y[0], z3.Implies(z3.Not(x[0]), x[1] == y[1]))
    a, b = (ea, ta), (eb, tb)
    ctx.check('C04.law.double_negation', same(NOT(NOT(a)), a), 'property')
    ctx.check('C04.law.de_morgan_and', same(NOT(AND(a, b)), OR(NOT(a), NOT(b))), 'property')
    ctx.check('C04.law.de_morgan_or', same(NOT(OR(a, b)), AND(NOT(a), NOT(b))), 'property')
    ctx.check('C04.law.swap_error_free_and', z3.Implies(z3.And(z3.Not(ea), z3.Not(eb)), same(AND(a, b), AND(b, a))), 'property')
    ctx.check('C04.law.swap_error_free_or', z3.Implies(z3.And(z3.Not(ea), z3.Not(eb)), same(OR(a, b), OR(b, a))), 'property')


# ------------------------------------------------------------------------------------------ UnaryOp / BinOp / IfExp
PyNeg = UF('py.neg', ObjS, ObjS)
PyBin = {n: UF('py.' + n, ObjS, ObjS, ObjS) for n in ('add', 'sub', 'mul', 'div', 'mod')}
PyIsZero = UF('py.eq0', ObjS, BoolS)


def arith_models(sp, I):
    """Python operators on values of unknown type: deterministic functions of the operands (may raise TypeError: C08 converts it)"""
    def binop(op, a, b, node):
        if isinstance(a, Obj) and isinstance(b, Obj):
            name = {ast.Add: 'add', ast.Sub: 'sub', ast.Mult: 'mul', ast.Div: 'div', ast.Mod: 'mod'}.get(type(op))
            if name is None:
                raise Unsupported('operator')
            return Obj(PyBin[name](a.expr, b.expr), 'pyvalue')
        return orig_binop(op, a, b, node)
    orig_binop = I.binop
    I.binop = binop
    orig_eq = I.eq

    def eq(a, b):
        if isinstance(a, Obj) and a.cls == 'pyvalue' and b == 0:
            return PyIsZero(a.expr)
        return orig_eq(a, b)
    I.eq = eq


def h_unary(cls):
    def h(ctx):
        sp, I, me = evaluator(ctx, cls)
        operand = ctx.fresh('node.operand', ObjS)
        op = ctx.fresh('node.op', ObjS)
        which = ctx.choose(2, 'op')
        ctx.assume(op_is(op, 'Not') == z3.BoolVal(which == 0))
        ctx.assume(op_is(op, 'USub') == z3.BoolVal(which == 1))
        orig = I.ex_UnaryOp

        def ex_UnaryOp(e, fr):
            v = I.eval(e.operand, fr)
            if isinstance(e.op, ast.USub) and isinstance(v, Obj):
                return Obj(PyNeg(v.expr), 'pyvalue')
            return orig(e, fr)
        I.ex_UnaryOp = ex_UnaryOp
        node = Rec('UnaryOp', {'op': Obj(op, 'astop'), 'operand': Obj(operand, 'ast')})
        try:
            r = I.call_function(find_function(EP + cls + '._eval_UnaryOp'), [node], {}, self_obj=me)
        except PyRaise as e:
            ctx.check('C04.%s.unary.fails_iff_operand_fails' % cls, z3.And(Err(operand), z3.BoolVal(I.is_subclass(e.cls, 'ExpressionError'))), 'property')
            return
        if which == 0:
            ctx.check('C04.%s.not_is_boolean_negation' % cls, to_z3(I.truthy(r)) == z3.Not(truthy(Val(operand))), 'property')
            ctx.check('C04.%s.not_returns_bool' % cls, isinstance(r, bool) or (z3.is_expr(r) and r.sort() == BoolS), 'property')
        else:
            ctx.check('C04.%s.minus_negates_operand' % cls, isinstance(r, Obj) and z3.eq(r.expr, PyNeg(Val(operand))), 'property')
        ctx.cover('%s.unary' % cls)
    return h


def h_binop(cls):
    def h(ctx):
        sp, I, me = evaluator(ctx, cls)
        arith_models(sp, I)
        sp.field_sorts[('pyvalue', 'days')] = ('obj', 'pyvalue')
        left, right, op = ctx.fresh('node.left', ObjS), ctx.fresh('node.right', ObjS), ctx.fresh('node.op', ObjS)
        names = ['Add', 'Sub', 'Mult', 'Div', 'Mod']
        which = ctx.choose(5, 'op')
        for i, nme in enumerate(names):
            ctx.assume(op_is(op, nme) == z3.BoolVal(i == which))
        node = Rec('BinOp', {'op': Obj(op, 'astop'), 'left': Obj(left, 'ast'), 'right': Obj(right, 'ast')})
        try:
            r = I.call_function(find_function(EP + cls + '._eval_BinOp'), [node], {}, self_obj=me)
        except PyRaise as e:
            ctx.check('C04.%s.binop.fails_iff_an_operand_fails_left_first' % cls, z3.Or(Err(left), Err(right)), 'property')
            return
        L, R = Val(left), Val(right)
        key = ['add', 'sub', 'mul', 'div', 'mod'][which]
        if which >= 3:
            if isinstance(r, int) and not isinstance(r, bool):
                ctx.check('C04.%s.%s_by_zero_gives_0' % (cls, key), z3.And(PyIsZero(R), z3.BoolVal(r == 0)), 'property')
            else:
                ctx.check('C04.%s.%s_otherwise_python_operator' % (cls, key), z3.And(z3.Not(PyIsZero(R)), z3.BoolVal(isinstance(r, Obj) and z3.eq(r.expr, PyBin[key](L, R)))), 'property')
        elif key == 'sub' and cls == 'TransactionEvaluator':
            # the difference of two dates is a number of days (reference: abs(r.date - txn.date) <= 3); anything else is Python's operator
            both_dates = z3.And(UF('isinstance_date', ObjS, BoolS)(L), UF('isinstance_date', ObjS, BoolS)(R))
            want = z3.If(both_dates, UF('pyvalue.days', ObjS, ObjS)(PyBin['sub'](L, R)), PyBin['sub'](L, R))
            ctx.check('C04.%s.sub_is_days_between_dates_else_python_operator_on_left_then_right' % cls, z3.BoolVal(False) if not isinstance(r, Obj) else r.expr == want, 'property')
        else:
            ctx.check('C04.%s.%s_is_python_operator_on_left_then_right' % (cls, key), isinstance(r, Obj) and z3.eq(r.expr, PyBin[key](L, R)), 'property')
        ctx.cover('%s.binop.%s' % (cls, key))
    return h


def h_ifexp(cls):
    def h(ctx):
        sp, I, me = evaluator(ctx, cls)
        t, b, o = ctx.fresh('node.test', ObjS), ctx.fresh('node.body', ObjS), ctx.fresh('node.orelse', ObjS)
        node = Rec('IfExp', {'test': Obj(t, 'ast'), 'body': Obj(b, 'ast'), 'orelse': Obj(o, 'ast')})
        try:
            r = I.call_function(find_function(EP + cls + '._eval_IfExp'), [node], {}, self_obj=me)
        except PyRaise as e:
            chosen = z3.If(truthy(Val(t)), Err(b), Err(o))
            ctx.check('C04.%s.ifexp.fails_iff_test_or_chosen_branch_fails' % cls, z3.Or(Err(t), z3.And(z3.Not(Err(t)), chosen)), 'property')
            return
        ctx.check('C04.%s.ifexp.value_of_chosen_branch_only' % cls, isinstance(r, Obj) and to_z3(r) == z3.If(truthy(Val(t)), Val(b), Val(o)), 'property')
        ctx.cover('%s.ifexp' % cls)
    return h


def harnesses(tier):
    from props import C04_compare, C04_functions, C04_scope
    hs = []
    for cls in ('TransactionEvaluator', 'ExpressionEvaluator'):
        for is_and in (True, False):
            hs.append(Harness('%s._eval_BoolOp[%s]' % (cls, 'and' if is_and else 'or'), h_boolop(cls, is_and), [EP + cls + '._eval_BoolOp'], prune=True))
        hs.append(Harness('%s._eval_UnaryOp' % cls, h_unary(cls), [EP + cls + '._eval_UnaryOp']))
        hs.append(Harness('%s._eval_BinOp' % cls, h_binop(cls), [EP + cls + '._eval_BinOp']))
        hs.append(Harness('%s._eval_IfExp' % cls, h_ifexp(cls), [EP + cls + '._eval_IfExp']))
    hs.append(Harness('lemma.first_stop', h_boolop_lemmas, []))
    hs.append(Harness('laws', h_laws, []))
    return hs + C04_compare.harnesses(tier) + C04_functions.harnesses(tier) + C04_scope.harnesses(tier)


ORACLES = [
    {'name': 'CPython eval() differential over an exhaustive small expression grammar on shared rows; the reference tables for every documented function and deviation; '
             'the laws of the statement as metamorphic checks (double negation, De Morgan, operand swap, chains, letter case)', 'script': 'C04.py',
     'bound': '12 atoms x 9 operators pairwise, 5^3 chains x 5 operator pairs, 29 comprehension/aggregate forms, 64 operand pairs for and/or with failing operands, ~110 table rows (twice), '
              '~1/8 of 7^3 x 36 chain laws (all in thorough)'},
]
TRUSTED_BASE = ['pyvc symbolic executor', 'z3 5.1.0 / cvc5 1.0.3',
                'Python operators on values of unknown type are deterministic uninterpreted functions (py.add, py.eq, py.lt, str.lower, ...): the obligations are about which operator is applied to which operands in which order',
                'regular expressions, difflib and generators with shared scope are outside the verified text (A6): bounded stand-in only']
ASSUMPTIONS = ['evaluate(child) is replaced by its contract: a value or ExpressionError (structural induction; other exception classes are converted by the dispatcher, C08)']
EXPLANATION = ('Per-method obligations on the real _eval_* methods of both evaluators and the string functions, by symbolic execution with the recursive call replaced by its contract; Boolean laws as lemmas. '
               'Bounded stand-in (labelled): differential run against CPython eval, the reference tables and metamorphic laws on the real evaluator.')
