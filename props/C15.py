"""C15 - an interrupted or failing migration never loses rules or strands the budget.

Ghost file system (paths are atoms, contents are abstract terms) under the real text of cli._migrate_csv_to_rules and
cli.migrate_v0_to_v1: every file-system primitive produces its intermediate states (a write may leave any prefix), may be
the last thing that happens (crash) or may raise OSError (single fault).  At every such effect boundary and at every
return:   (1) no user content is lost,  (2) the budget classifies with the user's rules, or does so after re-running the same
command from that state,  (3) it never classifies with an empty rule set while the user's rules exist on disk.
effective_rules(fs) is the selection function proved for load_config (C11).
"""
import ast

import z3

from pyvc.core import Unsupported, PathEnd
from pyvc.extract import find_function
from pyvc.interp import Interp, Spec, LoopSpec, PyRaise, Frame
from pyvc.runner import Harness
from pyvc.values import SymSeq, Rec, Obj, Func, Untracked, UF, StrS, IntS, BoolS, ObjS, to_z3

LEVEL = 'proof'
MIN_OBLIGATIONS = 30
def set_config_dir(name='config'):
    """the ghost budget's config directory (`tally up <dir>` takes a directory of any name); load_config resolves merchants_file against its parent, so the
    key line that puts the migrated rules in force names <that directory>/merchants.rules"""
    global CFG, CSV, BAK, RULES, SETTINGS, TMP, KEYLINE
    CFG = '/budget/' + name
    CSV = CFG + '/merchant_categories.csv'
    BAK = CSV + '.bak'
    RULES = CFG + '/merchants.rules'
    SETTINGS = CFG + '/settings.yaml'
    TMP = SETTINGS + '.tmp'
    KEYLINE = 'merchants_file: %s/merchants.rules\n' % name


set_config_dir('config')


class Crash(Exception):
    pass


class FS:
    """files: path -> content term.  Content terms: ('csv',) the user's CSV rules; ('conv', how) the converted rules file, how in
    {'empty','partial','full'}; ('settings', key_state) with key_state in {'none','partial','full'} (user's original text is a preserved prefix
    unless 'lost'); ('other', tag)."""

    def __init__(self, had_key=False):
        self.files = {CSV: ('csv',), SETTINGS: ('settings', 'full' if had_key else 'none')}
        self.boundaries = []

    def snapshot(self, label):
        self.boundaries.append((label, dict(self.files)))


def effective_rules(files):
    """'user' = the user's rules in force, 'none' = empty rule set, 'broken' = a truncated / unparsable rules file in force"""
    st = files.get(SETTINGS)
    key = st[1] if st else 'none'
    if st is not None and key == 'full':
        c = files.get(RULES)
        if c is None:
            return 'none'
        return 'user' if c == ('conv', 'full') else 'broken'
    if st is not None and key in ('partial', 'wrong'):
        return 'none'              # a half-written key line: the setting names a file that does not exist (or the YAML is broken)
    return 'user' if files.get(CSV) == ('csv',) else 'none'


def rules_on_disk(files):
    return files.get(CSV) == ('csv',) or files.get(BAK) == ('csv',) or files.get(RULES) == ('conv', 'full')


def run_migration(ctx, files, faults, label):
    """Symbolically execute the real _migrate_csv_to_rules on the ghost file system `files`.
    faults: 'explore' = crash/fault alternatives are explored through ctx.choose; 'none' = no faults (used for the re-run)."""
    sp = Spec()
    I = Interp(ctx, sp)
    fs = FS()
    fs.files = files
    fs.observed = []
    state = {'fault_used': faults != 'explore', 'crashed': False}

    def boundary(name):
        fs.snapshot(name)
        if faults == 'explore' and ctx.choose(2, 'crash_after:' + name):
            state['crashed'] = True
            raise Crash()

    def maybe_fault(name):
        if not state['fault_used'] and ctx.choose(2, 'oserror_at:' + name):
            state['fault_used'] = True
            raise PyRaise('OSError', (), name)

    sp.globals['C'] = Untracked()
    def m_load(I_, a, k, n):
        maybe_fault('read_csv')
        r = Obj(I_.fresh('csv_rules', ObjS), 'rules') if fs.files.get(a[0]) == ('csv',) else []
        fs.observed.append(('loaded', a[0], r))
        return r

    def m_convert(I_, a, k, n):
        fs.observed.append(('converted', a[0]))
        return ('CONV',)
    sp.models['load_merchant_rules'] = Func(m_load)
    # get_all_rules(path) swallows the loader's errors: for a file the user wrote by hand it answers with rules, or with none (a typo, groundwork without
    # a rule yet) - either way the file is the user's work
    sp.models['get_all_rules'] = Func(lambda I_, a, k, n: [] if I_.ctx.choose(2, 'get_all_rules(%s).is_empty' % (a[0].split('/')[-1] if a and isinstance(a[0], str) else '?'))
                                      else [Obj(I_.fresh('rule', ObjS), 'rule')])
    sp.models['csv_to_merchants_content'] = Func(m_convert)
    sp.models['len'] = Func(lambda I_, a, k, n: Untracked())
    sp.models['os.path.join'] = Func(lambda I_, a, k, n: '/'.join(a))
    sp.models['os.path.basename'] = Func(lambda I_, a, k, n: a[0].split('/')[-1] if isinstance(a[0], str) else Untracked())
    sp.models['os.path.exists'] = Func(lambda I_, a, k, n: a[0] in fs.files)
    sp.models['os.path.abspath'] = Func(lambda I_, a, k, n: a[0] if isinstance(a[0], str) and a[0].startswith('/') else Untracked())

    class Handle:
        def __init__(self, path, mode):
            self.path, self.mode = path, mode

    def m_open(I_, a, k, n):
        path, mode = a[0], (a[1] if len(a) > 1 else k.get('mode', 'r'))
        if not isinstance(path, str):
            raise Unsupported('open of a non-constant path')
        maybe_fault('open(%s,%s)' % (path.split('/')[-1], mode))
        if mode == 'w' and path == SETTINGS:
            fs.files[path] = ('settings', 'lost')          # opening for writing truncates: the user's settings are gone until rewritten
            boundary('truncated:settings.yaml')
        elif mode == 'w':
            fs.files[path] = ('conv', 'empty') if path == RULES else ('other', 'empty')
            boundary('created:' + path.split('/')[-1])
        elif mode == 'r' and path not in fs.files:
            raise PyRaise('FileNotFoundError', (), 'open')
        return ('ctx', Obj(I_.fresh('file', ObjS), 'file:%s:%s' % (path, mode)), lambda: m_close_path(path))
    sp.models['open'] = Func(m_open)
    # what write() hands over sits in a buffer until the file is closed: until then the file on disk holds any prefix of it (the in-flight states), and
    # whatever is done to the file in between - renaming it over the settings, say - is done to that prefix
    pending = {}

    def m_close_path(path):
        if path in pending:
            fs.files[path] = pending.pop(path)
            boundary('closed:' + path.split('/')[-1])
    sp.models['method:Obj:*.close'] = Func(lambda I_, a, k, n: m_close_path(a[0].cls.split(':', 2)[1]))

    def m_write(I_, a, k, n):
        _, path, mode = a[0].cls.split(':', 2)
        data = a[1]
        maybe_fault('write(%s)' % path.split('/')[-1])
        if path == RULES and mode == 'w':
            if data != ('CONV',):
                raise Unsupported('rules file written with something other than the converted content')
            fs.files[path] = ('conv', 'partial')
            boundary('partial_write:merchants.rules')
            pending[path] = ('conv', 'full')
        elif path == SETTINGS and mode == 'a':
            is_key = isinstance(data, str) and data == KEYLINE
            cur = fs.files[path]
            if isinstance(data, str) and 'merchants_file' in data and not is_key:
                raise Unsupported('settings key line changed: %r' % data)
            if is_key:
                fs.files[path] = ('settings', 'partial')
                boundary('partial_append:settings.key_line')
                fs.files[path] = ('settings', 'full')
                boundary('appended:settings.key_line')
            else:
                boundary('appended:settings.comment')
        elif path == TMP and mode == 'w' and isinstance(data, tuple) and data[:2] == ('CONTENT+WRONGKEY', SETTINGS) and data[2] is not None and data[2][0] == 'settings':
            fs.files[path] = ('settings', 'partial')
            boundary('partial_write:settings.tmp')
            pending[path] = ('settings', 'wrong')            # names a file that does not exist: like a torn key, no rules and no fallback to the CSV
        elif path == TMP and mode == 'w' and isinstance(data, tuple) and data[:2] == ('CONTENT+KEY', SETTINGS) and data[2] is not None and data[2][0] == 'settings':
            # the whole new settings text goes into the temporary file: a torn write tears THAT file
            fs.files[path] = ('settings', 'partial')
            boundary('partial_write:settings.tmp')
            pending[path] = ('settings', 'full')
        elif path == SETTINGS and isinstance(data, tuple) and data[:2] == ('CONTENT+', SETTINGS) and data[2] is not None:
            # the old content (plus a suffix without the key) written back: a torn write leaves a prefix of it
            boundary('partial_rewrite:settings.yaml')
            fs.files[path] = data[2]
            boundary('rewritten:settings.yaml')
        elif path == SETTINGS:
            fs.files[path] = ('settings', 'lost')
            boundary('settings_overwritten')
        else:
            raise Unsupported('write to %s' % path)
        return None
    sp.models['method:Obj:*.write'] = Func(m_write)

    def m_read(I_, a, k, n):
        _, path, mode = a[0].cls.split(':', 2)
        return ('CONTENT', path, fs.files.get(path))
    sp.models['method:Obj:*.read'] = Func(m_read)

    # load_settings(config_dir, settings_file): the settings as load_config reads them. The ghost settings file has the key 'merchants_file' exactly when
    # the key line was (partly or wholly) appended - a torn key line is still a key, with a cut-off value
    def m_load_settings(I_, a, k, n):
        name = a[1] if len(a) > 1 else k.get('settings_file', 'settings.yaml')
        path = CFG + '/' + name
        if path not in fs.files:
            raise PyRaise('FileNotFoundError', (), 'load_settings')
        return ('SETTINGS_DICT', fs.files[path])
    sp.models['load_settings'] = Func(m_load_settings)

    def m_isinstance(I_, a, k, n):
        if isinstance(a[0], tuple) and a[0] and a[0][0] == 'SETTINGS_DICT':
            return True
        from pyvc.interp import _b_isinstance
        return _b_isinstance(I_, a, k, n)
    sp.models['isinstance'] = Func(m_isinstance)

    def contains_hook(I_, container, item, node):
        raise Unsupported('contains')
    # `'merchants_file:' not in content`
    orig_contains = I.contains

    def contains(container, item, node):
        if isinstance(container, tuple) and container and container[0] == 'CONTENT':
            if item == 'merchants_file:' and container[2] and container[2][0] == 'settings':
                return container[2][1] in ('partial', 'full') or bool(getattr(ctx, 'c15_text_mentions_key', False))
            raise Unsupported('content test %r' % (item,))
        return orig_contains(container, item, node)
    I.contains = contains
    # other tests on / derivations of the content read from a file: its text is abstract, so a test on it is nondeterministic (both outcomes explored)
    orig_method, orig_binop = I.method, I.binop

    def method(o, attr, args, kwargs, node):
        if isinstance(o, tuple) and o and o[0] == 'CONTENT' and attr in ('endswith', 'startswith', 'isspace'):
            return bool(ctx.choose(2, 'content.%s@%d' % (attr, getattr(node, 'lineno', 0))))
        if isinstance(o, tuple) and o and o[0] == 'SETTINGS_DICT' and attr == 'get' and args and args[0] == 'merchants_file':
            return 'config/merchants.rules' if o[1] and o[1][0] == 'settings' and o[1][1] in ('partial', 'full', 'wrong') else None
        if isinstance(o, tuple) and o and o[0] == 'CONTENT' and attr in ('rstrip', 'strip'):
            return ('CONTENT+', o[1], o[2])
        return orig_method(o, attr, args, kwargs, node)

    def binop(op, a, b, node):
        if isinstance(a, tuple) and a and a[0] in ('CONTENT', 'CONTENT+', 'CONTENT+KEY') and isinstance(b, str) and isinstance(op, ast.Add):
            if b == KEYLINE and a[0] in ('CONTENT', 'CONTENT+'):
                return ('CONTENT+KEY', a[1], a[2])            # the old settings text followed by the key line
            if b.startswith('merchants_file: ') and b.endswith('/merchants.rules\n') and a[0] in ('CONTENT', 'CONTENT+'):
                return ('CONTENT+WRONGKEY', a[1], a[2])       # a key line that names a merchants.rules somewhere else than where it was written
            if 'merchants_file' in b:
                raise Unsupported('settings key written in another form: %r' % b)
            return (a[0] if a[0] == 'CONTENT+KEY' else 'CONTENT+', a[1], a[2])
        return orig_binop(op, a, b, node)
    I.method, I.binop = method, binop

    def m_move(I_, a, k, n):
        src, dst = a
        maybe_fault('move(%s)' % src.split('/')[-1])
        if src not in fs.files:
            raise PyRaise('FileNotFoundError', (), 'move')
        fs.files[dst] = fs.files.pop(src)
        boundary('moved:%s->%s' % (src.split('/')[-1], dst.split('/')[-1]))
    sp.models['shutil.move'] = Func(m_move)

    def m_replace(I_, a, k, n):
        # os.replace: atomic rename over the destination (A9)
        src, dst = a
        maybe_fault('replace(%s)' % src.split('/')[-1])
        if src not in fs.files:
            raise PyRaise('FileNotFoundError', (), 'replace')
        fs.files[dst] = fs.files.pop(src)
        boundary('replaced:%s->%s' % (src.split('/')[-1], dst.split('/')[-1]))
    sp.models['os.replace'] = Func(m_replace)
    fi = find_function('tally.cli._migrate_csv_to_rules')
    result = None
    try:
        result = I.call_function(fi, [CSV, CFG], {'backup': True})
    except Crash:
        pass
    fs.snapshot('return:%r' % (result,) if not state['crashed'] else 'crash')
    return fs, result, state


def h_migrate(ctx):
    set_config_dir(('config', 'settings')[ctx.choose(2, 'config_dir_name')])
    had_key = False          # migration is only offered when settings.yaml has no merchants_file (load_config format 'csv')
    fs0 = FS(had_key)
    start = dict(fs0.files)
    # budgets that already have target files: a merchants.rules the user wrote by hand (not named in settings yet) and / or an older backup
    # the user's settings text may contain the characters 'merchants_file:' without setting it (a comment, a longer key name, a quoted value): a test on
    # the raw text sees them, load_config does not
    ctx.c15_text_mentions_key = bool(ctx.choose(2, 'settings_text_mentions_merchants_file_without_setting_it'))
    existing = ctx.choose(4, 'existing_targets')
    if existing in (1, 3):
        start[RULES] = ('hand_written_rules',)
    if existing in (2, 3):
        start[BAK] = ('older_backup',)
    fs, result, state = run_migration(ctx, dict(start), 'explore', 'first')
    # obligations at every effect boundary reached on this path (each boundary is a possible crash point; the last one is the exit)
    label, files = fs.boundaries[-1]
    where = label if state['crashed'] or label.startswith('return') else label
    prev = [b[0] for b in fs.boundaries[:-1]]
    point = (prev[-1] if state['crashed'] and prev else label)
    tag = ('crash_after[%s]' % point) if state['crashed'] else ('exit[%s%s]' % (label, ',after_oserror' if state['fault_used'] and result is False else ''))
    # (1) nothing lost
    kept = ('csv',) in files.values()          # in place or under a backup name
    ctx.check('C15.csv_migration.%s.user_rules_content_kept' % tag, kept, 'property')
    for content in (('hand_written_rules',), ('older_backup',)):
        if content in start.values():
            ctx.check('C15.csv_migration.%s.existing_%s_content_kept' % (tag, content[0]), content in files.values(), 'property')
    st = files.get(SETTINGS)
    ctx.check('C15.csv_migration.%s.settings_content_kept' % tag, st is not None and st[1] != 'lost', 'property')
    # (2) still classifies with the user's rules, or does after re-running the same command
    eff = effective_rules(files)
    ok_now = eff == 'user'
    ok_rerun = False
    if not ok_now:
        files2 = dict(files)
        st2 = files2.get(SETTINGS)
        # re-run of `tally up --migrate`: load_config selects; migration runs again only if the legacy CSV is what is selected
        if (st2 is None or st2[1] == 'none') and files2.get(CSV) == ('csv',):
            fs2, r2, _ = run_migration(ctx, files2, 'none', 'rerun')
            ok_rerun = effective_rules(fs2.files) == 'user'
        else:
            ok_rerun = effective_rules(files2) == 'user'
    ctx.check('C15.csv_migration.%s.classifies_with_user_rules_now_or_after_rerun' % tag, ok_now or ok_rerun, 'property',
              meta={'effective_rules': eff, 'files': {k.split('/')[-1]: v for k, v in files.items()}})
    # "at no point": re-running the command from ANY interrupted state in which it is offered again (the legacy CSV is still what is selected)
    # must itself end classifying with the user's rules - also when the interrupted state was still fine
    if ok_now and (state['crashed'] or result is False):
        st2 = files.get(SETTINGS)
        if (st2 is None or st2[1] == 'none') and files.get(CSV) == ('csv',):
            fs3, r3, _ = run_migration(ctx, dict(files), 'none', 'rerun')
            ctx.check('C15.csv_migration.%s.rerun_from_a_still_working_state_keeps_user_rules' % tag, effective_rules(fs3.files) == 'user', 'property',
                      meta={'files_before_rerun': {k.split('/')[-1]: v for k, v in files.items()}, 'files_after': {k.split('/')[-1]: v for k, v in fs3.files.items()}})
    # (3) never an empty rule set while the rules exist on disk
    ctx.check('C15.csv_migration.%s.not_empty_while_rules_exist' % tag, not (eff in ('none', 'broken') and rules_on_disk(files)) or ok_now, 'property',
              meta={'effective_rules': eff, 'files': {k.split('/')[-1]: v for k, v in files.items()}})
    ctx.cover('csv_migration.' + ('crash' if state['crashed'] else 'exit'))


def harnesses(tier):
    from props import C15_layout
    return [Harness('_migrate_csv_to_rules', h_migrate, ['tally.cli._migrate_csv_to_rules'])] + C15_layout.harnesses(tier)


ORACLES = [
    {'name': 'the real migration functions on real temporary directories with builtins.open / shutil.move / os.makedirs patched to stop (crash) or raise OSError '
             'at the k-th file-system primitive; after each, content hashes and the classification of probe transactions (now and after a re-run) are compared', 'script': 'C15.py',
     'bound': 'every primitive index x {crash, OSError} for _migrate_csv_to_rules (via tally up --migrate and tally init) and migrate_v0_to_v1; budgets with existing target files; 5 settings texts x 3 settings-file arrangements through the whole command; layout migration into an existing ./tally'},
]
TRUSTED_BASE = ['pyvc symbolic executor', 'ghost file system (A9): paths are atoms, rename within a directory is atomic, a crash can leave any prefix of a write, single fault',
                'effective_rules(fs) mirrors load_config\'s selection (proved in C11) and get_all_rules (a broken .rules file counts as not classifying with the user\'s rules)',
                'the converted rules file is semantically the CSV (C14)']
ASSUMPTIONS = ['A9', 'what write() hands over reaches the file at the latest when the file is closed (with-block exit or close()); until then the file holds any prefix of it',
               'get_all_rules(path) inside the migration answers with rules or with none, whatever the file holds', 'single crash or single I/O fault per run', 'settings.yaml initially has no merchants_file key (the state in which migration is offered)']
EXPLANATION = ('Every effect boundary (crash point) and every single-fault exit of the real migration functions is enumerated by symbolic execution over a ghost file system and checked against '
               'content preservation and effective-rules obligations; bounded stand-in (labelled): fault injection on real directories.')
