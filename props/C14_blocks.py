"""C14 - csv_to_merchants_content writes exactly one rule block per CSV row that classifies anything, in file order, nothing else skipped, merged or
reordered (loop invariant over a ghost fold of blocks; the block of a row is the documented layout: [merchant], match:, category:, subcategory:, optional
tags:, blank).  A row with neither category nor tags - which never classified anything under the CSV rules - is written as one comment line."""
import ast

import z3

from pyvc.extract import find_function
from pyvc.ghost import Ghost
from pyvc.interp import Interp, Spec, LoopSpec, Frame
from pyvc.runner import Harness
from pyvc.values import SymSeq, Func, UF, StrS, IntS, BoolS, ObjS, to_z3

ME = 'tally.merchant_engine.'
SS = z3.SeqSort(StrS)
sv = z3.StringVal
RegexCall = UF('_regex_call', StrS, StrS)
PatternCondition = UF('_pattern_condition', StrS, StrS)      # the match condition written for a pattern cell (contract: h_pattern_condition)
IsExpr = UF('_is_expression_pattern', StrS, BoolS)
ModExpr = UF('_modifier_to_expr', ObjS, StrS)
truthy = UF('truthy', ObjS, BoolS)
Join = UF('str.join', StrS, SS, StrS)
strip = UF('str.strip', StrS, StrS)


def unit(s):
    return z3.Unit(s)


def block(cols, k):
    pattern, merchant, category, subcategory, parsed, source, tags = [c[k] for c in cols]
    has_p = z3.Length(pattern) > 0
    mod = z3.If(truthy(parsed), ModExpr(parsed), sv(''))
    use_mod = z3.And(z3.Length(mod) > 0, z3.Not(z3.PrefixOf(sv('#'), mod)))
    rc = PatternCondition(pattern)
    match = z3.If(z3.And(has_p, use_mod), z3.Concat(rc, sv(' and '), mod), z3.If(has_p, rc, z3.If(use_mod, mod, sv('true'))))
    # a rule needs a name: a row without merchant name is named after its pattern
    name = z3.If(z3.Length(strip(merchant)) == 0, pattern, merchant)
    head = z3.Concat(unit(z3.Concat(sv('['), name, sv(']'))), unit(z3.Concat(sv('match: '), match)), unit(z3.Concat(sv('category: '), category)),
                     unit(z3.Concat(sv('subcategory: '), subcategory)))
    tagline = z3.If(z3.Length(tags) > 0, unit(z3.Concat(sv('tags: '), Join(sv(', '), tags))), z3.Empty(SS))
    # a row without category and without tags classifies nothing (and the .rules reader rejects such a rule, and with it the whole file): it is written
    # as a comment line, never as a rule block
    noop = z3.And(z3.Length(strip(category)) == 0, z3.Length(tags) == 0)
    return z3.If(noop, z3.Concat(unit(z3.Concat(sv('# Skipped (no category or tags): '), pattern)), unit(sv(''))), z3.Concat(head, tagline, unit(sv(''))))


def h_blocks(ctx):
    sp = Spec()
    I = Interp(ctx, sp)
    q = ME + 'csv_to_merchants_content'
    fi = find_function(q)
    sorts = [SS, SS, SS, SS, z3.SeqSort(ObjS), SS, z3.SeqSort(SS)]
    names = ['pattern', 'merchant', 'category', 'subcategory', 'parsed', 'source', 'tags']
    cols = [ctx.fresh('rows.' + n, s) for n, s in zip(names, sorts)]
    n = z3.Length(cols[0])
    for c in cols[1:]:
        ctx.assume(z3.Length(c) == n)
    ctx.assume(strip(sv('')) == sv(''))          # definitional fact of str.strip (the code strips a concrete '' where the spec strips the row's cell)
    rules = SymSeq(cols, 7, [None, None, None, None, 'ParsedPattern', None, None])
    sp.models['_regex_call'] = Func(lambda I_, a, k, nd: RegexCall(to_z3(a[0], StrS)))
    sp.models['_pattern_condition'] = Func(lambda I_, a, k, nd: PatternCondition(to_z3(a[0], StrS)))
    sp.models['_modifier_to_expr'] = Func(lambda I_, a, k, nd: ModExpr(to_z3(a[0])))
    B = Ghost('Blocks', sorts, SS, base=lambda *c: z3.Empty(SS), step=lambda *a: z3.Concat(a[-1], block(a[:7], a[7])))
    header = {}

    def as_seq(v):
        if isinstance(v, list):
            out = z3.Empty(SS)
            for x in v:
                out = z3.Concat(out, unit(to_z3(x, StrS)))
            return out
        return v.cols[0]

    def pre(I_, env):
        header['seq'] = as_seq(env['lines'])
        return None

    def inv(I_, env, k, it):
        return {'lines_are_header_then_one_block_per_row_so_far': as_seq(env['lines']) == z3.Concat(header['seq'], B(*cols, k))}
    fr = Frame(fi, {})
    for nd in ast.walk(fi.node):
        if isinstance(nd, ast.For):
            sp.loops[(q, fr.loop_ordinals[id(nd)])] = LoopSpec(inv, {'lines': lambda c: SymSeq([c.fresh('lines_k', SS)])}, kind='property',
                                                               unfold=lambda I_, env, k, it: B.unfold(*cols, k), pre=pre)
    r = I.call_function(fi, [rules])
    ctx.check('C14.migrated_file_is_header_then_one_block_per_csv_row_in_order',
              z3.is_expr(r) and to_z3(r, StrS) == Join(sv('\n'), z3.Concat(header['seq'], B(*cols, n))), 'property')
    ctx.check('C14.migrated_file_header_has_no_rule', isinstance(header.get('seq'), z3.ExprRef) and
              not any(str(x).startswith('"[') for x in header['seq'].children()) if header.get('seq') is not None else False, 'auxiliary')
    ctx.cover('csv_to_merchants_content.returns')


def h_pattern_condition(ctx):
    """_pattern_condition(pattern): a pattern that the CSV path evaluates as an expression (the very predicate _is_expression_pattern the tuple loop asks) is
    written as that expression, in parentheses; any other pattern is a regular expression and is written regex("...")"""
    sp = Spec()
    I = Interp(ctx, sp)
    sp.models['_regex_call'] = Func(lambda I_, a, k, nd: RegexCall(to_z3(a[0], StrS)))
    sp.models['tally.merchant_utils._is_expression_pattern'] = Func(lambda I_, a, k, nd: IsExpr(to_z3(a[0], StrS)))
    sp.models['_is_expression_pattern'] = sp.models['tally.merchant_utils._is_expression_pattern']
    p = ctx.fresh('pattern', StrS)
    r = I.call_function(find_function(ME + '_pattern_condition'), [p])
    ctx.check('C14.pattern_cell.expression_patterns_stay_expressions_others_become_regex', to_z3(r, StrS) == z3.If(IsExpr(p), z3.Concat(sv('('), p, sv(')')), RegexCall(p)), 'property')
    ctx.cover('_pattern_condition.returns')


def harnesses(tier):
    return [Harness('csv_to_merchants_content', h_blocks, [ME + 'csv_to_merchants_content'])]


def h_migration_converts_what_it_loaded(ctx):
    """the migration entry point converts exactly the rules it loaded from the CSV file: the list handed to csv_to_merchants_content is the value
    load_merchant_rules returned (not a filtered, de-duplicated or re-ordered derivative), and it is loaded from the file being migrated"""
    from props import C15
    C15.set_config_dir('config')
    fs, result, state = C15.run_migration(ctx, dict(C15.FS(False).files), 'none', 'wiring')
    loaded = [o for o in fs.observed if o[0] == 'loaded']
    conv = [o for o in fs.observed if o[0] == 'converted']
    ctx.check('C14.migration.loads_the_csv_being_migrated', len(loaded) == 1 and loaded[0][1] == C15.CSV, 'property')
    ctx.check('C14.migration.converts_exactly_the_loaded_rules', len(conv) == 1 and len(loaded) == 1 and conv[0][1] is loaded[0][2], 'property')
    ctx.cover('migration.wiring')


def harnesses(tier):       # noqa: F811
    return [Harness('csv_to_merchants_content', h_blocks, [ME + 'csv_to_merchants_content']),
            Harness('_pattern_condition', h_pattern_condition, [ME + '_pattern_condition']),
            Harness('_migrate_csv_to_rules.wiring', h_migration_converts_what_it_loaded, ['tally.cli._migrate_csv_to_rules'])]
