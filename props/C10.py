"""C10 - a merchant appears in a view exactly when the view's filter is true of it.

  * evaluate_section_filter (proof): returns truthy(value of the filter over the merchant's own payments and the variables
    globals + the view's locals), False when the filter cannot be evaluated, and raises nothing.
  * classify_merchants (proof, call-site clauses on the real nested loops): for every merchant and every view the filter is asked
    exactly once with that merchant's transactions and that merchant's global variables, and the merchant is appended to exactly
    that view's list exactly when the answer is true - no break, no cross-view state.
  * frames (syntactic): evaluate_section_filter / evaluate_variables / classify_merchants / classify_by_sections write nothing
    reachable from the configuration, the global variables or the merchant groups.
  * compute_section_totals (proof): total = sum of the members' totals.
The documented primitives (months, total, cv, by(), aggregates) are checked by the bounded stand-in.
"""
import ast

import z3

from pyvc import frames
from pyvc.core import Unsupported
from pyvc.extract import find_function
from pyvc.interp import Interp, Spec, LoopSpec, PyRaise, Frame
from pyvc.runner import Harness
from pyvc.values import SymSeq, SymMap, Rec, Obj, Func, Untracked, UF, StrS, IntS, RealS, BoolS, ObjS, to_z3

LEVEL = 'proof'
MIN_OBLIGATIONS = 25
SE = 'tally.section_engine.'
AN = 'tally.analyzer.'
EvalErr = UF('evaluate.raises', ObjS, ObjS, BoolS)          # (filter, context)
EvalVal = UF('evaluate.value', ObjS, ObjS, ObjS)
Ctx = UF('create_context', ObjS, ObjS, ObjS, ObjS, ObjS)     # (transactions, num_months, variables, period_data)
LocalVars = UF('evaluate_variables', ObjS, ObjS, ObjS, ObjS, ObjS, ObjS)
Merged = UF('dict.update', ObjS, ObjS, ObjS)
DictOf = UF('dict', ObjS, ObjS)
truthy = UF('truthy', ObjS, BoolS)


def h_section_filter(ctx):
    sp = Spec()
    sp.exc_table.update({'ExpressionError': 'Exception', 'UnsafeNodeError': 'ExpressionError'})
    I = Interp(ctx, sp)
    txns, nm, gv, pd = [Obj(ctx.fresh(n, ObjS)) for n in ('transactions', 'num_months', 'global_vars', 'period_data')]
    gv.cls = 'vars_nonempty'      # the caller always passes the evaluated globals (a non-empty dict when globals exist)
    has_locals = bool(ctx.choose(2, 'section_has_variables'))
    has_ast = bool(ctx.choose(2, 'has_filter_ast'))
    fast = Obj(ctx.fresh('filter_ast', ObjS), 'tree')
    sp.truthy_classes.add('tree')
    fexpr = Obj(ctx.fresh('filter_expr', ObjS))
    svars = Obj(ctx.fresh('section_variables', ObjS), 'nonempty') if has_locals else {}
    sp.truthy_classes.add('nonempty')
    section = Rec('Section', {'variables': svars, 'filter_ast': fast if has_ast else None, 'filter_expr': fexpr, 'name': Untracked()})
    state = {}

    def m_dict(I_, a, k, n):
        return Obj(DictOf(to_z3(a[0])), 'vars')

    def m_evalvars(I_, a, k, n):
        return Obj(LocalVars(*[to_z3(x) for x in a[:5]]), 'vars')

    def m_update(I_, a, k, n):
        state['vars'] = Merged(to_z3(a[0]), to_z3(a[1]))
        return None

    def m_ctx(I_, a, k, n):
        v = k.get('variables')
        cur = state.get('vars', to_z3(v))
        return Obj(Ctx(to_z3(k.get('transactions')), to_z3(k.get('num_months')), cur, to_z3(k.get('period_data'))))

    def m_eval(I_, a, k, n):
        f, c = to_z3(a[0]), to_z3(a[1])
        if I_.ctx.branch(EvalErr(f, c), 'evaluate.raises'):
            raise PyRaise('ExpressionError', (), 'evaluate')
        return Obj(EvalVal(f, c))
    sp.models['dict'] = Func(m_dict)
    sp.models['evaluate_variables'] = Func(m_evalvars)
    sp.models['method:Obj:vars.update'] = Func(m_update)
    sp.models['expr_parser.create_context'] = Func(m_ctx)
    sp.models['expr_parser.evaluate_ast'] = Func(m_eval)
    sp.models['expr_parser.evaluate'] = Func(m_eval)
    sp.truthy_classes.add('vars_nonempty')
    fi = find_function(SE + 'evaluate_section_filter')
    # global_vars given (the caller always passes the evaluated globals)
    try:
        r = I.call_function(fi, [section, txns, nm, gv, pd])
    except PyRaise as e:
        ctx.check('C10.section_filter.raises_nothing', False, 'property', meta={'escaping': e.cls})
        return
    base = DictOf(gv.expr)
    # the variables a view's filter sees: what evaluate_variables returns for the view's own variables on top of the globals (its contract, props/C10_variables.py:
    # the globals, plus each local under its looked-up name, minus any local that could not be evaluated), or just the globals
    variables = LocalVars(svars.expr, txns.expr, nm.expr, base, pd.expr) if has_locals else base
    c = Ctx(txns.expr, nm.expr, variables, pd.expr)
    f = fast.expr if has_ast else fexpr.expr
    want = z3.And(z3.Not(EvalErr(f, c)), truthy(EvalVal(f, c)))
    ctx.check('C10.section_filter.is_truth_of_filter_over_own_payments_and_variables', to_z3(I.truthy(r)) == want, 'property')
    ctx.check('C10.section_filter.returns_bool', isinstance(r, bool) or (z3.is_expr(r) and r.sort() == BoolS), 'property')
    ctx.cover('evaluate_section_filter.returns')


def h_classify_merchants(ctx):
    """call-site clauses on the real nested loops (loop state abstracted; one arbitrary merchant x one arbitrary view)"""
    sp = Spec()
    sp.exc_table.update({'ExpressionError': 'Exception'})
    I = Interp(ctx, sp)
    fi = find_function(SE + 'classify_merchants')
    fr = Frame(fi, {})
    sections = ctx.fresh('sections', z3.SeqSort(ObjS))
    groups = ctx.fresh('merchant_groups', z3.SeqSort(ObjS))
    gvars_expr = Obj(ctx.fresh('config.global_variables', ObjS))
    config = Rec('SectionConfig', {'sections': SymSeq([sections], None, ['SectionT']), 'global_variables': gvars_expr})
    sp.field_sorts[('SectionT', 'name')] = StrS
    nm, pd = Obj(ctx.fresh('num_months', ObjS)), Obj(ctx.fresh('period_data', ObjS))
    log = {'filter_calls': [], 'appends': [], 'evalvars': []}
    TxOf = UF('merchant.transactions', ObjS, ObjS)
    GV = UF('evaluate_variables.globals', ObjS, ObjS, ObjS, ObjS, ObjS)
    VF = UF('evaluate_section_filter', ObjS, ObjS, ObjS, ObjS, ObjS, BoolS)

    def m_get(I_, a, k, n):
        if a[1] == 'transactions':
            return Obj(TxOf(to_z3(a[0])))
        raise Unsupported('merchant.get(%r)' % (a[1],))
    sp.models['method:Obj:MerchantT.get'] = Func(m_get)

    def m_evalvars(I_, a, k, n):
        log['evalvars'].append((a, k))
        return Obj(GV(to_z3(a[0]), to_z3(a[1]), to_z3(a[2]), to_z3(k.get('period_data', a[4] if len(a) > 4 else None))))
    sp.models['evaluate_variables'] = Func(m_evalvars)

    def m_filter(I_, a, k, n):
        log['filter_calls'].append(a)
        return VF(*[to_z3(x) for x in a[:5]])
    sp.models['evaluate_section_filter'] = Func(m_filter)

    class ResultMap:
        pass
    sp.field_sorts[('resultmap', '[]')] = lambda I_, o, key, node: Obj(UF('result[]', StrS, ObjS)(to_z3(key, StrS)), 'viewlist')

    def m_append(I_, a, k, n):
        log['appends'].append((a[0].expr.arg(0), a[1]))
        return None
    sp.models['method:Obj:viewlist.append'] = Func(m_append)
    for nd in ast.walk(fi.node):
        if isinstance(nd, ast.DictComp):
            sp.abstract_comprehensions.add((fi.qualname, fr.loop_ordinals[id(nd)]))
    fors = sorted([n for n in ast.walk(fi.node) if isinstance(n, ast.For)], key=lambda n: n.lineno)
    result_obj = lambda I_: Obj(I_.fresh('result', ObjS), 'resultmap')
    for nd in fors:
        sp.loops[(fi.qualname, fr.loop_ordinals[id(nd)])] = LoopSpec(lambda I_, env, k, it: {}, {'result': result_obj})
    # run: the engine executes one arbitrary outer iteration containing one arbitrary inner iteration (then PathEnd)
    marker = {}
    orig_cover = ctx.cover

    def at_path_end():
        pass
    try:
        I.call_function(fi, [config, SymSeq([groups], None, ['MerchantT'])], {'num_months': nm, 'period_data': pd})
    finally:
        # obligations for the iteration that was executed on this path (if any)
        fc, ap, ev = log['filter_calls'], log['appends'], log['evalvars']
        if ev:
            a, k = ev[0]
            ctx.check('C10.classify.globals_evaluated_from_config_over_own_transactions',
                      z3.And(to_z3(a[0]) == gvars_expr.expr, to_z3(a[2]) == nm.expr), 'property')
            ctx.check('C10.classify.globals_not_seeded_from_another_merchant', len(a) < 4 and 'existing_vars' not in k, 'property')
        if fc:
            a = fc[0]
            merchant_txns = to_z3(a[1])
            ctx.check('C10.classify.filter_asked_once_per_merchant_and_view', len(fc) == 1, 'property')
            ctx.check('C10.classify.filter_sees_this_merchants_transactions', z3.And(*[merchant_txns == to_z3(e[0][1]) for e in ev]) if ev else False, 'property')
            ctx.check('C10.classify.filter_sees_this_merchants_globals',
                      to_z3(a[3]) == GV(gvars_expr.expr, merchant_txns, nm.expr, pd.expr), 'property')
            ctx.check('C10.classify.filter_gets_num_months_and_period', z3.And(to_z3(a[2]) == nm.expr, to_z3(a[4]) == pd.expr), 'property')
            sec = to_z3(a[0])
            decided = VF(*[to_z3(x) for x in a[:5]])
            name = UF('SectionT.name', ObjS, StrS)(sec)
            # appended to exactly this view's list exactly when the filter is true
            ctx.check('C10.classify.listed_iff_filter_true', z3.If(decided, z3.BoolVal(len(ap) == 1), z3.BoolVal(len(ap) == 0)), 'property')
            if ap:
                ctx.check('C10.classify.listed_in_this_view_only', ap[0][0] == name, 'property')
                ctx.check('C10.classify.the_merchant_itself_is_listed', isinstance(ap[0][1], Obj) and ap[0][1].cls == 'MerchantT', 'property')
            ctx.cover('classify_merchants.inner_iteration')


def h_section_totals(ctx):
    sp = Spec()
    I = Interp(ctx, sp)
    fi = find_function(AN + 'compute_section_totals')
    # members: two concrete positions with symbolic totals (sum over a list display is a fold the engine unrolls)
    n = 1 + ctx.choose(3, 'members')
    members = []
    tots = []
    for i in range(n):
        t = ctx.fresh('total%d' % i, RealS)
        mv = ctx.fresh('monthly%d' % i, RealS)
        tots.append(t)
        members.append(('M%d' % i, {'total': t, 'monthly_value': mv}))
    r = I.call_function(fi, [members])
    ctx.check('C10.view_total_is_sum_of_member_totals', to_z3(r['total'], RealS) == z3.Sum(tots), 'property')
    ctx.check('C10.view_count_is_number_of_members', r['count'] == n, 'property')
    ctx.cover('compute_section_totals')


def harnesses(tier):
    return [
        Harness('evaluate_section_filter', h_section_filter, [SE + 'evaluate_section_filter']),
        Harness('classify_merchants', h_classify_merchants, [SE + 'classify_merchants']),
        Harness('compute_section_totals', h_section_totals, [AN + 'compute_section_totals']),
    ] + __import__('props.C10_variables', fromlist=['harnesses']).harnesses(tier) + _filter_language(tier)


def _filter_language(tier):
    """"filter is true over that merchant's own payments": the comparison chains of the view evaluator under the contract C04 states for both evaluators
    (a chain a <= x <= b is the conjunction of its links, each link compares two ADJACENT operands)"""
    from props import C04_compare
    return [h for h in C04_compare.harnesses(tier) if h.name == 'ExpressionEvaluator._eval_Compare']


def _format_table(fi, arg):
    """the string values of the constant dict a strftime format is looked up in - `fmt = TABLE.get(field)` / `TABLE[field]` with TABLE a dict display of
    string constants at class or module level - or None"""
    if not isinstance(arg, ast.Name):
        return None
    srcs = [st.value for st in ast.walk(fi.node) if isinstance(st, ast.Assign) and any(isinstance(t, ast.Name) and t.id == arg.id for t in st.targets)]
    if len(srcs) != 1:
        return None
    e = srcs[0]
    if isinstance(e, ast.Call) and isinstance(e.func, ast.Attribute) and e.func.attr == 'get':
        tbl = e.func.value
    elif isinstance(e, ast.Subscript):
        tbl = e.value
    else:
        return None
    name = tbl.attr if isinstance(tbl, ast.Attribute) else (tbl.id if isinstance(tbl, ast.Name) else None)
    bodies = [fi.mod.tree.body] + [c.body for c in fi.mod.classes.values()]
    for body in bodies:
        for st in body:
            tgt = st.targets[0] if isinstance(st, ast.Assign) and len(st.targets) == 1 else (st.target if isinstance(st, ast.AnnAssign) else None)
            if isinstance(tgt, ast.Name) and tgt.id == name and isinstance(getattr(st, 'value', None), ast.Dict):
                vals = st.value.values
                if all(isinstance(v, ast.Constant) and isinstance(v.value, str) for v in vals):
                    return {v.value for v in vals}
    return None


def structural(tier, res):
    out = []
    fresh = {'evaluate_variables', 'evaluate_section_filter', 'create_context', 'evaluate', 'evaluate_ast', 'classify_merchants',
             'is_excluded_from_spending', 'strptime', 'Section', 'SectionConfig'}
    for q, allowed in ((SE + 'evaluate_variables', []), (SE + 'evaluate_section_filter', []), (SE + 'classify_merchants', []),
                       (AN + 'classify_by_sections', []), (AN + 'compute_section_totals', [])):
        fi = find_function(q)
        res.functions[q] = fi.describe()
        out.extend(frames.check_assigns(fi, set(allowed), fresh))
    # classify_merchants: no break / early return inside the view loop (views are independent)
    fi = find_function(SE + 'classify_merchants')
    bad = [n for n in ast.walk(fi.node) if isinstance(n, (ast.Break, ast.Continue))]
    rets = [n for n in ast.walk(fi.node) if isinstance(n, ast.Return)]
    out.append(frames.Clause(fi.qualname + '#no_early_exit_from_view_loop', not bad and len(rets) == 1,
                             'single return after both loops, no break/continue' if not bad and len(rets) == 1 else 'early exits present', kind='auxiliary'))
    # the month of a payment is its year-month in every primitive that buckets by month (months, cv, by("month")): one key expression
    EPQ = 'tally.expr_parser.ExpressionContext.'
    for fn, want in (('get_months', {'%Y-%m'}), ('get_cv', {'%Y-%m'}), ('get_by', {'%Y-%m', '%Y', '%Y-%m-%d', '%Y-W%W'})):
        fi = find_function(EPQ + fn)
        res.functions[EPQ + fn] = fi.describe()
        fmts, other = set(), []
        for n in ast.walk(fi.node):
            if isinstance(n, ast.Call) and isinstance(n.func, ast.Attribute) and n.func.attr == 'strftime':
                ok = len(n.args) == 1 and isinstance(n.args[0], ast.Constant) and ast.unparse(n.func.value) == "t['date']"
                if ok:
                    fmts.add(n.args[0].value)
                    continue
                table = _format_table(fi, n.args[0]) if len(n.args) == 1 and ast.unparse(n.func.value) == "t['date']" else None
                if table is not None:
                    fmts |= table            # the format is looked up in a constant table of the class / module: its values are the formats
                else:
                    other.append(ast.unparse(n))
        # every dict / set key in the function is such a strftime value (no second notion of "month", e.g. date.month)
        keys = [ast.unparse(n) for n in ast.walk(fi.node) if isinstance(n, ast.Attribute) and n.attr in ('month', 'year', 'day') and ast.unparse(n.value) == "t['date']"]
        good = fmts == want and not other and not keys
        out.append(frames.Clause(EPQ + fn + '#buckets_by_year_month_text', good,
                                 'bucket keys are t[date].strftime(%s)' % sorted(fmts) if good else 'bucket keys: strftime formats %s, other %s, date parts %s' % (sorted(fmts), other, keys),
                                 kind='auxiliary'))
    return out


ORACLES = [
    {'name': 'view membership, totals and independence on the real analyzer + section engine against an independent specification of the documented primitives',
     'script': 'C10.py', 'bound': '20 transactions of 11 merchants (one spanning two years), 31 filters incl. view-local variables shadowing primitives: each alone, ordered pairs (all in thorough, 1/6 in quick; views with locals against every other view always), all together in both orders'},
]
TRUSTED_BASE = ['pyvc symbolic executor and frame checker', 'z3 5.1.0 / cvc5 1.0.3',
                'expr_parser.evaluate / evaluate_ast raise at most ExpressionError (C08) and are deterministic functions of (filter, context)']
ASSUMPTIONS = ['view names are distinct (parse_sections does not enforce it): recorded assumption',
               'the documented primitives (months, total, cv, by, aggregates) are checked by the bounded stand-in only']
EXPLANATION = ('evaluate_section_filter and the call sites of classify_merchants proved by symbolic execution (z3); frames syntactically; bounded stand-in (labelled): '
               'membership/totals/independence against an independent specification of the primitives.')
