"""C04 - names, scopes and date components of the transaction evaluator.

  _eval_Name            resolution order of the statement: loop/walrus scope, then user variables, then the transaction primitives, then supplemental
                        data sources, else ExpressionError; the name is lower-cased first.
  _eval_NamedExpr       x := v binds the lower-cased name in the evaluator's scope to v and yields v; nothing else changes.
  _eval_comprehension_loop   scope discipline of (nested) comprehension loops: on return the scope is what it was on entry (every loop variable restored or
                        removed, for items that pass the conditions and for items that do not), the loop variable is bound to the item while the
                        conditions and the inner loops are evaluated; loop invariant over the items of the iterable.  evaluate(child) and the recursive
                        call are replaced by their contracts (structural induction): they leave the scope as they found it.
  TransactionContext.__init__   month / year / day / weekday are those of the date, 0 without a date.
The values of comprehensions (which rows are selected) and generators are decided by the bounded stand-in only."""
import ast

import z3

from pyvc.extract import find_function
from pyvc.interp import Interp, Spec, LoopSpec, PyRaise, Frame
from pyvc.runner import Harness
from pyvc.values import SymSeq, SymMap, SymOpt, Rec, Obj, Func, Untracked, UF, StrS, IntS, RealS, BoolS, ObjS, to_z3

EP = 'tally.expr_parser.'
TE = EP + 'TransactionEvaluator.'
Lo = UF('str.lower', StrS, StrS)
SetS = z3.SetSort(StrS)
ArrS = z3.ArraySort(StrS, ObjS)


IsNone = UF('py.is_none', ObjS, BoolS)


def fresh_map(ctx, name):
    m = SymMap(StrS, {None: ctx.fresh(name + '.values', ArrS)}, dom=ctx.fresh(name + '.keys', SetS))
    m.may_hold_none = IsNone           # a name of the scope may be bound to None: (m := next((r for r in ...), None))
    return m


def same_map(m1, dom0, arr0, k):
    """m1 and (dom0, arr0) are the same dict, checked at an arbitrary key k"""
    return z3.And(m1.dom == dom0, z3.Implies(z3.IsMember(k, dom0), z3.Select(m1.fields[None], k) == z3.Select(arr0, k)))


def base_spec():
    sp = Spec()
    sp.exc_table.update({'ExpressionError': 'Exception', 'UnsafeNodeError': 'ExpressionError'})
    return sp


# ------------------------------------------------------------------------------------------ _eval_Name
PRIMS = ['description', 'amount', 'date', 'month', 'year', 'day', 'weekday', 'source']


def h_name(ctx):
    sp = base_spec()
    I = Interp(ctx, sp)
    scope, variables, sources = fresh_map(ctx, 'scope'), fresh_map(ctx, 'variables'), fresh_map(ctx, 'data_sources')
    prim = {'description': ctx.fresh('ctx.description', StrS), 'amount': ctx.fresh('ctx.amount', RealS), 'date': Obj(ctx.fresh('ctx.date', ObjS), 'date'),
            'month': ctx.fresh('ctx.month', IntS), 'year': ctx.fresh('ctx.year', IntS), 'day': ctx.fresh('ctx.day', IntS), 'weekday': ctx.fresh('ctx.weekday', IntS),
            'source': ctx.fresh('ctx.source', StrS)}
    tctx = Rec('TransactionContext', dict(prim, variables=variables, data_sources=sources))
    me = Rec('TransactionEvaluator', {'ctx': tctx, '_scope': scope})
    ident = ctx.fresh('node.id', StrS)
    name = Lo(ident)
    in_scope, in_vars, in_src = z3.IsMember(name, scope.dom), z3.IsMember(name, variables.dom), z3.IsMember(name, sources.dom)
    literal = [name == z3.StringVal(p) for p in PRIMS + ['true', 'false']]
    try:
        r = I.call_function(find_function(TE + '_eval_Name'), [Rec('Name', {'id': ident})], {}, self_obj=me)
    except PyRaise as e:
        ctx.check('C04.name.unknown_name_is_expression_error', z3.And(z3.BoolVal(I.is_subclass(e.cls, 'ExpressionError')),
                                                                     z3.Not(z3.Or(in_scope, in_vars, in_src, *literal))), 'property')
        ctx.cover('name.raises')
        return

    def is_val(v):
        if isinstance(r, bool) or isinstance(v, bool):
            return z3.BoolVal(isinstance(r, bool) and isinstance(v, bool) and r == v)
        a, b = to_z3(r), to_z3(v)
        return a == b if a.sort() == b.sort() else z3.BoolVal(False)
    cases = [(in_scope, z3.Select(scope.fields[None], name)), (in_vars, z3.Select(variables.fields[None], name))]
    cases += [(name == z3.StringVal(p), prim[p]) for p in PRIMS] + [(name == z3.StringVal('true'), True), (name == z3.StringVal('false'), False)]
    cases += [(in_src, z3.Select(sources.fields[None], name))]
    want, earlier = [], []
    for cond, val in cases:
        want.append(z3.And(cond, z3.Not(z3.Or(*earlier)) if earlier else z3.BoolVal(True), is_val(val)))
        earlier.append(cond)
    ctx.check('C04.name.resolution_order_scope_variables_primitives_sources', z3.Or(*want), 'property')
    ctx.cover('name.returns')


# ------------------------------------------------------------------------------------------ _eval_Attribute
def h_attribute(ctx):
    """`<name>.<attr>` resolves its base name like every name does - scope first, names lower-cased: when the base is a loop variable or := name (whatever it is
    called, `txn` and `field` included, in whatever letter case) the result is that value's own attribute and the transaction is not consulted; only otherwise
    `txn.` and `field.` mean the transaction."""
    sp = base_spec()
    I = Interp(ctx, sp)
    scope = fresh_map(ctx, 'scope')
    DictGet, DictHas = UF('row.get', ObjS, StrS, ObjS), UF('row.has', ObjS, StrS, BoolS)
    TxnAttr, FieldVal, FieldHas = UF('ctx.attribute', StrS, ObjS), UF('ctx.field.get', StrS, ObjS), UF('ctx.field.has', StrS, BoolS)
    sp.field_sorts[('contains', 'pyvalue')] = lambda I_, c, item, node: DictHas(c.expr, to_z3(item, StrS))
    sp.field_sorts[('pyvalue', '[]')] = lambda I_, o, k, node: Obj(DictGet(o.expr, to_z3(k, StrS)), 'pyvalue')
    sp.models['method:Obj:pyvalue.keys'] = Func(lambda I_, a, k, n: Untracked())
    sp.models['sorted'] = Func(lambda I_, a, k, n: Untracked())
    sp.models['ast.dump'] = Func(lambda I_, a, k, n: Untracked())
    # the transaction side: every attribute of the context is "the transaction's <attr>"
    tctx = Obj(ctx.fresh('ctx', ObjS), 'tctx')
    for f_ in ('description', 'amount', 'date', 'month', 'year', 'day', 'weekday', 'source', 'location'):
        sp.field_sorts[('tctx', f_)] = ('obj', 'txnvalue')
    fieldmap = Obj(ctx.fresh('ctx.field', ObjS), 'fieldmap')
    sp.field_sorts[('tctx', 'field')] = ('obj', 'fieldmap')
    sp.truthy_classes.add('fieldmap')
    sp.field_sorts[('contains', 'fieldmap')] = lambda I_, c, item, node: FieldHas(to_z3(item, StrS))
    sp.field_sorts[('fieldmap', '[]')] = lambda I_, o, k, node: Obj(FieldVal(to_z3(k, StrS)), 'txnvalue')
    sp.models['method:Obj:fieldmap.keys'] = Func(lambda I_, a, k, n: Untracked())
    sp.models['getattr'] = Func(lambda I_, a, k, n: Obj(UF('tctx.%s' % a[1], ObjS, ObjS)(a[0].expr), 'txnvalue') if isinstance(a[0], Obj) and a[0].cls == 'tctx' and isinstance(a[1], str)
                                else (_ for _ in ()).throw(Unsupported('getattr')))
    me = Rec('TransactionEvaluator', {'ctx': tctx, '_scope': scope})
    base_is_name = bool(ctx.choose(2, 'base_is_a_name'))
    ident, attr = ctx.fresh('node.value.id', StrS), ctx.fresh('node.attr', StrS)
    base_node = Rec('Name', {'id': ident}) if base_is_name else Obj(ctx.fresh('node.value', ObjS), 'ast')
    if not base_is_name:
        ctx.assume(z3.Not(UF('isinstance_Name', ObjS, BoolS)(base_node.expr)))
    bval, braises = ctx.fresh('value_of_base', ObjS), ctx.fresh('base.raises', BoolS)

    def m_eval(I_, a, k, n):
        if I_.ctx.branch(braises, 'base.raises'):
            raise PyRaise('ExpressionError', (), 'evaluate(base)')
        return Obj(bval, 'pyvalue')
    sp.models['self.evaluate'] = Func(m_eval)
    node = Rec('Attribute', {'value': base_node, 'attr': attr})
    scoped = z3.IsMember(Lo(ident), scope.dom) if base_is_name else z3.BoolVal(True)       # a base that is no plain name is never the transaction
    is_txn = z3.And(z3.BoolVal(base_is_name), Lo(ident) == z3.StringVal('txn'), z3.Not(scoped))
    is_field = z3.And(z3.BoolVal(base_is_name), Lo(ident) == z3.StringVal('field'), z3.Not(scoped))
    try:
        r = I.call_function(find_function(TE + '_eval_Attribute'), [node], {}, self_obj=me)
    except PyRaise as e:
        ctx.check('C04.attribute.fails_only_with_expression_error', I.is_subclass(e.cls, 'ExpressionError'), 'property')
        ctx.cover('attribute.raises')
        return
    own = isinstance(r, Obj) and r.cls == 'pyvalue'
    ctx.check('C04.attribute.scoped_base_yields_its_own_attribute_never_the_transactions',
              z3.Implies(z3.Or(scoped, z3.Not(z3.Or(is_txn, is_field))), z3.And(z3.BoolVal(own), (r.expr == DictGet(bval, Lo(attr))) if own else z3.BoolVal(False))), 'property')
    ctx.check('C04.attribute.txn_and_field_mean_the_transaction_only_when_not_shadowed', z3.Implies(z3.BoolVal(isinstance(r, Obj) and r.cls == 'txnvalue'), z3.Or(is_txn, is_field)), 'property')
    ctx.cover('attribute.returns')


# ------------------------------------------------------------------------------------------ _eval_NamedExpr
def h_walrus(ctx):
    sp = base_spec()
    I = Interp(ctx, sp)
    scope = fresh_map(ctx, 'scope')
    dom0, arr0 = scope.dom, scope.fields[None]
    me = Rec('TransactionEvaluator', {'ctx': Untracked(), '_scope': scope})
    v = ctx.fresh('value', ObjS)
    raises = ctx.fresh('value.raises', BoolS)

    def m_eval(I_, a, k, n):
        if I_.ctx.branch(raises, 'child.raises'):
            raise PyRaise('ExpressionError', (), 'evaluate(child)')
        return Obj(v, 'pyvalue')
    sp.models['self.evaluate'] = Func(m_eval)
    ident = ctx.fresh('target.id', StrS)
    node = Rec('NamedExpr', {'value': Obj(ctx.fresh('node.value', ObjS), 'ast'), 'target': Rec('Name', {'id': ident})})
    try:
        r = I.call_function(find_function(TE + '_eval_NamedExpr'), [node], {}, self_obj=me)
    except PyRaise as e:
        ctx.check('C04.walrus.fails_iff_value_fails_and_binds_nothing', z3.And(raises, me.fields['_scope'].dom == dom0, me.fields['_scope'].fields[None] == arr0), 'property')
        return
    s1 = me.fields['_scope']
    ctx.check('C04.walrus.yields_the_value', isinstance(r, Obj) and z3.eq(r.expr, v), 'property')
    ctx.check('C04.walrus.binds_lowercased_name_and_nothing_else', z3.And(s1.dom == z3.SetAdd(dom0, Lo(ident)), s1.fields[None] == z3.Store(arr0, Lo(ident), v)), 'property')
    ctx.cover('walrus.returns')


# ------------------------------------------------------------------------------------------ _eval_comprehension_loop
def h_comprehension(ctx):
    sp = base_spec()
    I = Interp(ctx, sp)
    q = TE + '_eval_comprehension_loop'
    fi = find_function(q)
    scope = fresh_map(ctx, 'scope')
    dom0, arr0 = scope.dom, scope.fields[None]
    me = Rec('TransactionEvaluator', {'ctx': Untracked(), '_scope': scope})
    kk = ctx.fresh('any_key', StrS)
    gens = ctx.fresh('generators', z3.SeqSort(ObjS))
    index = ctx.fresh('index', IntS)
    ctx.assume(index >= 0)
    sp.field_sorts[('comprehension', 'iter')] = ObjS
    sp.field_sorts[('comprehension', 'target')] = ObjS
    sp.field_sorts[('comprehension', 'ifs')] = ('seq', ObjS, 'ast')
    sp.field_sorts[('asttarget', 'id')] = StrS
    seen = {'bound_during_conditions': [], 'bound_during_inner_loop': []}

    def var_of():
        return Lo(UF('asttarget.id', ObjS, StrS)(UF('comprehension.target', ObjS, ObjS)(gens[index])))

    def scope_has_item(item):
        s = me.fields['_scope']
        return z3.And(z3.IsMember(var_of(), s.dom), z3.Select(s.fields[None], var_of()) == item)

    def m_eval(I_, a, k, n):
        # contract of evaluate(child): a value or ExpressionError; the scope is left as found (walrus-free children: stated assumption)
        if I_.ctx.choose(2, 'child.raises'):
            raise PyRaise('ExpressionError', (), 'evaluate(child)')
        e = to_z3(a[0])
        if z3.is_app(e) and e.decl().name() == 'comprehension.iter':
            # the iterable of a well-typed comprehension is a list of rows (iterating anything else is a TypeError, converted by the dispatcher: C08)
            return SymSeq([I_.fresh('items', z3.SeqSort(ObjS))], None, ['pyvalue'])
        return Obj(I_.fresh('value', ObjS), 'pyvalue')
    sp.models['self.evaluate'] = Func(m_eval)

    def m_rec(I_, a, k, n):
        # contract of the recursive call (induction on len(generators) - index): may fail; appends to result; scope as found
        if 'item' in state:
            ctx.check('C04.comprehension.loop_variable_bound_to_item_in_inner_loops', scope_has_item(state['item']), 'property')
        if I_.ctx.choose(2, 'inner.raises'):
            raise PyRaise('ExpressionError', (), 'inner loop')
        a[3].cols[0] = I_.fresh('result_after_inner', z3.SeqSort(ObjS))
        return None
    sp.models['self._eval_comprehension_loop'] = Func(m_rec)
    state = {}
    fr = Frame(fi, {})
    for nd in ast.walk(fi.node):
        if isinstance(nd, ast.For):
            def inv(I_, env, k, it):
                return {'scope_is_as_on_entry': same_map(env['self'].fields['_scope'], dom0, arr0, kk)}

            def havoc_scope(c):
                return fresh_map(c.ctx if hasattr(c, 'ctx') else c, 'scope_at_k')
            sp.loops[(q, fr.loop_ordinals[id(nd)])] = LoopSpec(inv, {'self._scope': havoc_scope, 'result': lambda c: SymSeq([c.fresh('result_k', z3.SeqSort(ObjS))], None, ['pyvalue'])},
                                                               kind='property')
        if isinstance(nd, ast.GeneratorExp):
            sp.abstract_comprehensions.add((q, fr.loop_ordinals[id(nd)]))
    # observe the item the loop binds (the loop target) when the recursive call is made
    orig_assign = I.assign

    def assign(t, v, frm):
        if isinstance(t, ast.Name) and t.id == 'item' and isinstance(v, Obj):
            state['item'] = v.expr
        return orig_assign(t, v, frm)
    I.assign = assign
    result = SymSeq([ctx.fresh('result', z3.SeqSort(ObjS))], None, ['pyvalue'])
    node_gens = SymSeq([gens], None, ['comprehension'])
    sp.field_sorts[('comprehension', 'target')] = ('obj', 'asttarget')
    try:
        I.call_function(fi, [node_gens, index, Obj(ctx.fresh('element', ObjS), 'ast'), result], {}, self_obj=me)
    except PyRaise as e:
        ctx.check('C04.comprehension.raises_only_expression_error', I.is_subclass(e.cls, 'ExpressionError') or e.cls == 'TypeError', 'property')
        # the expression may go on after the failure (exists() turns it into False): the loop variable is gone then, what it hid is back
        ctx.check('C04.comprehension.scope_restored_when_the_loop_fails', same_map(me.fields['_scope'], dom0, arr0, kk), 'property')
        ctx.cover('comprehension.raises')
        return
    ctx.check('C04.comprehension.scope_restored_on_return', same_map(me.fields['_scope'], dom0, arr0, kk), 'property')
    ctx.cover('comprehension.returns')


# ------------------------------------------------------------------------------------------ TransactionContext.__init__
def h_ctx_init(ctx):
    sp = base_spec()
    I = Interp(ctx, sp)
    d = ctx.fresh('date', ObjS)
    has = ctx.fresh('has_date', BoolS)
    for f in ('month', 'year', 'day'):
        sp.field_sorts[('date', f)] = IntS
    sp.truthy_classes.add('date')
    weekday = UF('date.weekday', ObjS, IntS)
    sp.models['method:Obj:date.weekday'] = Func(lambda I_, a, k, n: weekday(a[0].expr))
    me = Rec('TransactionContext', {})
    fi = find_function(EP + 'TransactionContext.__init__')
    I.call_function(fi, [ctx.fresh('description', StrS), ctx.fresh('amount', RealS), SymOpt(has, Obj(d, 'date'))], {}, self_obj=me)
    for f in ('month', 'year', 'day'):
        got = to_z3(me.fields[f])
        ctx.check('C04.date_component.%s_is_that_of_the_date' % f, got == z3.If(has, UF('date.' + f, ObjS, IntS)(d), 0), 'property')
    ctx.check('C04.date_component.weekday_is_that_of_the_date', to_z3(me.fields['weekday']) == z3.If(has, weekday(d), 0), 'property')
    ctx.cover('ctx_init')


def h_engine_variables(ctx):
    """MerchantEngine._evaluate_variables: the variables of a rules file are evaluated one after the other, each with the variables defined before it in
    scope (name resolution: scope, USER VARIABLES, primitives - also inside a variable's own expression), each stored under its own name with its own
    value; a variable that cannot be evaluated is left undefined and changes nothing."""
    sp = base_spec()
    I = Interp(ctx, sp)
    q = 'tally.merchant_engine.MerchantEngine._evaluate_variables'
    fi = find_function(q)
    txn, ds = Obj(ctx.fresh('transaction', ObjS), 'pydict'), Obj(ctx.fresh('data_sources', ObjS), 'pydict')
    gv = SymMap(StrS, {None: ctx.fresh('variables.expr', z3.ArraySort(StrS, StrS))}, dom=ctx.fresh('variables.names', SetS))
    eng = Rec('MerchantEngine', {'variables': gv})
    flags = {}

    def current(I_):
        return I_.frames[-1].env.get('evaluated')

    def m_eval(I_, a, k, n):
        ev = current(I_)
        ctx.check('C04.engine_variables.each_variable_is_evaluated_with_the_variables_before_it_in_scope', ev is not None and k.get('variables') is ev, 'property')
        ctx.check('C04.engine_variables.evaluated_on_this_transaction_with_the_supplemental_sources', len(a) >= 2 and a[1] is txn and k.get('data_sources') is ds, 'property')
        flags['expr'] = to_z3(a[0], StrS)
        if isinstance(ev, SymMap):
            flags['before'] = (ev.dom, ev.fields[None])
        if I_.ctx.choose(2, 'variable.cannot_be_evaluated'):
            raise PyRaise('ExpressionError', (), 'evaluate_transaction')
        flags['value'] = I_.fresh('value', ObjS)
        return Obj(flags['value'], 'pyvalue')
    sp.models['expr_parser.evaluate_transaction'] = Func(m_eval)

    def unfold(I_, env, k, it):
        flags.clear()
        flags['in_step'] = not (z3.is_app(k) and k.decl().kind() == z3.Z3_OP_CONST_ARRAY) and not z3.eq(k, gv.dom)
        return []

    def inv(I_, env, k, it):
        out = {}
        ev = env['evaluated']
        if flags.get('in_step') and 'before' in flags and isinstance(ev, SymMap):
            dom0, arr0 = flags['before']
            if 'value' in flags:
                out['variable_defined_under_its_own_name_with_its_value'] = _defined(ev, dom0, arr0, flags, gv)
            else:
                out['a_variable_that_cannot_be_evaluated_changes_nothing'] = z3.And(ev.dom == dom0, ev.fields[None] == arr0)
        return out
    fr = Frame(fi, {})
    for nd in ast.walk(fi.node):
        if isinstance(nd, ast.For):
            sp.loops[(q, fr.loop_ordinals[id(nd)])] = LoopSpec(inv, {'evaluated': lambda c: SymMap(StrS, {None: c.fresh('evaluated.values', z3.ArraySort(StrS, ObjS))}, dom=c.fresh('evaluated.names', SetS))},
                                                               kind='property', unfold=unfold)
            flags['name_node'] = nd.target
    orig_assign = I.assign

    def assign(t, v, frm):
        # the loop binds (name, expr): remember the name of the variable being processed
        if isinstance(t, ast.Tuple) and isinstance(v, tuple) and len(v) == 2 and z3.is_expr(v[0]) and v[0].sort() == StrS:
            flags['name'] = v[0]
        return orig_assign(t, v, frm)
    I.assign = assign
    I.call_function(fi, [txn, ds], {}, self_obj=eng)
    ctx.cover('_evaluate_variables.returns')


def _defined(ev, dom0, arr0, flags, gv):
    nm = flags.get('name')
    if nm is None:
        return z3.BoolVal(False)
    return z3.And(ev.dom == z3.SetAdd(dom0, nm), ev.fields[None] == z3.Store(arr0, nm, flags['value']), z3.Select(gv.fields[None], nm) == flags['expr'])


def harnesses(tier):
    return [Harness('MerchantEngine._evaluate_variables', h_engine_variables, ['tally.merchant_engine.MerchantEngine._evaluate_variables'], prune=True),
            Harness('TransactionEvaluator._eval_Name', h_name, [TE + '_eval_Name']),
            Harness('TransactionEvaluator._eval_Attribute', h_attribute, [TE + '_eval_Attribute'], prune=True),
            Harness('TransactionEvaluator._eval_NamedExpr', h_walrus, [TE + '_eval_NamedExpr']),
            Harness('TransactionEvaluator._eval_comprehension_loop', h_comprehension, [TE + '_eval_comprehension_loop']),
            Harness('TransactionContext.__init__', h_ctx_init, [EP + 'TransactionContext.__init__'])]
