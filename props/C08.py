"""C08 - a rule that fails to evaluate is skipped; it never aborts classification.

raises-clauses, function by function:
  * the two evaluator dispatchers (TransactionEvaluator.evaluate / ExpressionEvaluator.evaluate): whatever the
    dispatched _eval_* method raises (any Exception subclass: TypeError, AttributeError, StopIteration, re.error,
    ValueError, ...), only ExpressionError leaves evaluate();
  * the public entry points (evaluate_transaction, matches_transaction, evaluate, evaluate_filter, ...):
    raises <= {ExpressionError};
  * every caller on the classification path: raises <= {} (the failing rule / binding / field / tag / transform /
    filter is skipped), each discharged from the callee contract plus its own except clauses.
That the outcome equals the one without the failing rule is C01's non-influence lemma (Err counts as not matching).
"""
import ast

import z3

from pyvc import extract
from pyvc.core import Unsupported
from pyvc.extract import find_function
from pyvc.interp import Interp, Spec, LoopSpec, PyRaise, Frame
from pyvc.runner import Harness
from pyvc.values import (SymSeq, SymSet, SymMap, SymOpt, Rec, Obj, Func, Untracked, UF, StrS, IntS, BoolS, ObjS, to_z3)

LEVEL = 'proof'
MIN_OBLIGATIONS = 40
EP = 'tally.expr_parser.'
MU = 'tally.merchant_utils.'
ME = 'tally.merchant_engine.'
SE = 'tally.section_engine.'

# every exception class an evaluator method may raise (operator errors, lookups, regex, generators, recursion ...)
ANY_EXC = ['ExpressionError', 'UnsafeNodeError', 'TypeError', 'AttributeError', 'ValueError', 'KeyError', 'IndexError',
           'ZeroDivisionError', 'StopIteration', 'RuntimeError', 'RecursionError', 're.error', 'OverflowError', 'NameError',
           'UnicodeError', 'Exception']


def exc_table(sp):
    sp.exc_table.update({'ExpressionError': 'Exception', 'UnsafeNodeError': 'ExpressionError', 'MerchantParseError': 'Exception',
                         'ModifierParseError': 'ValueError', 'SectionParseError': 'ValueError', 'SyntaxError': 'Exception'})


def raise_any(I, label, classes=ANY_EXC):
    """Callee outcome: returns normally or raises any of `classes` (all alternatives explored)."""
    k = I.ctx.choose(len(classes) + 1, label)
    if k:
        raise PyRaise(classes[k - 1], (), label)


def only_expression_error(I, label):
    raise_any(I, label, ['ExpressionError', 'UnsafeNodeError'])


def expect_raises(ctx, I, fn, allowed, tag):
    """Run fn(); every exception that escapes must be a subclass of one of `allowed`."""
    try:
        fn()
        ctx.cover('%s.returns' % tag)
    except PyRaise as e:
        ok = any(I.is_subclass(e.cls, a) for a in allowed)
        ctx.check('C08.raises[%s]<=%s' % (tag, '|'.join(allowed) or 'nothing'), bool(ok), 'property', where=e.where,
                  meta={'escaping': e.cls})
        if not ok:
            ctx.note('escaping:%s' % e.cls)
        ctx.cover('%s.raises' % tag)


# ---------------------------------------------------------------- the dispatchers

def h_dispatch(cls):
    def h(ctx):
        sp = Spec()
        exc_table(sp)
        I = Interp(ctx, sp)
        node = Obj(ctx.fresh('node', ObjS), 'ast.AST')
        me = Rec(cls, {'ctx': Untracked(), '_scope': Untracked()})
        sp.models['hasattr'] = Func(lambda I_, a, k, n: UF('hasattr', StrS, BoolS)(to_z3(a[1], StrS)))

        def m_getattr(I_, a, k, n):
            def method(I2, a2, k2, n2):
                raise_any(I2, '_eval_method')
                return Obj(I2.fresh('value', ObjS))
            return Func(method)
        sp.models['getattr'] = Func(m_getattr)
        # list(<generator>) consumes it: the generator's body runs here and may raise anything an _eval_ method may raise
        sp.models['list'] = Func(lambda I_, a, k, n: (raise_any(I_, 'list(generator)'), Obj(I_.fresh('values', ObjS)))[1])
        fi = find_function(EP + cls + '.evaluate')
        expect_raises(ctx, I, lambda: I.call_function(fi, [node], {}, self_obj=me), ['ExpressionError'], cls + '.evaluate')
    return h


# ---------------------------------------------------------------- public entry points

def entry_spec():
    sp = Spec()
    exc_table(sp)
    sp.models['parse_expression'] = Func(lambda I, a, k, n: (only_expression_error(I, 'parse_expression'), Obj(I.fresh('tree', ObjS)))[1])
    sp.models['TransactionContext.from_transaction'] = Func(lambda I, a, k, n: Obj(I.fresh('tctx', ObjS), 'TransactionContext'))
    sp.models['TransactionEvaluator'] = Func(lambda I, a, k, n: Obj(I.fresh('evaluator', ObjS), 'Evaluator'))
    sp.models['ExpressionEvaluator'] = Func(lambda I, a, k, n: Obj(I.fresh('evaluator', ObjS), 'Evaluator'))
    sp.models['ExpressionContext'] = Func(lambda I, a, k, n: Obj(I.fresh('ectx', ObjS), 'ExpressionContext'))
    sp.models['method:Obj:Evaluator.evaluate'] = Func(lambda I, a, k, n: (only_expression_error(I, 'evaluate'), Obj(I.fresh('value', ObjS), 'pyany'))[1])
    return sp


def h_entry(name, nargs):
    def h(ctx):
        sp = entry_spec()
        # entry points may delegate to one another: whichever they call is executed, not assumed
        sp.inline |= {EP + n for n in ('evaluate_transaction', 'evaluate_transaction_ast', 'matches_transaction', 'evaluate', 'evaluate_ast', 'evaluate_filter')}
        I = Interp(ctx, sp)
        args = [Obj(ctx.fresh('arg%d' % i, ObjS)) for i in range(nargs)]
        if name in ('evaluate_transaction', 'matches_transaction', 'evaluate', 'evaluate_filter'):
            args[0] = ctx.fresh('expr', StrS)
        fi = find_function(EP + name)
        expect_raises(ctx, I, lambda: I.call_function(fi, args), ['ExpressionError'], name)
    return h


# ---------------------------------------------------------------- callers: raises <= {}

def eval_txn_model():
    def m(I, a, k, n):
        only_expression_error(I, 'evaluate_transaction')
        if I.ctx.choose(2, 'value_is_list'):
            return SymSeq([I.fresh('values', z3.SeqSort(ObjS))], None, ['pyvalue'])
        return Obj(I.fresh('value', ObjS), 'pyvalue')
    return Func(m)


def engine_spec():
    sp = Spec()
    exc_table(sp)
    sp.models['expr_parser.evaluate_transaction'] = eval_txn_model()
    sp.models['expr_parser.matches_transaction'] = Func(lambda I, a, k, n: (only_expression_error(I, 'matches_transaction'), I.fresh('matches', BoolS))[1])
    # str()/strip()/lower() of an arbitrary value that evaluation returned
    sp.models['str'] = Func(lambda I, a, k, n: UF('str', ObjS, StrS)(to_z3(a[0])) if isinstance(a[0], Obj) else I.to_str(a[0]))
    sp.models['isinstance'] = Func(_isinstance)
    sp.field_sorts[('MerchantRule', 'let_bindings')] = ('seq2', None)
    return sp


def _isinstance(I, a, k, n):
    v, t = a
    from pyvc.interp import BUILTINS
    if isinstance(v, Obj) and v.cls == 'pyvalue':
        name = t.name if isinstance(t, Func) else getattr(t, 'name', '?')
        if name == 'list':
            return False        # the list-valued outcome is the other alternative of the callee model
        return UF('isinstance_' + name, ObjS, BoolS)(v.expr)
    return BUILTINS['isinstance'](I, a, k, n)


def no_inv(havoc):
    return LoopSpec(lambda I, env, k, it: {}, havoc)


def all_loops(fi, sp, havoc_of, escapes=None):
    """loop contracts for every for-loop of fi; `escapes` (a list) collects the loops whose body an exception leaves in an arbitrary iteration:
    such an exception ends the loop for the remaining items, whatever handles it further out"""
    fr = Frame(fi, {})
    for n in ast.walk(fi.node):
        if isinstance(n, ast.For):
            ls = no_inv(havoc_of(n))
            if escapes is not None:
                ls.on_exit = lambda kind, tag, line=n.lineno: escapes.append('%s (line %d)' % (tag, line)) if kind == 'raise' else None
            sp.loops[(fi.qualname, fr.loop_ordinals[id(n)])] = ls


def check_items_independent(ctx, tag, escapes):
    """on a path that RETURNS: no exception left the body of an item loop (a failing item is skipped, the items after it are still processed)"""
    ctx.check('C08.%s.failing_item_does_not_end_the_loop' % tag, not escapes, 'property', meta={'loops': list(escapes)})


def h_engine_method(name):
    """_evaluate_variables / _evaluate_let_bindings / _evaluate_fields / _resolve_tags : raises <= {}"""
    def h(ctx):
        sp = engine_spec()
        I = Interp(ctx, sp)
        fi = find_function(ME + 'MerchantEngine.' + name)
        eng = Rec('MerchantEngine', {})
        txn, ds, vars_ = Obj(ctx.fresh('txn', ObjS)), Obj(ctx.fresh('ds', ObjS)), SymMap(StrS, {None: ctx.fresh('vars', z3.ArraySort(StrS, ObjS))},
                                                                                           dom=ctx.fresh('vars.dom', z3.SetSort(StrS)))
        rule = Rec('MerchantRule', {
            'let_bindings': SymSeq([ctx.fresh('lb.name', z3.SeqSort(StrS)), ctx.fresh('lb.expr', z3.SeqSort(StrS))], 2),
            'fields': SymMap(StrS, {None: ctx.fresh('fields', z3.ArraySort(StrS, StrS))}, dom=ctx.fresh('fields.dom', z3.SetSort(StrS))),
            'tags': SymSet(ctx.fresh('tags', z3.SetSort(StrS))),
        })
        eng.fields['variables'] = SymMap(StrS, {None: ctx.fresh('gvars', z3.ArraySort(StrS, StrS))}, dom=ctx.fresh('gvars.dom', z3.SetSort(StrS)))

        def hv(n):
            # state each loop writes: a fresh dict / set local to the function
            return {'evaluated': lambda I_: Untracked(), 'variables': lambda I_: Untracked(), 'resolved': lambda I_: Untracked()}
        escapes = []
        all_loops(fi, sp, hv, escapes)
        if name == '_evaluate_variables':
            call = lambda: I.call_function(fi, [txn, ds], {}, self_obj=eng)
        elif name == '_evaluate_let_bindings':
            call = lambda: I.call_function(fi, [rule, txn, vars_, ds], {}, self_obj=eng)
        else:
            call = lambda: I.call_function(fi, [rule, txn, vars_, ds], {}, self_obj=eng)
        expect_raises(ctx, I, call, [], 'MerchantEngine.' + name)
        check_items_independent(ctx, 'MerchantEngine.' + name, escapes)
    return h


def h_match(ctx):
    """match(): given the callee contracts (raise at most ExpressionError) nothing escapes - same harness as C01."""
    from props import match_common as mc
    for mode in ('first_match', 'most_specific'):
        pass
    mode = ['first_match', 'most_specific'][ctx.choose(2, 'mode')]
    try:
        mc.run_match(ctx, mode)
        ctx.cover('match.returns.%s' % mode)
    except PyRaise as e:
        ctx.check('C08.raises[match]<=nothing', False, 'property', where=e.where, meta={'escaping': e.cls})


def h_specificity(ctx):
    """calculate_specificity is called by match() for every matching rule OUTSIDE the try that skips unevaluable rules: it must raise nothing, whatever the
    (already validated) match expression looks like - an argument of a pattern function may be any literal (`fuzzy("X", 0.9)`, `startswith(5)` behind a
    short-circuit), and len() of a value that is not a string raises TypeError"""
    import ast as _ast
    sp = Spec()
    exc_table(sp)
    I = Interp(ctx, sp)
    SeqObj = z3.SeqSort(ObjS)
    Walk, Tree = UF('ast.walk', ObjS, SeqObj), UF('parse_expression', StrS, ObjS)
    is_str = UF('isinstance_str', ObjS, BoolS)
    rule = Obj(ctx.fresh('rule', ObjS), 'MerchantRule')
    sp.field_sorts[('MerchantRule', 'match_expr')] = StrS
    sp.field_sorts[('MerchantRule', 'priority')] = IntS

    def m_parse(I_, a, k, n):
        only_expression_error(I_, 'parse_expression')
        return Obj(Tree(to_z3(a[0], StrS)), 'astnode')
    sp.models['expr_parser.parse_expression'] = Func(m_parse)
    sp.models['ast.walk'] = Func(lambda I_, a, k, n: SymSeq([Walk(to_z3(a[0]))], None, ['astnode']))
    for f_, srt in (('func', ('obj', 'astnode')), ('value', ('obj', 'astnode')), ('id', StrS), ('attr', StrS), ('args', ('seq', ObjS, 'astnode'))):
        sp.field_sorts[('astnode', f_)] = srt

    def m_len(I_, v, node):
        # len(x): fine for a string, TypeError for a number / None / bool literal
        if I_.ctx.branch(z3.Not(is_str(v.expr)), 'len.of_non_string'):
            raise PyRaise('TypeError', (), 'len')
        return UF('len.of.str.constant', ObjS, IntS)(v.expr)
    sp.field_sorts[('astnode', 'len')] = m_len
    fi = find_function(ME + 'calculate_specificity')
    fr = Frame(fi, {})
    for nd in _ast.walk(fi.node):
        if isinstance(nd, _ast.For):
            sp.loops[(fi.qualname, fr.loop_ordinals[id(nd)])] = LoopSpec(lambda I_, env, k, it: {}, {'pattern_count': lambda c: c.fresh('pattern_count', IntS),
                                                                                                      'pattern_length': lambda c: c.fresh('pattern_length', IntS),
                                                                                                      'constraint_kinds': lambda c: SymSet(c.fresh('constraint_kinds', z3.SetSort(StrS)))})
    expect_raises(ctx, I, lambda: I.call_function(fi, [rule]), [], 'calculate_specificity')


def harnesses(tier):
    hs = [
        Harness('calculate_specificity', h_specificity, [ME + 'calculate_specificity'], prune=True),
        Harness('TransactionEvaluator.evaluate', h_dispatch('TransactionEvaluator'), [EP + 'TransactionEvaluator.evaluate']),
        Harness('ExpressionEvaluator.evaluate', h_dispatch('ExpressionEvaluator'), [EP + 'ExpressionEvaluator.evaluate']),
        Harness('evaluate_transaction', h_entry('evaluate_transaction', 4), [EP + 'evaluate_transaction']),
        Harness('evaluate_transaction_ast', h_entry('evaluate_transaction_ast', 4), [EP + 'evaluate_transaction_ast']),
        Harness('matches_transaction', h_entry('matches_transaction', 4), [EP + 'matches_transaction']),
        Harness('evaluate', h_entry('evaluate', 2), [EP + 'evaluate']),
        Harness('evaluate_ast', h_entry('evaluate_ast', 2), [EP + 'evaluate_ast']),
        Harness('evaluate_filter', h_entry('evaluate_filter', 5), [EP + 'evaluate_filter']),
        Harness('match', h_match, [ME + 'MerchantEngine.match']),
    ]
    for m in ('_evaluate_variables', '_evaluate_let_bindings', '_evaluate_fields', '_resolve_tags'):
        hs.append(Harness('MerchantEngine.' + m, h_engine_method(m), [ME + 'MerchantEngine.' + m]))
    from props import C08_callers, C08_let
    hs += C08_callers.harnesses(tier)
    hs += C08_let.harnesses(tier)
    return hs


ORACLES = [
    {'name': 'ill-typed / failing expressions in every expression position (match, let, field, tag, transform, variable, view filter) '
             'on the real loader, matcher, CSV parser and view classifier; outcome compared with the same file without the failing rule',
     'script': 'C08.py', 'bound': '42 failing expression texts x 8 positions x 3 transactions, rule-list contexts of length <= 3, 15 view expressions misusing the aggregates, 6 non-compiling legacy CSV patterns x 3 positions'},
]
TRUSTED_BASE = [
    'pyvc symbolic executor', 'z3 5.1.0 / cvc5 1.0.3',
    'the dispatched _eval_* / _fn_* methods may raise ANY Exception subclass (no assumption on them); BaseException-only classes '
    '(KeyboardInterrupt, SystemExit, GeneratorExit) are outside the claim',
]
ASSUMPTIONS = ['transaction is a dict built by the CSV parser / normalize_merchant (str description, number amount, date or None, dict-or-None field)',
               'resource exhaustion (MemoryError, catastrophic regex backtracking) is out of scope of the statement']
EXPLANATION = ('raises-clauses by symbolic execution of the real dispatchers, entry points and callers with callees replaced by their contracts '
               '(a callee may raise every class its contract allows, all alternatives explored); bounded stand-in (labelled): failing expressions in '
               'every position on the real code.')
