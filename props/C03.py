"""C03 - rule expressions are confined: no code execution, I/O or introspection.

  1. validate_ast (proof, structural induction): returns normally => every node of the tree has an allowed type; raises only UnsafeNodeError.
  2. dispatch closure (syntactic): evaluate() resolves only '_eval_' + type(node).__name__, get_function() only abs/round/'_fn_'+name for
     names in the literal set _FUNCTION_NAMES.
  3. calls clause (syntactic) for every _eval_* / _fn_* / get_* method of the four evaluator classes and for parse_expression: every call
     resolves inside a closed table; no eval/exec/compile/__import__/open/os/subprocess, no getattr/hasattr/setattr with a computed name.
  4. assigns clause (syntactic): evaluation writes only the evaluator's own scope, fresh locals and the two module caches - never the parsed
     tree, the transaction, ctx.field / ctx.variables or the data rows.
  5. the whitelist itself contains no node type that creates functions, classes, imports, f-strings, starred/keyword unpacking, await/yield.
"""
import ast

import z3

from pyvc import extract, frames
from pyvc.core import Unsupported
from pyvc.extract import find_function
from pyvc.ghost import Ghost
from pyvc.interp import Interp, Spec, LoopSpec, PyRaise, Frame
from pyvc.runner import Harness
from pyvc.values import SymSeq, Rec, Obj, Func, Untracked, UF, StrS, IntS, BoolS, ObjS, to_z3

LEVEL = 'proof'
MIN_OBLIGATIONS = 60
EP = 'tally.expr_parser.'
SeqObj = z3.SeqSort(ObjS)
Allowed = UF('type_in_allowed', ObjS, BoolS)          # type(node) in allowed
Children = UF('ast.iter_child_nodes', ObjS, SeqObj)
AllAllowed = UF('AllAllowed', ObjS, BoolS)            # spec: node and all its descendants have allowed types
ChildrenOK = Ghost('ChildrenOK', [SeqObj], BoolS, base=lambda s: z3.BoolVal(True), step=lambda s, k, acc: z3.And(acc, AllAllowed(s[k])))


def h_validate_ast(ctx):
    sp = Spec()
    sp.exc_table.update({'ExpressionError': 'Exception', 'UnsafeNodeError': 'ExpressionError'})
    I = Interp(ctx, sp)
    node = Obj(ctx.fresh('node', ObjS), 'ast.AST')
    allowed = Obj(ctx.fresh('allowed', ObjS), 'typeset')
    sp.field_sorts[('contains', 'typeset')] = lambda I_, c, item, n: Allowed(item.fields['__node__']) if isinstance(item, Rec) else (_ for _ in ()).throw(Unsupported('membership of a non-type'))
    sp.models['type'] = Func(lambda I_, a, k, n: Rec('type', {'__name__': 'NoneType'}) if a[0] is None else
                             Rec('type', {'__name__': UF('type.__name__', ObjS, StrS)(to_z3(a[0])), '__node__': to_z3(a[0])}))
    # a literal is data of the language (text, number, true / false / none) or it is not (Ellipsis, bytes, complex): one predicate of the node's value
    IsConstant, DataLiteral, Value = UF('isinstance_Constant', ObjS, BoolS), UF('is_data_literal', ObjS, BoolS), UF('ast.AST.value', ObjS, ObjS)

    def m_isinstance(I_, a, k, n):
        v, t = a
        if isinstance(t, tuple):
            kinds = sorted(x.name if hasattr(x, 'name') else (x.fields.get('__name__') if isinstance(x, Rec) else '?') for x in t)
            if kinds != ['NoneType', 'bool', 'float', 'int', 'str']:
                raise Unsupported('the data literal kinds changed: %s' % kinds)
            return DataLiteral(to_z3(v))
        from pyvc.interp import _b_isinstance
        return _b_isinstance(I_, a, k, n)
    sp.models['isinstance'] = Func(m_isinstance)
    sp.field_sorts[('ast.AST', 'value')] = ('obj', 'pyvalue')
    sp.models['ast.iter_child_nodes'] = Func(lambda I_, a, k, n: SymSeq([Children(to_z3(a[0]))], None, ['ast.AST']))

    def m_rec(I_, a, k, n):
        # recursive call on a child: induction hypothesis = the contract being proved
        c = to_z3(a[0])
        if len(a) < 2 or not (isinstance(a[1], Obj) and a[1].expr is allowed.expr):
            raise Unsupported('validate_ast must pass `allowed` through to the recursive call')
        if I_.ctx.branch(z3.Not(AllAllowed(c)), 'child_unsafe'):
            raise PyRaise('UnsafeNodeError', (), 'validate_ast(child)')
        return None
    sp.models['validate_ast'] = Func(m_rec)
    fi = find_function(EP + 'validate_ast')
    fr = Frame(fi, {})
    for n in ast.walk(fi.node):
        if isinstance(n, ast.For):
            sp.loops[(fi.qualname, fr.loop_ordinals[id(n)])] = LoopSpec(
                lambda I_, env, k, it: {'children_so_far_ok': ChildrenOK(it.cols[0], k)}, {},
                unfold=lambda I_, env, k, it: ChildrenOK.unfold(it.cols[0], k))
    # definition of the spec predicate (one unfolding): AllAllowed(n) <=> Allowed(n) and all children AllAllowed
    ch = Children(node.expr)
    for f in ChildrenOK.unfold(ch, z3.IntVal(-1)):
        ctx.assume(f)
    ctx.assume(AllAllowed(node.expr) == z3.And(Allowed(node.expr), z3.Implies(IsConstant(node.expr), DataLiteral(Value(node.expr))), ChildrenOK(ch, z3.Length(ch))))
    jj = z3.Int('jj')      # instance of lemma.children_ok (proved by induction below) at k = len(children)
    ctx.assume(ChildrenOK(ch, z3.Length(ch)) == z3.ForAll([jj], z3.Implies(z3.And(jj >= 0, jj < z3.Length(ch)), AllAllowed(ch[jj]))))
    try:
        I.call_function(fi, [node, allowed])
        ctx.check('C03.validate_ast.returns_only_for_whitelisted_trees', AllAllowed(node.expr), 'property')
        ctx.cover('validate_ast.returns')
    except PyRaise as e:
        ctx.check('C03.validate_ast.raises_only_UnsafeNodeError', e.cls == 'UnsafeNodeError', 'property', meta={'escaping': e.cls})
        ctx.check('C03.validate_ast.raises_only_for_unsafe_trees', z3.Not(AllAllowed(node.expr)), 'property')
        ctx.cover('validate_ast.raises')


def h_children_reading(ctx):
    """Declarative reading of the ghost: ChildrenOK(s,k) <=> forall j<k. AllAllowed(s[j])  (induction on k)."""
    s = ctx.fresh('children', SeqObj)
    k = ctx.fresh('k', IntS)
    j = z3.Int('j')
    R = lambda kk: ChildrenOK(s, kk) == z3.ForAll([j], z3.Implies(z3.And(j >= 0, j < kk), AllAllowed(s[j])))
    for f in ChildrenOK.unfold(s, k):
        ctx.assume(f)
    ctx.check('lemma.children_ok.base', R(z3.IntVal(0)), 'auxiliary')
    ctx.assume(k >= 0)
    ctx.assume(R(k))
    ctx.check('lemma.children_ok.step', R(k + 1), 'auxiliary')


def h_evaluate_yields_values(ctx):
    """TransactionEvaluator.evaluate(node) - the one door every sub-expression's value comes through - never hands out a generator object (an
    interpreter internal whose str() would land in tags, fields and reports): a generator produced by an _eval_ method is consumed into a list there.
    Only evaluate(node, lazy=True) may return one; the clause evaluate#lazy_only_for_consuming_functions confines that to the arguments of
    sum / any / all / next / min / max."""
    sp = Spec()
    sp.exc_table.update({'ExpressionError': 'Exception'})
    I = Interp(ctx, sp)
    is_gen = UF('isinstance_GeneratorType', ObjS, BoolS)
    node = Obj(ctx.fresh('node', ObjS), 'ast.AST')
    me = Rec('TransactionEvaluator', {'ctx': Untracked(), '_scope': Untracked()})
    sp.models['hasattr'] = Func(lambda I_, a, k, n: UF('hasattr', StrS, BoolS)(to_z3(a[1], StrS)))
    sp.models['getattr'] = Func(lambda I_, a, k, n: Func(lambda I2, a2, k2, n2: Obj(I2.fresh('value', ObjS), 'pyvalue')))

    def m_list(I_, a, k, n):
        v = I_.fresh('values', ObjS)
        I_.ctx.assume(z3.Not(is_gen(v)))                 # list(...) is a list
        return Obj(v, 'pyvalue')
    sp.models['list'] = Func(m_list)
    lazy = bool(ctx.choose(2, 'lazy'))
    try:
        r = I.call_function(find_function(EP + 'TransactionEvaluator.evaluate'), [node], {'lazy': lazy} if lazy else {}, self_obj=me)
    except PyRaise:
        ctx.cover('evaluate.raises')
        return
    if not lazy:
        ctx.check('C03.evaluate_never_returns_a_generator_object', z3.BoolVal(False) if not isinstance(r, Obj) else z3.Not(is_gen(r.expr)), 'property')
    ctx.cover('evaluate.returns[lazy=%s]' % lazy)


def harnesses(tier):
    return [Harness('validate_ast', h_validate_ast, [EP + 'validate_ast']),
            Harness('lemma.children_ok', h_children_reading, []),
            Harness('TransactionEvaluator.evaluate.values', h_evaluate_yields_values, [EP + 'TransactionEvaluator.evaluate'])]


# ------------------------------------------------------------------------------------------
SAFE_NAMES = {'len', 'sum', 'any', 'all', 'next', 'min', 'max', 'str', 'bool', 'isinstance', 'set', 'list', 'sorted', 'zip', 'abs', 'round',
              'ExpressionError', 'UnsafeNodeError', 'normalize', 'generator', 'SequenceMatcher', 'range', 'float', 'int', 'dict', 'type', 'cls'}
SAFE_ATTRS = {
    # methods of the evaluator / context classes
    'evaluate', 'get_function', '_parse_date_string', '_eval_comprehension_loop', '_generator_helper', '_is_nested', 'get_payments', 'get_months',
    'get_category', 'get_subcategory', 'get_merchant', 'get_tags', 'get_cv', 'get_total', 'get_by',
    # str / list / dict / set / date methods
    'lower', 'upper', 'strip', 'startswith', 'endswith', 'replace', 'split', 'join', 'get', 'keys', 'values', 'items', 'append', 'add', 'pop',
    'setdefault', 'strftime', 'weekday', 'fromisoformat', 'groups', 'group', 'extend',
    # audited library entry points (warnings.catch_warnings / filterwarnings: the filter list of the warnings module, no I/O - they PREVENT the
    # printing and the source-file read a warning would cause)
    'search', 'sub', 'compile', 'ratio', 'stdev', 'dump', 'catch_warnings', 'filterwarnings',
    # generator.close(): runs the finally blocks of the evaluator's own generator (no I/O: open() is outside every table)
    'close',
}
FORBIDDEN_NODE_TYPES = {'Lambda', 'FunctionDef', 'AsyncFunctionDef', 'ClassDef', 'Import', 'ImportFrom', 'Global', 'Nonlocal', 'JoinedStr',
                        'FormattedValue', 'Starred', 'keyword', 'Await', 'Yield', 'YieldFrom', 'Dict', 'Set', 'List', 'Tuple', 'DictComp',
                        'SetComp', 'Slice', 'Delete', 'Assign', 'AugAssign', 'With', 'Try', 'Raise', 'Assert', 'Exec', 'Pow', 'MatMult',
                        'LShift', 'RShift', 'BitOr', 'BitXor', 'BitAnd', 'FloorDiv', 'Invert', 'Is', 'IsNot', 'TypeAlias', 'Match'}


def _lazy_clause(mod):
    """evaluate(..., lazy=...) is requested only by _eval_argument, and _eval_argument is used only for the iterable argument of the consuming builtins
    inside _eval_Call (sum, any, all, next, min, max): nowhere else can a generator object travel as a value"""
    cnode = mod.classes['TransactionEvaluator']
    bad = []
    for m in cnode.body:
        if not isinstance(m, ast.FunctionDef):
            continue
        for c in ast.walk(m):
            if isinstance(c, ast.Call) and isinstance(c.func, ast.Attribute) and c.func.attr == 'evaluate' and (len(c.args) > 1 or any(k.arg == 'lazy' for k in c.keywords)):
                if m.name != '_eval_argument':
                    bad.append('%s passes lazy to evaluate (line %d)' % (m.name, c.lineno))
            if isinstance(c, ast.Call) and isinstance(c.func, ast.Attribute) and c.func.attr == '_eval_argument' and m.name != '_eval_Call':
                bad.append('%s calls _eval_argument (line %d)' % (m.name, c.lineno))
    # inside _eval_Call: each _eval_argument(...) result flows straight into one of the consuming builtins (directly, or through a local that is only
    # passed to them and to _close_generator)
    call = [m for m in cnode.body if isinstance(m, ast.FunctionDef) and m.name == '_eval_Call']
    consumers = {'sum', 'any', 'all', 'next', 'min', 'max'}
    if call:
        parents = {}
        for n in ast.walk(call[0]):
            for ch in ast.iter_child_nodes(n):
                parents[ch] = n
        for c in ast.walk(call[0]):
            if isinstance(c, ast.Call) and isinstance(c.func, ast.Attribute) and c.func.attr == '_eval_argument':
                p_ = parents.get(c)
                if isinstance(p_, ast.Call) and isinstance(p_.func, ast.Name) and p_.func.id in consumers:
                    continue
                if isinstance(p_, ast.Assign) and len(p_.targets) == 1 and isinstance(p_.targets[0], ast.Name):
                    local = p_.targets[0].id
                    uses = [u for u in ast.walk(call[0]) if isinstance(u, ast.Name) and u.id == local and isinstance(u.ctx, ast.Load)]
                    ok_uses = all(isinstance(parents.get(u), ast.Call) and ((isinstance(parents[u].func, ast.Name) and parents[u].func.id in consumers) or
                                                                               (isinstance(parents[u].func, ast.Attribute) and parents[u].func.attr == '_close_generator')) for u in uses)
                    if ok_uses:
                        continue
                bad.append('_eval_argument result used outside sum/any/all/next/min/max (line %d)' % c.lineno)
    return frames.Clause(EP + 'TransactionEvaluator.evaluate#lazy_only_for_consuming_functions', not bad,
                         'lazy evaluation is requested by _eval_argument only, for the iterable of sum/any/all/next/min/max' if not bad else '; '.join(bad), kind='auxiliary')


def structural(tier, res):
    out = []
    mod = extract.module('tally.expr_parser')
    out.append(_lazy_clause(mod))
    classes = ['TransactionEvaluator', 'TransactionContext', 'ExpressionEvaluator', 'ExpressionContext']
    for cname in classes:
        cnode = mod.classes[cname]
        for n in cnode.body:
            if not isinstance(n, ast.FunctionDef):
                continue
            q = EP + '%s.%s' % (cname, n.name)
            fi = find_function(q)
            res.functions[q] = fi.describe()
            allowed_names = set(SAFE_NAMES)
            # methods defined in the four classes are callees under this same clause (the closure is over the classes, so extracting a helper
            # method is not an alarm: the helper gets its own calls / assigns clauses); everything else must be in the audited table
            allowed_attrs = set(SAFE_ATTRS) | {m.name for c in classes for m in mod.classes[c].body if isinstance(m, ast.FunctionDef)}
            computed_ok = False
            if n.name == 'evaluate':
                # audited dispatch pattern:  method = f'_eval_{type(node).__name__}';  getattr(self, method)(node)
                ok = _dispatch_pattern(n, '_eval_')
                out.append(frames.Clause(q + '#dispatch_closed', ok, "evaluate() resolves only '_eval_' + type(node).__name__" if ok else
                                         'dispatch is not the audited pattern', kind='auxiliary'))
                if ok:
                    # only the audited pattern may use getattr: otherwise getattr is an escaping construct of the calls clause (property)
                    allowed_names |= {'hasattr', 'getattr'}
                computed_ok = ok
            if n.name == 'get_function' and cname == 'TransactionContext':
                ok = _get_function_pattern(n, cnode)
                out.append(frames.Clause(q + '#dispatch_closed', ok, "get_function() resolves only abs, round and '_fn_' + name for name in the literal _FUNCTION_NAMES"
                                         if ok else 'get_function is not the audited pattern', kind='auxiliary'))
                if ok:
                    allowed_names |= {'getattr'}
            if n.name == '__init__':
                allowed_names |= {'weekday'}
            if n.name in ('_eval_Attribute',) and cname == 'TransactionEvaluator':
                # getattr(self.ctx, 'source', '') / getattr(self.ctx, 'location', '') with constant names only
                allowed_names |= {'getattr'} if _getattr_constant_only(n) else set()
            if n.name == 'from_transaction':
                allowed_names |= {'cls'}
            cl = frames.check_calls(fi, allowed_names, allowed_attrs)
            if computed_ok:
                # the single computed callee `getattr(self, method)(node)` is covered by the dispatch clause above
                for c in cl:
                    if c.ok is False:
                        rest = [d for d in c.detail.split('; ') if 'computed callee `getattr(self, method)`' not in d]
                        c.ok = not rest
                        c.detail = '; '.join(rest) if rest else 'all calls resolve inside the closed table'
            if n.name == '_eval_Call' or (cname.startswith('Expression') and n.name == '_eval_Call'):
                # func(*args): func is the result of get_function (closed by its clause)
                for c in cl:
                    if c.ok is False:
                        rest = [d for d in c.detail.split('; ') if 'call of unlisted name func' not in d]
                        c.ok = not rest
                        c.detail = '; '.join(rest) if rest else 'all calls resolve inside the closed table'
                ok = _func_from_get_function(n)
                out.append(frames.Clause(q + '#callee_from_get_function', ok, 'func is bound only from self.ctx.get_function(...)' if ok else 'func may come from elsewhere', kind='auxiliary'))
            out.extend(cl)
            al = []
            if cname == 'TransactionEvaluator':
                al = ['self._scope'] + (['result'] if n.name == '_eval_comprehension_loop' else [])
            if cname in ('TransactionContext', 'ExpressionContext') and n.name == '__init__':
                al = ['self']
            if cname in ('TransactionEvaluator', 'ExpressionEvaluator') and n.name == '__init__':
                al = ['self']
            # the statement confines writes to the evaluator scope and the two module caches; WHICH function may write a cache, and with which
            # key, is the representation invariant of C07, not a confinement question
            al = al + ['_regex_cache', '_expression_cache']
            out.extend(frames.check_assigns(fi, set(al), {'from_transaction', 'get_function', 'evaluate', 'fromisoformat', '_parse_date_string',
                                                           'SequenceMatcher', 'compile', 'get_by', 'get_payments', 'normalize'}))
    for fn, names, attrs, al in (('parse_expression', {'validate_ast', 'ExpressionError'}, {'parse', 'catch_warnings', 'filterwarnings'}, ['_expression_cache']),
                                 ('validate_ast', {'validate_ast', 'type', 'isinstance', 'UnsafeNodeError'}, {'iter_child_nodes'}, []),
                                 ('evaluate_transaction', {'parse_expression', 'TransactionEvaluator'}, {'from_transaction', 'evaluate'}, []),
                                 ('evaluate_transaction_ast', {'TransactionEvaluator'}, {'from_transaction', 'evaluate'}, []),
                                 ('matches_transaction', {'bool', 'evaluate_transaction'}, set(), []),
                                 ('evaluate', {'parse_expression', 'ExpressionEvaluator'}, {'evaluate'}, []),
                                 ('evaluate_ast', {'ExpressionEvaluator'}, {'evaluate'}, [])):
        fi = find_function(EP + fn)
        res.functions[EP + fn] = fi.describe()
        out.extend(frames.check_calls(fi, names, attrs))
        out.extend(frames.check_assigns(fi, set(al), {'parse', 'parse_expression', 'from_transaction'}))
    # the parser entry point is ast.parse(expr, mode='eval') and nothing else
    fi = find_function(EP + 'parse_expression')
    parses = [n for n in ast.walk(fi.node) if isinstance(n, ast.Call) and ast.unparse(n.func) == 'ast.parse']
    ok = len(parses) == 1 and any(k.arg == 'mode' and isinstance(k.value, ast.Constant) and k.value.value == 'eval' for k in parses[0].keywords)
    out.append(frames.Clause(EP + 'parse_expression#only_eval_mode_parse', ok, "single ast.parse(expr, mode='eval')" if ok else 'parser entry changed'))
    # the whitelist contains no node type outside the expression fragment the evaluators implement
    wl = mod.globals_const.get('ALLOWED_NODES')
    names = []
    if isinstance(wl, ast.Set):
        names = [ast.unparse(e).split('.')[-1] for e in wl.elts]
    bad = sorted(set(names) & FORBIDDEN_NODE_TYPES)
    out.append(frames.Clause(EP + 'ALLOWED_NODES#no_code_creating_nodes', bool(names) and not bad,
                             '%d whitelisted node types, none creates code or collections' % len(names) if names and not bad else
                             ('whitelist contains %s' % bad if bad else 'ALLOWED_NODES is not a set display')))
    return out


def _dispatch_pattern(fn, prefix):
    """method = f'<prefix>{type(node).__name__}' ; every getattr in fn is getattr(self, method)"""
    bound_ok = False
    for n in ast.walk(fn):
        if isinstance(n, ast.Assign) and len(n.targets) == 1 and isinstance(n.targets[0], ast.Name) and n.targets[0].id == 'method':
            v = n.value
            if isinstance(v, ast.JoinedStr) and len(v.values) == 2 and isinstance(v.values[0], ast.Constant) and v.values[0].value == prefix \
                    and isinstance(v.values[1], ast.FormattedValue) and ast.unparse(v.values[1].value) == 'type(node).__name__':
                bound_ok = True
            else:
                return False
    for n in ast.walk(fn):
        if isinstance(n, ast.Call) and isinstance(n.func, ast.Name) and n.func.id in ('getattr', 'hasattr'):
            if not (len(n.args) == 2 and ast.unparse(n.args[0]) == 'self' and isinstance(n.args[1], ast.Name) and n.args[1].id == 'method'):
                return False
    return bound_ok


def _get_function_pattern(fn, cnode):
    names_literal = False
    for n in cnode.body:
        tgt = n.target if isinstance(n, ast.AnnAssign) else (n.targets[0] if isinstance(n, ast.Assign) else None)
        if isinstance(tgt, ast.Name) and tgt.id == '_FUNCTION_NAMES':
            v = n.value
            names_literal = isinstance(v, ast.Set) and all(isinstance(e, ast.Constant) and isinstance(e.value, str) and e.value.isidentifier() for e in v.elts)
    ok = names_literal
    for n in ast.walk(fn):
        if isinstance(n, ast.Call) and isinstance(n.func, ast.Name) and n.func.id == 'getattr':
            a = n.args
            good = len(a) >= 2 and ast.unparse(a[0]) == 'self' and isinstance(a[1], ast.JoinedStr) and len(a[1].values) == 2 \
                and isinstance(a[1].values[0], ast.Constant) and a[1].values[0].value == '_fn_' \
                and ast.unparse(a[1].values[1].value) == 'name'
            # must sit under `if name in self._FUNCTION_NAMES:`
            guarded = False
            for m in ast.walk(fn):
                if isinstance(m, ast.If) and ast.unparse(m.test) == 'name in self._FUNCTION_NAMES' and any(x is n for y in m.body for x in ast.walk(y)):
                    guarded = True
            ok = ok and good and guarded
    for n in ast.walk(fn):
        if isinstance(n, ast.Return) and n.value is not None:
            t = ast.unparse(n.value)
            if not (t in ('abs', 'round', 'None') or t.startswith("getattr(self, f'_fn_")):
                ok = False
    return ok


def _getattr_constant_only(fn):
    for n in ast.walk(fn):
        if isinstance(n, ast.Call) and isinstance(n.func, ast.Name) and n.func.id == 'getattr':
            if not (len(n.args) >= 2 and ast.unparse(n.args[0]) == 'self.ctx' and isinstance(n.args[1], ast.Constant)
                    and n.args[1].value in ('source', 'location')):
                return False
    return True


def _func_from_get_function(fn):
    ok = False
    for n in ast.walk(fn):
        if isinstance(n, ast.Assign) and any(isinstance(t, ast.Name) and t.id == 'func' for t in n.targets):
            if ast.unparse(n.value).startswith('self.ctx.get_function('):
                ok = True
            else:
                return False
    return ok


ORACLES = [
    {'name': 'escape corpus and every documented construct, evaluated under a Python audit hook with deep before/after comparison of the '
             'transaction, rows, variables and parsed tree; result values must be plain data', 'script': 'C03.py',
     'bound': '~150 expression texts (classic sandbox escapes, attribute/introspection names, context attribute names) x 2 evaluators x 3 positions'},
]
TRUSTED_BASE = [
    'pyvc symbolic executor and structural checker (pyvc/frames.py)', 'z3 5.1.0 / cvc5 1.0.3',
    'A7: ast.iter_child_nodes yields all children; ast.parse is the CPython parser',
    'the closed callee table SAFE_NAMES / SAFE_ATTRS (audited by hand: pure builtins, str/list/dict/set/date methods, re.search/sub/compile, '
    'difflib.SequenceMatcher.ratio, statistics.stdev, ast.dump)',
]
ASSUMPTIONS = ['resource exhaustion (huge repetitions, catastrophic regexes) is outside the statement', 'A8 no monkey patching of the evaluator classes']
EXPLANATION = ('validate_ast proved by structural induction (symbolic execution, loop invariant over the children, recursive call replaced by the '
               'contract); dispatch closure, calls and assigns clauses for every evaluator method decided syntactically; bounded stand-in (labelled): '
               'escape corpus under an audit hook.')
