"""C11 part 2: config_loader.load_config - rules-file selection, rule-mode validation, view loading (also the basis of C15's effective_rules)."""
import z3

from pyvc.core import Unsupported
from pyvc.extract import find_function
from pyvc.interp import Interp, Spec, PyRaise
from pyvc.runner import Harness
from pyvc.values import SymSeq, Rec, Obj, Func, Untracked, UF, StrS, IntS, BoolS, ObjS, to_z3

from props import cmd_common as cc

LC = 'tally.config_loader.load_config'
LoadSections = UF('load_sections', StrS, ObjS)
LoadSectionsErr = UF('load_sections.raises', StrS, BoolS)
sv = z3.StringVal


def selection(config_dir_abs, merchants_setting):
    """(file, format) the statement prescribes: setting -> .rules file if it exists; else the legacy CSV if it exists; else none"""
    csv = cc.join(config_dir_abs, sv('merchant_categories.csv'))
    if merchants_setting is None:
        return z3.If(cc.Exists(csv), 1, 0), csv, 'csv'
    path = cc.join(cc.dirname(config_dir_abs), merchants_setting)
    return z3.If(cc.Exists(path), 1, 0), path, 'new'


def h_load_config(ctx):
    sp = Spec()
    I = Interp(ctx, sp)
    w = cc.World(ctx, sp)
    sp.exc_table.update({'SectionParseError': 'ValueError', 'FileNotFoundError': 'OSError'})
    sp.models.pop('load_config', None)
    has_m = bool(ctx.choose(2, 'merchants_file_setting'))
    has_v = bool(ctx.choose(2, 'views_file_setting'))
    mset = ctx.fresh('settings.merchants_file', StrS) if has_m else None
    vset = ctx.fresh('settings.views_file', StrS) if has_v else None
    mode = ctx.fresh('settings.rule_mode', StrS)
    if has_m:
        ctx.assume(z3.Length(mset) > 0)
    if has_v:
        ctx.assume(z3.Length(vset) > 0)
    settings = {'rule_mode': mode, 'data_sources': None}
    if has_m:
        settings['merchants_file'] = mset
    if has_v:
        settings['views_file'] = vset
    sp.models['load_settings'] = Func(lambda I_, a, k, n: settings)
    sp.models['os.path.isdir'] = Func(lambda I_, a, k, n: True)

    def m_sections(I_, a, k, n):
        p = to_z3(a[0], StrS)
        if I_.ctx.branch(LoadSectionsErr(p), 'load_sections.raises'):
            raise PyRaise('SectionParseError', (), 'load_sections')
        return Obj(LoadSections(p), 'views')
    sp.models['load_sections'] = Func(m_sections)
    cd = ctx.fresh('config_dir_arg', StrS)
    fi = find_function(LC)
    try:
        cfg = I.call_function(fi, [cd])
    except PyRaise as e:
        ctx.check('C11.load_config.raises_nothing_for_an_existing_directory', False, 'property', meta={'escaping': e.cls})
        return
    if not isinstance(cfg, dict):
        raise Unsupported('load_config must return the settings dict')
    acd = cc.abspath(cd)
    found, path, fmtname = selection(acd, mset)
    mf, mfmt = cfg.get('_merchants_file', 'missing'), cfg.get('_merchants_format', 'missing')
    if mf is None:
        ctx.check('C11.load_config.no_rules_file_only_when_none_exists', found == 0, 'property')
        ctx.check('C11.load_config.format_none_with_no_file', mfmt is None, 'property')
    elif mf == 'missing':
        ctx.check('C11.load_config.sets_merchants_file', False, 'property')
    else:
        ctx.check('C11.load_config.rules_file_is_the_selected_one', z3.And(found == 1, to_z3(mf, StrS) == path), 'property')
        ctx.check('C11.load_config.rules_format', mfmt == fmtname, 'property')
    rm = cfg.get('rule_mode')
    rmz = to_z3(rm, StrS)
    ctx.check('C11.load_config.rule_mode_is_valid', z3.Or(rmz == sv('first_match'), rmz == sv('most_specific')), 'property')
    ctx.check('C11.load_config.rule_mode_is_the_configured_one',
              z3.Implies(z3.Or(mode == sv('first_match'), mode == sv('most_specific')), rmz == mode), 'property')
    sec = cfg.get('sections', 'missing')
    if has_v:
        vpath = cc.join(cc.dirname(acd), vset)
        if sec is None:
            ctx.check('C11.load_config.views_absent_only_if_missing_or_broken', z3.Or(z3.Not(cc.Exists(vpath)), LoadSectionsErr(vpath)), 'property')
            warn = cfg.get('_warnings')
            ctx.check('C11.load_config.broken_or_missing_views_are_reported', isinstance(warn, list) and len(warn) >= 1, 'property')
        elif isinstance(sec, Obj):
            ctx.check('C11.load_config.views_are_the_configured_file', z3.And(cc.Exists(vpath), sec.expr == LoadSections(vpath)), 'property')
        else:
            ctx.check('C11.load_config.sets_sections', False, 'property')
    else:
        ctx.check('C11.load_config.no_views_without_setting', sec is None, 'property')
    ctx.check('C11.load_config.data_sources_is_a_list', cfg.get('data_sources') == [], 'property')
    ctx.cover('load_config.returns')


def harnesses(tier):
    return [Harness('load_config', h_load_config, [LC])]
