"""C04 - _eval_Compare of both evaluators: a chain is the left-to-right conjunction of its links, each link compares the values of two adjacent
operands (never a value carried over in coerced form), with the reference's link meaning: string == / != fold case, string `in` folds case, a date
against a string parses the string as an ISO date.

Values have unknown dynamic type: isinstance tests, Python's comparison operators, str.lower / str.upper and date parsing are uninterpreted functions
of the operand values (A2), so the obligations say which operator is applied to which (folded / parsed) operands, in which order."""
import ast

import z3

from pyvc.extract import find_function
from pyvc.ghost import Ghost
from pyvc.interp import Interp, Spec, LoopSpec, PyRaise, Frame
from pyvc.runner import Harness
from pyvc.values import SymSeq, Rec, Obj, Func, UF, IntS, BoolS, ObjS, to_z3
from props.C04 import evaluator, Err, Val, EP, SeqObj

OPS = ['Eq', 'NotEq', 'Lt', 'LtE', 'Gt', 'GtE', 'In', 'NotIn']
is_a = lambda cls, v: UF('isinstance_' + cls, ObjS, BoolS)(v)
PyEq = UF('py.eq', ObjS, ObjS, BoolS)
PyIn = UF('py.in', ObjS, ObjS, BoolS)          # PyIn(item, container)
PyOrd = {n: UF('py.' + n.lower(), ObjS, ObjS, BoolS) for n in ('Lt', 'LtE', 'Gt', 'GtE')}
Lower = UF('py.str.lower', ObjS, ObjS)
Upper = UF('py.str.upper', ObjS, ObjS)
LangMember = UF('lang.member', ObjS, ObjS, BoolS)             # item equals some element of the collection under the language's ==, and no earlier element fails
LangMemberFails = UF('lang.member.raises', ObjS, ObjS, BoolS)  # the first element that decides is a date / non-ISO-string pair
Elems = UF('py.elements', ObjS, z3.SeqSort(ObjS))             # the elements of a list / tuple / set value in iteration order
ParseDate = UF('date.fromisoformat', ObjS, ObjS)
DateOk = UF('date.fromisoformat.ok', ObjS, BoolS)


def is_collection(v):
    return z3.Or(is_a('list', v), is_a('tuple', v), is_a('set', v), is_a('frozenset', v))


def link_meaning(cls, op, l, r):
    """(fails, holds) of one link `l op r`, read from the language reference"""
    if cls == 'TransactionEvaluator':
        c1 = z3.And(is_a('date', l), is_a('str', r))                    # date >= "2025-01-01"
        c2 = z3.And(z3.Not(c1), is_a('str', l), is_a('date', r))        # "2025-01-01" <= date
        fails = z3.Or(z3.And(c1, z3.Not(DateOk(r))), z3.And(c2, z3.Not(DateOk(l))))
        l, r = z3.If(c2, ParseDate(l), l), z3.If(c1, ParseDate(r), r)
        text_in = z3.And(is_a('str', r), is_a('str', l))
        # x in <list / tuple / set>: any(x == e for e in ...) with the == of the language (contract of _in_collection, proved in h_in_collection)
        coll = z3.And(z3.Not(is_a('str', r)), is_collection(r))
        member = z3.If(text_in, PyIn(Upper(l), Upper(r)), z3.If(coll, LangMember(l, r), PyIn(l, r)))   # "netflix" in description: letter case ignored
        fails = z3.Or(fails, z3.And(z3.Or(is_a('In', op), is_a('NotIn', op)), z3.Not(is_a('Eq', op)), z3.Not(is_a('NotEq', op)), z3.Not(is_a('Lt', op)),
                                    z3.Not(is_a('LtE', op)), z3.Not(is_a('Gt', op)), z3.Not(is_a('GtE', op)), coll, LangMemberFails(l, r)))
    else:
        fails = z3.BoolVal(False)
        member = z3.If(z3.And(is_a('set', r), is_a('str', l)), PyIn(Lower(l), r), PyIn(l, r))      # "Recurring" in tags: tags are lower-cased
    both_text = z3.And(is_a('str', l), is_a('str', r))
    equal = z3.If(both_text, PyEq(Lower(l), Lower(r)), PyEq(l, r))
    holds = z3.BoolVal(False)
    unknown = z3.BoolVal(True)
    table = {'Eq': equal, 'NotEq': z3.Not(equal), 'In': member, 'NotIn': z3.Not(member)}
    for n in ('Lt', 'LtE', 'Gt', 'GtE'):
        table[n] = PyOrd[n](l, r)
    for n in reversed(OPS):
        holds = z3.If(is_a(n, op), table[n], holds)
        unknown = z3.And(unknown, z3.Not(is_a(n, op)))
    return z3.Or(fails, unknown), holds


def value_models(sp, I):
    def m_parse(I_, a, k, n):
        v = to_z3(a[0])
        if not I_.ctx.branch(DateOk(v), 'iso_date_ok'):
            raise PyRaise('ExpressionError', (), '_parse_date_string')
        return Obj(ParseDate(v), 'pyvalue')
    sp.models['self._parse_date_string'] = Func(m_parse)

    def m_in_collection(I_, a, k, n):
        item, coll = to_z3(a[0]), to_z3(a[1])
        if I_.ctx.branch(LangMemberFails(item, coll), 'in_collection.raises'):
            raise PyRaise('ExpressionError', (), '_in_collection')
        return LangMember(item, coll)
    sp.models['self._in_collection'] = Func(m_in_collection)
    orig_method, orig_compare = I.method, I.compare

    def method(o, attr, args, kwargs, node):
        if isinstance(o, Obj) and o.cls == 'pyvalue' and attr in ('lower', 'upper') and not args:
            return Obj((Lower if attr == 'lower' else Upper)(o.expr), 'pyvalue')
        return orig_method(o, attr, args, kwargs, node)

    def compare(op, a, b, node):
        if isinstance(a, Obj) and isinstance(b, Obj) and a.cls == b.cls == 'pyvalue':
            if isinstance(op, ast.Eq):
                return PyEq(a.expr, b.expr)
            if isinstance(op, ast.NotEq):
                return z3.Not(PyEq(a.expr, b.expr))
            if isinstance(op, ast.In):
                return PyIn(a.expr, b.expr)
            if isinstance(op, ast.NotIn):
                return z3.Not(PyIn(a.expr, b.expr))
            return PyOrd[type(op).__name__](a.expr, b.expr)
        return orig_compare(op, a, b, node)
    I.method, I.compare = method, compare


def h_compare(cls):
    def h(ctx):
        sp, I, me = evaluator(ctx, cls)
        value_models(sp, I)
        q = EP + cls + '._eval_Compare'
        fi = find_function(q)
        ops, comps = ctx.fresh('node.ops', SeqObj), ctx.fresh('node.comparators', SeqObj)
        left0 = ctx.fresh('node.left', ObjS)
        ctx.assume(z3.Length(ops) == z3.Length(comps))          # ast.Compare: one operator per comparator (A: Python's parser)
        n = z3.Length(ops)
        node = Rec('Compare', {'left': Obj(left0, 'ast'), 'ops': SymSeq([ops], None, ['astop']), 'comparators': SymSeq([comps], None, ['ast'])})
        sp.models['zip'] = Func(lambda I_, a, k, nd: SymSeq([a[0].cols[0], a[1].cols[0]], 2, ['astop', 'ast']))

        def X(k):           # value of operand k of the chain: operand 0 is node.left, operand k is comparator k-1
            return z3.If(k == 0, Val(left0), Val(comps[k - 1]))

        def stop(s_ops, s_comps, k):
            fails, holds = link_meaning(cls, s_ops[k], X(k), Val(s_comps[k]))
            return z3.Or(Err(s_comps[k]), fails, z3.Not(holds))
        FS = Ghost('FirstStop.compare.' + cls, [SeqObj, SeqObj], IntS, base=lambda a, b: z3.IntVal(-1),
                   step=lambda a, b, k, acc: z3.If(acc >= 0, acc, z3.If(stop(a, b, k), k, -1)))
        fr = Frame(fi, {})

        def stable(I_, env, k, it):
            return [z3.Implies(FS(ops, comps, k + 1) >= 0, FS(ops, comps, n) == FS(ops, comps, k + 1))] + FS.unfold(ops, comps, k)

        def inv(I_, env, k, it):
            return {'no_link_decided_yet': FS(ops, comps, k) == -1,
                    'left_is_the_own_value_of_operand_k': z3.BoolVal(isinstance(env['left'], Obj)) if not isinstance(env['left'], Obj) else env['left'].expr == X(k)}
        for nd in ast.walk(fi.node):
            if isinstance(nd, ast.For):
                sp.loops[(q, fr.loop_ordinals[id(nd)])] = LoopSpec(inv, {'left': lambda c: Obj(c.fresh('left', ObjS), 'pyvalue')}, kind='property',
                                                                   unfold=lambda I_, env, k, it: FS.unfold(ops, comps, k), exit_facts=stable)
        for f in FS.unfold(ops, comps, z3.IntVal(-1)):
            ctx.assume(f)
        W = FS(ops, comps, n)
        fails_W, holds_W = link_meaning(cls, ops[W], X(W), Val(comps[W]))
        tag = cls + '.compare'
        try:
            r = I.call_function(fi, [node], {}, self_obj=me)
        except PyRaise as e:
            ctx.check('C04.%s.raises_only_expression_error' % tag, I.is_subclass(e.cls, 'ExpressionError'), 'property')
            ctx.check('C04.%s.fails_iff_first_operand_or_the_deciding_link_fails' % tag,
                      z3.Or(Err(left0), z3.And(W >= 0, z3.Or(Err(comps[W]), fails_W))), 'property')
            ctx.cover('%s.raises' % tag)
            return
        ctx.check('C04.%s.result_is_boolean' % tag, isinstance(r, bool), 'property')
        if not isinstance(r, bool):
            return
        if r:
            ctx.check('C04.%s.chain_is_conjunction_of_links.true_iff_every_link_holds' % tag, z3.And(z3.Not(Err(left0)), W == -1), 'property')
        else:
            ctx.check('C04.%s.chain_is_conjunction_of_links.false_at_first_link_that_does_not_hold' % tag,
                      z3.And(z3.Not(Err(left0)), W >= 0, z3.Not(Err(comps[W])), z3.Not(fails_W), z3.Not(holds_W)), 'property')
        ctx.cover('%s.returns' % tag)
    return h


def h_in_collection(ctx):
    """TransactionEvaluator._in_collection(item, collection): the elements are tried in order with the == link of the language (letter case of strings
    ignored, a date against an ISO string); the first element that is equal makes it True, the first pair that cannot be compared (a date against a
    string that is no ISO date) before that fails; False when no element decides.  This is what `x in lst` == any(x == e for e in lst) means."""
    cls = 'TransactionEvaluator'
    sp, I, me = evaluator(ctx, cls)
    value_models(sp, I)
    del sp.models['self._in_collection']
    q = EP + cls + '._in_collection'
    fi = find_function(q)
    item, coll = ctx.fresh('item', ObjS), ctx.fresh('collection', ObjS)
    elems = Elems(coll)
    n = z3.Length(elems)
    eq_op = ctx.fresh('Eq', ObjS)
    ctx.assume(is_a('Eq', eq_op))

    def decides(s, k):
        fails, holds = link_meaning(cls, eq_op, item, s[k])
        return z3.Or(fails, holds)
    FH = Ghost('FirstDecidingElement', [SeqObj], IntS, base=lambda s_: z3.IntVal(-1), step=lambda s_, k, acc: z3.If(acc >= 0, acc, z3.If(decides(s_, k), k, -1)))
    fr = Frame(fi, {})

    def stable(I_, env, k, it):
        return [z3.Implies(FH(elems, k + 1) >= 0, FH(elems, n) == FH(elems, k + 1))] + FH.unfold(elems, k)
    for nd in ast.walk(fi.node):
        if isinstance(nd, ast.For):
            sp.loops[(q, fr.loop_ordinals[id(nd)])] = LoopSpec(lambda I_, env, k, it: {'no_element_decided_yet': FH(elems, k) == -1},
                                                               {'left': lambda c: Obj(c.fresh('left', ObjS), 'pyvalue'), 'right': lambda c: Obj(c.fresh('right', ObjS), 'pyvalue')},
                                                               kind='property', unfold=lambda I_, env, k, it: FH.unfold(elems, k), exit_facts=stable)
    for f in FH.unfold(elems, z3.IntVal(-1)):
        ctx.assume(f)
    W = FH(elems, n)
    fails_W, holds_W = link_meaning(cls, eq_op, item, elems[W])
    try:
        r = I.call_function(fi, [Obj(item, 'pyvalue'), SymSeq([elems], None, ['pyvalue'])], {}, self_obj=me)
    except PyRaise as e:
        ctx.check('C04.in_collection.raises_only_expression_error', I.is_subclass(e.cls, 'ExpressionError'), 'property')
        ctx.check('C04.in_collection.fails_iff_the_first_deciding_element_cannot_be_compared', z3.And(W >= 0, fails_W), 'property')
        ctx.cover('in_collection.raises')
        return
    ctx.check('C04.in_collection.result_is_boolean', isinstance(r, bool), 'property')
    if not isinstance(r, bool):
        return
    if r:
        ctx.check('C04.in_collection.true_iff_first_deciding_element_is_equal', z3.And(W >= 0, z3.Not(fails_W), holds_W), 'property')
    else:
        ctx.check('C04.in_collection.false_iff_no_element_decides', W == -1, 'property')
    ctx.cover('in_collection.returns')


def h_lemma(ctx):
    """lemma.first_stop_stable for the compare ghost (any stop predicate): FS(k) >= 0 and m >= k => FS(m+1) = FS(k), by induction on m"""
    stopf = UF('any.stop', SeqObj, SeqObj, IntS, BoolS)
    FS = Ghost('FirstStop.generic', [SeqObj, SeqObj], IntS, base=lambda a, b: z3.IntVal(-1),
               step=lambda a, b, k, acc: z3.If(acc >= 0, acc, z3.If(stopf(a, b, k), k, -1)))
    a, b = ctx.fresh('ops', SeqObj), ctx.fresh('comps', SeqObj)
    k, m = ctx.fresh('k', IntS), ctx.fresh('m', IntS)
    for f in FS.unfold(a, b, m) + FS.unfold(a, b, k):
        ctx.assume(f)
    ctx.assume(z3.And(k >= 0, m >= k))
    ctx.assume(z3.Implies(FS(a, b, k) >= 0, FS(a, b, m) == FS(a, b, k)))
    ctx.check('lemma.first_stop_stable.compare.step', z3.Implies(FS(a, b, k) >= 0, FS(a, b, m + 1) == FS(a, b, k)), 'property')
    j = z3.Int('j')
    R = lambda kk: z3.And(z3.Implies(FS(a, b, kk) == -1, z3.ForAll([j], z3.Implies(z3.And(j >= 0, j < kk), z3.Not(stopf(a, b, j))))),
                          z3.Implies(FS(a, b, kk) != -1, z3.And(FS(a, b, kk) >= 0, FS(a, b, kk) < kk, stopf(a, b, FS(a, b, kk)),
                                                                z3.ForAll([j], z3.Implies(z3.And(j >= 0, j < FS(a, b, kk)), z3.Not(stopf(a, b, j)))))))
    ctx.check('lemma.first_stop_is_least.compare.base', R(z3.IntVal(0)), 'property')
    ctx.assume(R(m))
    ctx.check('lemma.first_stop_is_least.compare.step', R(m + 1), 'property')


def harnesses(tier):
    return [Harness('%s._eval_Compare' % cls, h_compare(cls), [EP + cls + '._eval_Compare']) for cls in ('TransactionEvaluator', 'ExpressionEvaluator')] + \
        [Harness('TransactionEvaluator._in_collection', h_in_collection, [EP + 'TransactionEvaluator._in_collection'], prune=True), Harness('lemma.first_stop.compare', h_lemma, [])]
