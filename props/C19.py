"""C19 - every rule that discover suggests matches the transaction it was suggested for.

Deductive part (structure of the emitted text, for all merchant names / patterns / tags): suggest_merchants_rule returns exactly
    [<name>] / match: <suggest_match_expr(pattern)> / category: CATEGORY / subcategory: SUBCATEGORY [/ tags: ...]
and the string literal built for one word is '"' + escape(word) + '"' with backslash and quote escaped (in that order).
That each emitted word is a substring of the upper-cased description, and that the Python literal decodes back to the word, depends on the
regular-expression semantics of suggest_pattern (A6) and on Python's string-literal tokenizer: bounded stand-in only.
"""
import ast

import z3

from pyvc.core import Unsupported
from pyvc.extract import find_function
from pyvc.interp import Interp, Spec, PyRaise, Closure
from pyvc.runner import Harness
from pyvc.values import SymSeq, Rec, Obj, Func, Untracked, UF, StrS, IntS, BoolS, ObjS, to_z3

LEVEL = 'other'
MIN_OBLIGATIONS = 3
D = 'tally.commands.discover.'
sv = z3.StringVal
MatchExpr = UF('suggest_match_expr', StrS, StrS)
replace_all = UF('py.str.replace', StrS, StrS, StrS, StrS)


def h_rule_text(ctx):
    sp = Spec()
    I = Interp(ctx, sp)
    sp.models['suggest_match_expr'] = Func(lambda I_, a, k, n: MatchExpr(to_z3(a[0], StrS)))
    name, pattern = ctx.fresh('merchant_name', StrS), ctx.fresh('pattern', StrS)
    which = ctx.choose(3, 'tags')
    t1, t2 = ctx.fresh('tag1', StrS), ctx.fresh('tag2', StrS)
    tags = [None, [t1], [t1, t2]][which]
    r = I.call_function(find_function(D + 'suggest_merchants_rule'), [name, pattern], {'tags': tags})
    want = z3.Concat(sv('['), name, sv(']\nmatch: '), MatchExpr(pattern), sv('\ncategory: CATEGORY\nsubcategory: SUBCATEGORY'))
    if which == 1:
        want = z3.Concat(want, sv('\ntags: '), t1)
    elif which == 2:
        want = z3.Concat(want, sv('\ntags: '), t1, sv(', '), t2)
    ctx.check('C19.rule_text_has_header_match_category_subcategory_lines[tags=%d]' % which, to_z3(r, StrS) == want, 'property')
    ctx.cover('suggest_merchants_rule.returns')


def h_literal(ctx):
    """the nested helper `literal` of suggest_match_expr: quote + escape backslash, then quote"""
    sp = Spec()
    I = Interp(ctx, sp)
    fi = find_function(D + 'suggest_match_expr')
    lit = [n for n in ast.walk(fi.node) if isinstance(n, ast.FunctionDef) and n.name == 'literal']
    if not lit:
        raise Unsupported('suggest_match_expr.literal not found')
    from pyvc import extract
    lfi = extract.FunctionInfo(fi.qualname + '.<locals>.literal', fi.mod, lit[0])
    w = ctx.fresh('word', StrS)
    r = I.call_function(lfi, [w])
    esc = replace_all(replace_all(w, sv('\\'), sv('\\\\')), sv('"'), sv('\\"'))
    ctx.check('C19.word_literal_is_quoted_and_escaped', to_z3(r, StrS) == z3.Concat(sv('"'), esc, sv('"')), 'property')
    ctx.cover('literal.returns')


def harnesses(tier):
    return [Harness('suggest_merchants_rule', h_rule_text, [D + 'suggest_merchants_rule']),
            Harness('suggest_match_expr.literal', h_literal, [D + 'suggest_match_expr'])]


ORACLES = [
    {'name': 'descriptions built from a token set (store numbers, state suffixes, processor prefixes, regex metacharacters, quotes, backslashes, non-ASCII case mappings): '
             'the suggested rule must load and match its description; discover -> append suggestions -> discover must empty the Unknown list', 'script': 'C19.py',
     'bound': 'all ordered selections of <= 2 tokens (x 7 prefixes x 2 separators), 1/11 of the 3-token ones (quick) / half of them and 1/97 of 4-token ones (thorough), from 38 tokens'},
]
TRUSTED_BASE = ['pyvc symbolic executor', 'z3 5.1.0 / cvc5 1.0.3', 'str.replace uninterpreted',
                'regular-expression semantics of suggest_pattern and the Python string-literal tokenizer are NOT modelled: the matching direction is bounded-only']
ASSUMPTIONS = ['A6']
EXPLANATION = ('Only the structure of the emitted rule text and the escaping of one word are discharged deductively (symbolic execution, z3). The sentence "the suggested rule matches the '
               'description" needs regular-expression and tokenizer semantics that no contract within reach expresses: it is decided by the labelled bounded stand-in only, so the level is "other".')
