"""C19 - every rule that discover suggests matches the transaction it was suggested for.

Deductive part (structure of the emitted text, for all merchant names / patterns / tags): suggest_merchants_rule returns exactly
    [<name>] / match: <suggest_match_expr(pattern)> / category: CATEGORY / subcategory: SUBCATEGORY [/ tags: ...]
and the string literal built for one word is a quote, what stands for each of its characters (backslash and quote escaped, printable characters as
themselves, anything else as a printable escape), and a quote.
That each emitted word is a substring of the upper-cased description, and that the Python literal decodes back to the word, depends on the
regular-expression semantics of suggest_pattern (A6) and on Python's string-literal tokenizer: bounded stand-in only.
"""
import ast

import z3

from pyvc.core import Unsupported
from pyvc.extract import find_function
from pyvc.interp import Interp, Spec, PyRaise, Closure
from pyvc.runner import Harness
from pyvc.values import SymSeq, Rec, Obj, Func, Untracked, UF, StrS, IntS, BoolS, ObjS, to_z3

LEVEL = 'other'
MIN_OBLIGATIONS = 3
D = 'tally.commands.discover.'
sv = z3.StringVal
MatchExpr = UF('suggest_match_expr', StrS, StrS)
replace_all = UF('py.str.replace', StrS, StrS, StrS, StrS)


def h_rule_text(ctx):
    sp = Spec()
    I = Interp(ctx, sp)
    sp.models['suggest_match_expr'] = Func(lambda I_, a, k, n: MatchExpr(to_z3(a[0], StrS)))
    name, pattern = ctx.fresh('merchant_name', StrS), ctx.fresh('pattern', StrS)
    which = ctx.choose(3, 'tags')
    t1, t2 = ctx.fresh('tag1', StrS), ctx.fresh('tag2', StrS)
    tags = [None, [t1], [t1, t2]][which]
    r = I.call_function(find_function(D + 'suggest_merchants_rule'), [name, pattern], {'tags': tags})
    want = z3.Concat(sv('['), name, sv(']\nmatch: '), MatchExpr(pattern), sv('\ncategory: CATEGORY\nsubcategory: SUBCATEGORY'))
    if which == 1:
        want = z3.Concat(want, sv('\ntags: '), t1)
    elif which == 2:
        want = z3.Concat(want, sv('\ntags: '), t1, sv(', '), t2)
    ctx.check('C19.rule_text_has_header_match_category_subcategory_lines[tags=%d]' % which, to_z3(r, StrS) == want, 'property')
    ctx.cover('suggest_merchants_rule.returns')


def h_literal(ctx):
    """the nested helper `literal` of suggest_match_expr, character by character: the literal is a quote, then for every character of the word what stands
    for it, then a quote - a backslash or a double quote with a backslash in front, any other printable character as itself, and a character that is
    not printable (a NUL byte or another control character, which cannot stand in a rules file) as an escape made of printable ASCII.  That the Python
    tokenizer reads this text back as the word is outside the contract (bounded stand-in)."""
    from pyvc import extract
    from pyvc.ghost import Ghost
    from pyvc.interp import LoopSpec, Frame
    sp = Spec()
    I = Interp(ctx, sp)
    fi = find_function(D + 'suggest_match_expr')
    lit = [n for n in ast.walk(fi.node) if isinstance(n, ast.FunctionDef) and n.name == 'literal']
    if not lit:
        raise Unsupported('suggest_match_expr.literal not found')
    lfi = extract.FunctionInfo(fi.qualname + '.<locals>.literal', fi.mod, lit[0])
    SeqStr = z3.SeqSort(StrS)
    w = ctx.fresh('word', StrS)
    chars = UF('str.chars', StrS, SeqStr)(w)
    printable = UF('str.isprintable', StrS, BoolS)
    uesc = UF('unicode_escape', StrS, StrS)
    Join = lambda pieces: UF('str.join', StrS, SeqStr, StrS)(sv(''), pieces)       # the engine's reading of ''.join(list)

    def esc(c):
        return z3.If(z3.Or(c == sv('\\'), c == sv('"')), z3.Concat(sv('\\'), c), z3.If(printable(c), c, uesc(c)))
    Written = Ghost('LiteralChars', [SeqStr], SeqStr, base=lambda cs: z3.Empty(SeqStr), step=lambda cs, k, acc: z3.Concat(acc, z3.Unit(esc(cs[k]))))
    sp.models['method:str.isprintable'] = Func(lambda I_, a, k, n: printable(to_z3(a[0], StrS)))
    sp.models['method:str.encode'] = Func(lambda I_, a, k, n: Obj(UF('encoded', StrS, ObjS)(to_z3(a[0], StrS)), 'bytes:' + str(a[1] if len(a) > 1 else 'utf-8')))

    def m_decode(I_, a, k, n):
        o = a[0]
        if not (isinstance(o, Obj) and o.cls == 'bytes:unicode_escape' and a[1:] == ['ascii']):
            raise Unsupported('decode of something other than unicode_escape bytes as ascii')
        return uesc(o.expr.arg(0))
    sp.models['method:Obj:*.decode'] = Func(m_decode)

    fr = Frame(lfi, {})
    loops = [n for n in ast.walk(lfi.node) if isinstance(n, ast.For)]
    if len(loops) != 1:
        raise Unsupported('literal: expected one loop over the characters of the word, found %d' % len(loops))
    acc = sorted({c.func.value.id for c in ast.walk(loops[0]) if isinstance(c, ast.Call) and isinstance(c.func, ast.Attribute) and c.func.attr == 'append'
                  and isinstance(c.func.value, ast.Name)})
    if len(acc) != 1:
        raise Unsupported('literal: the loop collects into %s' % acc)
    sp.loops[(lfi.qualname, fr.loop_ordinals[id(loops[0])])] = LoopSpec(
        lambda I_, env, k, it: {'written_so_far_is_what_stands_for_the_characters_so_far': env[acc[0]].cols[0] == Written(chars, k) if isinstance(env[acc[0]], SymSeq)
                                else z3.BoolVal(env[acc[0]] == [] and z3.is_int_value(k) and k.as_long() == 0)},
        {acc[0]: lambda c: SymSeq([c.fresh('pieces', SeqStr)])}, kind='property', unfold=lambda I_, env, k, it: Written.unfold(chars, k) + ([z3.Length(chars[k]) == 1] if not z3.is_int_value(k) or k.as_long() >= 0 else []))       # a character is a string of length one
    for f in Written.unfold(chars, z3.IntVal(-1)):
        ctx.assume(f)
    r = I.call_function(lfi, [w])
    ctx.check('C19.word_literal_is_a_quote_what_stands_for_each_character_and_a_quote',
              to_z3(r, StrS) == z3.Concat(sv('"'), Join(Written(chars, z3.Length(chars))), sv('"')), 'property')
    ctx.cover('literal.returns')


def h_matched_description(ctx):
    """_matched_description(txn, raw, transforms): the text the rules are matched against - the raw description put through the file's transforms in the
    transaction context normalize_merchant builds (description, amount, custom fields, source, location, date); without transforms the raw text itself"""
    sp = Spec()
    I = Interp(ctx, sp)
    raw = ctx.fresh('raw_description', StrS)
    has_tr = bool(ctx.choose(2, 'file_has_transforms'))
    amount = ctx.fresh('amount', z3.RealSort())
    source, location = ctx.fresh('source', StrS), ctx.fresh('location', StrS)
    has_field = bool(ctx.choose(2, 'custom_fields'))
    fld = {'memo': ctx.fresh('memo', StrS)} if has_field else None
    txn = {'raw_description': raw, 'description': ctx.fresh('merchant_name', StrS), 'amount': amount, 'field': fld, 'source': source, 'location': location, 'date': None}
    seen = {}
    out = ctx.fresh('transformed_description', StrS)
    ctx.assume(z3.Length(out) > 0)

    def m_apply(I_, a, k, n):
        seen['probe'] = dict(a[0]) if isinstance(a[0], dict) else a[0]
        seen['transforms'] = a[1]
        a[0]['description'] = out
        return a[0]
    sp.models['apply_transforms'] = Func(m_apply)
    sp.models['dict'] = Func(lambda I_, a, k, n: dict(a[0]) if a and isinstance(a[0], dict) else {})
    transforms = [('field.description', 'x')] if has_tr else []
    r = I.call_function(find_function(D + '_matched_description'), [txn, raw, transforms])
    if not has_tr:
        ctx.check('C19.matched_description.is_the_raw_text_without_transforms', to_z3(r, StrS) == raw, 'property')
    else:
        pr = seen.get('probe')
        ok = isinstance(pr, dict) and seen.get('transforms') is transforms
        ctx.check('C19.matched_description.transforms_of_the_file_are_applied', ok, 'property')
        if ok:
            ctx.check('C19.matched_description.transforms_see_the_raw_description', z3.is_expr(pr.get('description')) and pr['description'] is raw or to_z3(pr.get('description'), StrS) == raw, 'property')
            same_ctx = pr.get('source') is source and pr.get('location') is location and \
                ((pr.get('field') is None) if fld is None else (isinstance(pr.get('field'), dict) and pr['field'] == fld and pr['field'] is not fld))
            ctx.check('C19.matched_description.transforms_see_the_transaction_context_without_changing_the_transaction', same_ctx, 'property')
            ctx.check('C19.matched_description.transforms_see_the_amount', to_z3(pr.get('amount'), z3.RealSort()) == amount, 'property')
        ctx.check('C19.matched_description.is_the_transformed_description', to_z3(r, StrS) == out, 'property')
    ctx.cover('_matched_description.returns')


def structural(tier, res):
    """every pattern that cmd_discover suggests is built from _matched_description(...) - never from the raw description"""
    from pyvc import frames
    fi = find_function(D + 'cmd_discover')
    # wherever the module calls suggest_pattern - in cmd_discover itself or in a helper it was moved to
    calls = [n for n in ast.walk(fi.mod.tree) if isinstance(n, ast.Call) and isinstance(n.func, ast.Name) and n.func.id == 'suggest_pattern']
    bad = [ast.unparse(c) for c in calls if not (len(c.args) == 1 and isinstance(c.args[0], ast.Call) and isinstance(c.args[0].func, ast.Name)
                                                  and c.args[0].func.id == '_matched_description')]
    ok = bool(calls) and not bad
    return [frames.Clause(fi.qualname + '#patterns_are_suggested_from_the_matched_description', ok,
                          '%d suggest_pattern call(s), all on _matched_description(...)' % len(calls) if ok else 'suggest_pattern called on something else: %s' % (bad or 'no call found'), kind='auxiliary')]


def harnesses(tier):
    return [Harness('suggest_merchants_rule', h_rule_text, [D + 'suggest_merchants_rule']),
            Harness('suggest_match_expr.literal', h_literal, [D + 'suggest_match_expr']),
            Harness('_matched_description', h_matched_description, [D + '_matched_description'])]


ORACLES = [
    {'name': 'descriptions built from a token set (store numbers, state suffixes, processor prefixes, regex metacharacters, quotes, backslashes, non-ASCII case mappings): '
             'the suggested rule must load and match its description; discover -> append suggestions -> discover must empty the Unknown list', 'script': 'C19.py',
     'bound': 'all ordered selections of <= 2 tokens (x 7 prefixes x 2 separators), 1/11 of the 3-token ones (quick) / half of them and 1/97 of 4-token ones (thorough), from 38 tokens; the discover-append-discover loop without and with 2 sets of field transforms'},
]
TRUSTED_BASE = ['pyvc symbolic executor', 'z3 5.1.0 / cvc5 1.0.3', 'str.replace uninterpreted',
                'regular-expression semantics of suggest_pattern and the Python string-literal tokenizer are NOT modelled: the matching direction is bounded-only']
ASSUMPTIONS = ['A6', 'str.isprintable and the unicode_escape codec are uninterpreted (that the escape is printable ASCII and is read back by the expression parser: bounded stand-in)']
EXPLANATION = ('Only the structure of the emitted rule text and the escaping of one word are discharged deductively (symbolic execution, z3). The sentence "the suggested rule matches the '
               'description" needs regular-expression and tokenizer semantics that no contract within reach expresses: it is decided by the labelled bounded stand-in only, so the level is "other".')
