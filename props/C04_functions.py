"""C04 - the string match / transform functions of TransactionContext against string-theory specifications (arguments typed str / int as documented).

str.upper / str.lower / str.strip / str.split are uninterpreted functions of the string (A2): the obligations say which text is folded, searched, cut."""
import z3

from pyvc.extract import find_function
from pyvc.interp import Interp, Spec, PyRaise
from pyvc.runner import Harness
from pyvc.values import Rec, UF, StrS, IntS, BoolS, to_z3, SymSeq

Q = 'tally.expr_parser.TransactionContext.'
Up = UF('str.upper', StrS, StrS)
Lo = UF('str.lower', StrS, StrS)
Strip = UF('str.strip', StrS, StrS)
Split = UF('str.split', StrS, StrS, z3.SeqSort(StrS))


def pyslice(t, lo, hi):
    n = z3.Length(t)
    a = z3.If(lo >= 0, lo, z3.If(n + lo < 0, 0, n + lo))
    b = z3.If(hi >= 0, hi, z3.If(n + hi < 0, 0, n + hi))
    return z3.SubString(t, a, z3.If(b - a < 0, 0, b - a))


def same(r, spec):
    if isinstance(r, (str, bool)):
        r = to_z3(r)
    if not z3.is_expr(r):
        return z3.BoolVal(False)
    return r == spec


# name -> {arity: spec(desc, args) -> z3 term}; arities not listed must raise ExpressionError
SPECS = {
    'contains': {1: lambda d, a: z3.Contains(Up(d), Up(a[0])), 2: lambda d, a: z3.Contains(Up(a[0]), Up(a[1]))},
    'startswith': {1: lambda d, a: z3.PrefixOf(Up(a[0]), Up(d)), 2: lambda d, a: z3.PrefixOf(Up(a[1]), Up(a[0]))},
    'anyof': {n: (lambda d, a: z3.Or(*([z3.BoolVal(False)] + [z3.Contains(Up(d), Up(x)) for x in a]))) for n in range(5)},
    'trim': {0: lambda d, a: Strip(d), 1: lambda d, a: Strip(a[0])},
    'uppercase': {1: lambda d, a: Up(a[0])},
    'lowercase': {1: lambda d, a: Lo(a[0])},
    'strip_prefix': {2: lambda d, a: z3.If(z3.PrefixOf(Up(a[1]), Up(a[0])), pyslice(a[0], z3.Length(a[1]), z3.Length(a[0])), a[0])},
    'strip_suffix': {2: lambda d, a: z3.If(z3.And(z3.Length(a[1]) > 0, z3.SuffixOf(Up(a[1]), Up(a[0]))), pyslice(a[0], z3.IntVal(0), -z3.Length(a[1])), a[0])},
}
MAX_ARITY = 4


def h_fn(name):
    def h(ctx):
        sp = Spec()
        sp.exc_table.update({'ExpressionError': 'Exception'})
        I = Interp(ctx, sp)
        desc = ctx.fresh('self.description', StrS)
        me = Rec('TransactionContext', {'description': desc})
        n = ctx.choose(MAX_ARITY + 1, 'arity')
        args = [ctx.fresh('arg%d' % i, StrS) for i in range(n)]
        spec = SPECS[name].get(n)
        try:
            r = I.call_function(find_function(Q + '_fn_' + name), args, {}, self_obj=me)
        except PyRaise as e:
            ctx.check('C04.%s.wrong_arity_is_expression_error[%d]' % (name, n), spec is None and I.is_subclass(e.cls, 'ExpressionError'), 'property')
            return
        if spec is None:
            ctx.check('C04.%s.wrong_arity_is_expression_error[%d]' % (name, n), False, 'property')
            return
        # the solver's counterexample (description and arguments) is handed to the replay oracle, which calls the real function on it
        ctx.check('C04.%s.meaning[%d args]' % (name, n), same(r, spec(desc, args)), 'property',
                  witness=dict([('description', desc)] + [('arg%d' % i, a) for i, a in enumerate(args)]), meta={'replay': 'string_function', 'fn': name, 'arity': n})
        ctx.cover('%s.returns[%d]' % (name, n))
    return h


def h_substring(ctx):
    sp = Spec()
    sp.exc_table.update({'ExpressionError': 'Exception'})
    I = Interp(ctx, sp)
    desc = ctx.fresh('self.description', StrS)
    me = Rec('TransactionContext', {'description': desc})
    n = ctx.choose(5, 'arity')
    typed = ctx.choose(3, 'index_types') if n in (2, 3) else 0     # 0: ints, 1: start is text, 2: end is text
    lo, hi = ctx.fresh('start', IntS), ctx.fresh('end', IntS)
    text = ctx.fresh('text', StrS)
    bad = ctx.fresh('not_an_int', StrS)
    idx = [bad if typed == 1 else lo, bad if typed == 2 else hi]
    args = {0: [], 1: [lo], 2: idx, 3: [text] + idx, 4: [text, lo, hi, hi]}[n]
    try:
        r = I.call_function(find_function(Q + '_fn_substring'), args, {}, self_obj=me)
    except PyRaise as e:
        ctx.check('C04.substring.error_only_for_arity_or_non_integer_position[%d,%d]' % (n, typed), (n not in (2, 3) or typed != 0) and I.is_subclass(e.cls, 'ExpressionError'), 'property')
        return
    ok = n in (2, 3) and typed == 0
    ctx.check('C04.substring.is_python_slice_of_the_text[%d,%d]' % (n, typed), same(r, pyslice(desc if n == 2 else text, lo, hi)) if ok else False, 'property')
    ctx.cover('substring.returns[%d]' % n)


def h_split(ctx):
    sp = Spec()
    sp.exc_table.update({'ExpressionError': 'Exception'})
    I = Interp(ctx, sp)
    desc = ctx.fresh('self.description', StrS)
    me = Rec('TransactionContext', {'description': desc})
    n = ctx.choose(5, 'arity')
    typed = ctx.choose(2, 'index_type') if n in (2, 3) else 0
    text, delim, bad = ctx.fresh('text', StrS), ctx.fresh('delimiter', StrS), ctx.fresh('not_an_int', StrS)
    i = ctx.fresh('index', IntS)
    ix = bad if typed else i
    args = {0: [], 1: [delim], 2: [delim, ix], 3: [text, delim, ix], 4: [text, delim, i, i]}[n]
    try:
        r = I.call_function(find_function(Q + '_fn_split'), args, {}, self_obj=me)
    except PyRaise as e:
        ctx.check('C04.split.error_only_for_arity_or_non_integer_index[%d,%d]' % (n, typed), (n not in (2, 3) or typed != 0) and I.is_subclass(e.cls, 'ExpressionError'), 'property')
        return
    ok = n in (2, 3) and typed == 0
    parts = Split(desc if n == 2 else text, delim)
    want = z3.If(z3.And(i >= 0, i < z3.Length(parts)), Strip(parts[i]), z3.StringVal(''))
    ctx.check('C04.split.stripped_part_at_index_else_empty[%d,%d]' % (n, typed), same(r, want) if ok else False, 'property')
    ctx.cover('split.returns[%d]' % n)


def harnesses(tier):
    hs = [Harness('TransactionContext._fn_%s' % nm, h_fn(nm), [Q + '_fn_' + nm]) for nm in SPECS]
    hs.append(Harness('TransactionContext._fn_substring', h_substring, [Q + '_fn_substring']))
    hs.append(Harness('TransactionContext._fn_split', h_split, [Q + '_fn_split']))
    return hs
