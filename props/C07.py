"""C07 - classification depends only on the current rules and the transaction, not on history.

Representation invariants of the three process-wide caches, each preserved by the operation that
touches it (so by induction over histories every lookup returns what a cold computation returns),
plus frame clauses: classification writes nothing reachable from the rule set, the data rows, the
caller's variables, or the transaction (except the keys field transforms assign).
"""
import ast

import z3

from pyvc import extract, frames
from pyvc.core import Unsupported
from pyvc.extract import find_function
from pyvc.interp import Interp, Spec, LoopSpec, PyRaise
from pyvc.runner import Harness
from pyvc.values import (SymSeq, SymSet, SymMap, Rec, Obj, Func, Untracked, UF, StrS, IntS, BoolS, ObjS, to_z3)

LEVEL = 'proof'
MIN_OBLIGATIONS = 40
EP = 'tally.expr_parser.'
MU = 'tally.merchant_utils.'
ME = 'tally.merchant_engine.'

# ---- uninterpreted models of the external functions the caches memoise --------------------
ParseErr = UF('ast.parse.raises', StrS, BoolS)
ParseTree = UF('ast.parse.tree', StrS, ObjS)
Unsafe = UF('validate_ast.raises', ObjS, BoolS)
CompErr = UF('re.compile.raises', StrS, IntS, BoolS)
Compile = UF('re.compile', StrS, IntS, ObjS)
Search = UF('Pattern.search', ObjS, StrS, ObjS)
truthy = UF('truthy', ObjS, BoolS)
IGNORECASE = z3.IntVal(2)


def cache_map(I, name):
    arr = I.fresh(name + '.arr', z3.ArraySort(StrS, ObjS))
    dom = I.fresh(name + '.dom', z3.SetSort(StrS))
    return SymMap(StrS, {None: arr}, dom=dom, default=None), arr, dom


def inv_E(arr, dom, s):
    """entry s of the expression cache is exactly what a cold parse+validate of s returns"""
    return z3.Implies(z3.IsMember(s, dom),
                      z3.And(arr[s] == ParseTree(s), z3.Not(ParseErr(s)), z3.Not(Unsafe(ParseTree(s)))))


def h_parse_expression(ctx):
    sp = Spec()
    I = Interp(ctx, sp)
    cache, arr0, dom0 = cache_map(I, '_expression_cache')
    sp.globals['_expression_cache'] = cache
    sp.exc_table.update({'ExpressionError': 'Exception', 'UnsafeNodeError': 'ExpressionError', 'SyntaxError': 'Exception',
                         'SyntaxWarning': 'Exception'})
    sp.globals['SyntaxWarning'] = Untracked()

    def m_parse(I_, args, kwargs, node):
        if kwargs.get('mode') != 'eval' or len(args) != 1:
            raise Unsupported('ast.parse must be called as ast.parse(expr, mode="eval")')
        e = to_z3(args[0], StrS)
        if I_.ctx.branch(ParseErr(e), 'ast.parse.raises'):
            raise PyRaise('SyntaxError', (), 'ast.parse')
        return Obj(ParseTree(e), 'ast.Expression')

    def m_validate(I_, args, kwargs, node):
        t = to_z3(args[0])
        if I_.ctx.branch(Unsafe(t), 'validate_ast.raises'):
            raise PyRaise('UnsafeNodeError', (), 'validate_ast')
        return None
    sp.models['ast.parse'] = Func(m_parse)
    sp.models['validate_ast'] = Func(m_validate)
    sp.models['warnings.catch_warnings'] = Func(lambda I_, a, k, n: ('noop_ctx',))
    sp.models['warnings.filterwarnings'] = Func(lambda I_, a, k, n: None)
    expr = ctx.fresh('expr', StrS)
    s = z3.String('s')
    ctx.assume(z3.ForAll([s], inv_E(arr0, dom0, s)))          # requires INV_E
    s0 = ctx.fresh('s0', StrS)                                 # arbitrary key for the ensures
    fi = find_function(EP + 'parse_expression')
    raised = None
    try:
        r = I.call_function(fi, [expr])
    except PyRaise as e:
        raised = e
    c1 = sp.globals['_expression_cache']
    if not isinstance(c1, SymMap):
        raise Unsupported('_expression_cache must stay a dict')
    arr1, dom1 = c1.fields[None], c1.dom
    wit = {'expr': expr, 's0': s0}
    ctx.check('C07.INV_E.preserved', inv_E(arr1, dom1, s0), 'property', witness=wit)
    ctx.check('C07.cache_E.only_key_expr_assigned',
              z3.Implies(s0 != expr, z3.And(arr1[s0] == arr0[s0], z3.IsMember(s0, dom1) == z3.IsMember(s0, dom0))), 'property', witness=wit)
    if raised is None:
        ctx.check('C07.parse_expression.returns_cold_result',
                  z3.And(to_z3(r) == ParseTree(expr), z3.Not(ParseErr(expr)), z3.Not(Unsafe(ParseTree(expr)))), 'property', witness=wit)
        ctx.cover('parse_expression.returns')
    else:
        ctx.check('C07.parse_expression.raises_only_expression_errors', I.is_subclass(raised.cls, 'ExpressionError'), 'property')
        ctx.check('C07.parse_expression.raises_iff_cold_parse_fails', z3.Or(ParseErr(expr), Unsafe(ParseTree(expr))), 'property', witness=wit)
        ctx.check('C07.parse_expression.failures_not_cached', z3.And(arr1 == arr0, dom1 == dom0), 'property')
        ctx.cover('parse_expression.raises')


def inv_R(arr, dom, p):
    return z3.Implies(z3.IsMember(p, dom), z3.And(arr[p] == Compile(p, IGNORECASE), z3.Not(CompErr(p, IGNORECASE))))


def h_fn_regex(ctx):
    sp = Spec()
    I = Interp(ctx, sp)
    cache, arr0, dom0 = cache_map(I, '_regex_cache')
    sp.globals['_regex_cache'] = cache
    sp.globals['re.IGNORECASE'] = IGNORECASE
    sp.exc_table.update({'ExpressionError': 'Exception', 'UnsafeNodeError': 'ExpressionError', 'FutureWarning': 'Exception'})
    sp.models['warnings.catch_warnings'] = Func(lambda I_, a, k, n: ('noop_ctx',))          # the compile step may be wrapped so that it warns about nothing
    sp.models['warnings.filterwarnings'] = Func(lambda I_, a, k, n: None)

    def m_compile(I_, args, kwargs, node):
        pat = to_z3(args[0], StrS)
        flags = to_z3(args[1], IntS) if len(args) > 1 else to_z3(kwargs.get('flags', 0), IntS)
        if I_.ctx.branch(CompErr(pat, flags), 're.compile.raises'):
            raise PyRaise('re.error', (), 're.compile')
        return Obj(Compile(pat, flags), 're.Pattern')

    def m_search(I_, args, kwargs, node):
        return Obj(Search(to_z3(args[0]), to_z3(args[1], StrS)))
    sp.models['re.compile'] = Func(m_compile)
    sp.models['method:Obj:*.search'] = Func(m_search)
    desc = ctx.fresh('description', StrS)
    me = Rec('TransactionContext', {'description': desc})
    pattern = ctx.fresh('pattern', StrS)
    text = ctx.fresh('text', StrS)
    two = ctx.choose(2, 'nargs')
    args = [pattern] if two == 0 else [text, pattern]
    subject = desc if two == 0 else text
    p = z3.String('p')
    ctx.assume(z3.ForAll([p], inv_R(arr0, dom0, p)))
    p0 = ctx.fresh('p0', StrS)
    fi = find_function(EP + 'TransactionContext._fn_regex')
    raised = None
    try:
        r = I.call_function(fi, args, {}, self_obj=me)
    except PyRaise as e:
        raised = e
    c1 = sp.globals['_regex_cache']
    arr1, dom1 = c1.fields[None], c1.dom
    wit = {'pattern': pattern, 'p0': p0}
    ctx.check('C07.INV_R.preserved', inv_R(arr1, dom1, p0), 'property', witness=wit)
    ctx.check('C07.cache_R.only_key_pattern_assigned',
              z3.Implies(p0 != pattern, z3.And(arr1[p0] == arr0[p0], z3.IsMember(p0, dom1) == z3.IsMember(p0, dom0))), 'property', witness=wit)
    if raised is None:
        ctx.check('C07.regex.returns_cold_result',
                  to_z3(I.truthy(r)) == truthy(Search(Compile(pattern, IGNORECASE), subject)), 'property', witness=wit)
        ctx.check('C07.regex.returns_only_if_pattern_compiles', z3.Not(CompErr(pattern, IGNORECASE)), 'property', witness=wit)
        ctx.cover('regex.returns')
    else:
        ctx.check('C07.regex.raises_only_expression_errors', I.is_subclass(raised.cls, 'ExpressionError'), 'property')
        ctx.check('C07.regex.raises_iff_cold_compile_fails', CompErr(pattern, IGNORECASE), 'property', witness=wit)
        ctx.cover('regex.raises')


# ---- INV_C: the cached engine is the engine of the most recent load ---------------------------
LoadErr = UF('load_merchants_file.raises', StrS, StrS, BoolS)
Load = UF('load_merchants_file', StrS, StrS, ObjS)


def h_get_all_rules(ctx):
    sp = Spec()
    I = Interp(ctx, sp)
    sp.exc_table.update({'ExpressionError': 'Exception', 'MerchantParseError': 'Exception', 'ModifierParseError': 'ValueError'})
    old_engine = Obj(ctx.fresh('previously_cached_engine', ObjS), 'MerchantEngine')
    had = ctx.choose(2, 'cache_was')
    sp.globals['_cached_engine'] = old_engine if had else None
    sp.globals['_cached_engine_path'] = Untracked()
    sp.field_sorts[('MerchantEngine', 'rules')] = ('seq', ObjS, 'MerchantRule')

    def m_load(I_, args, kwargs, node):
        path = to_z3(args[0], StrS)
        mode = to_z3(kwargs.get('match_mode', args[1] if len(args) > 1 else 'first_match'), StrS)
        if I_.ctx.branch(LoadErr(path, mode), 'load.raises'):
            which = I_.ctx.choose(3, 'load.exc')
            raise PyRaise(['MerchantParseError', 'OSError', 'UnicodeDecodeError'][which], (), 'load_merchants_file')
        return Obj(Load(path, mode), 'MerchantEngine')
    sp.models[ME + 'load_merchants_file'] = Func(m_load)
    sp.models['pathlib.Path'] = Func(lambda I_, a, k, n: a[0])
    sp.models['_expr_to_regex'] = Func(lambda I_, a, k, n: UF('_expr_to_regex', StrS, StrS)(to_z3(a[0], StrS)))
    sp.models['ParsedPattern'] = Func(lambda I_, a, k, n: Untracked())
    sp.models['list'] = Func(lambda I_, a, k, n: Untracked())
    sp.models['load_merchant_rules'] = Func(lambda I_, a, k, n: SymSeq([I_.fresh('csvrule.%d' % j, z3.SeqSort(ObjS)) for j in range(6)], 6))
    sp.models['len'] = Func(lambda I_, a, k, n: len(a[0]) if isinstance(a[0], (tuple, list)) else (_ for _ in ()).throw(Unsupported('len')))
    fi = find_function(MU + 'get_all_rules')
    # the two conversion loops only build the returned tuple list (not part of this property): abstracted
    from pyvc.interp import Frame
    fr = Frame(fi, {})
    for n in ast.walk(fi.node):
        if isinstance(n, ast.For):
            sp.loops[(fi.qualname, fr.loop_ordinals[id(n)])] = LoopSpec(lambda I_, env, k, it: {}, {'user_rules_with_source': lambda I_: Untracked()})
    kind = ctx.choose(2, 'rules_path')
    if kind == 0:
        path = None
    else:
        path = ctx.fresh('rules_path', StrS)
        ctx.assume(z3.Length(path) > 0)
    mode = ctx.fresh('match_mode', StrS)
    I.call_function(fi, [path], {'match_mode': mode})
    ce = sp.globals['_cached_engine']
    if path is None:
        ctx.check('C07.INV_C.no_path_clears_engine', ce is None, 'property')
        ctx.cover('get_all_rules.no_path')
        return
    is_rules = z3.SuffixOf(z3.StringVal('.rules'), path)
    loaded = z3.And(is_rules, z3.Not(LoadErr(path, mode)))
    if ce is None:
        ctx.check('C07.INV_C.engine_set_when_rules_file_loaded', z3.Not(loaded), 'property', witness={'path': path})
    elif isinstance(ce, Obj):
        ctx.check('C07.INV_C.engine_is_the_one_just_loaded', z3.And(loaded, ce.expr == Load(path, mode)), 'property',
                  witness={'path': path, 'had_cached_engine': z3.BoolVal(bool(had))})
    else:
        raise Unsupported('_cached_engine has unexpected value')
    ctx.cover('get_all_rules.path')


def h_get_transforms(ctx):
    """get_transforms: the transforms applied before matching are those of the rules file as it is NOW (a cold load of that path and mode), whatever
    engine an earlier get_all_rules left in the module cache; no rules file / a file that does not load -> no transforms"""
    sp = Spec()
    I = Interp(ctx, sp)
    sp.exc_table.update({'ExpressionError': 'Exception', 'MerchantParseError': 'Exception'})
    cached_path = ctx.fresh('previously_cached_path', StrS)
    old_engine = Obj(ctx.fresh('previously_cached_engine', ObjS), 'MerchantEngine')
    had = ctx.choose(2, 'cache_was')
    sp.globals['_cached_engine'] = old_engine if had else None
    sp.globals['_cached_engine_path'] = cached_path if had else None
    sp.field_sorts[('MerchantEngine', 'transforms')] = ObjS

    def m_load(I_, args, kwargs, node):
        path = to_z3(args[0], StrS)
        mode = to_z3(kwargs.get('match_mode', args[1] if len(args) > 1 else 'first_match'), StrS)
        if I_.ctx.branch(LoadErr(path, mode), 'load.raises'):
            which = I_.ctx.choose(3, 'load.exc')
            raise PyRaise(['MerchantParseError', 'OSError', 'UnicodeDecodeError'][which], (), 'load_merchants_file')
        return Obj(Load(path, mode), 'MerchantEngine')
    sp.models[ME + 'load_merchants_file'] = Func(m_load)
    sp.models['load_merchants_file'] = Func(m_load)
    sp.models['pathlib.Path'] = Func(lambda I_, a, k, n: a[0])
    sp.models['Path'] = Func(lambda I_, a, k, n: a[0])
    kind = ctx.choose(2, 'rules_path')
    path = None if kind == 0 else ctx.fresh('rules_path', StrS)
    mode = ctx.fresh('match_mode', StrS)
    r = I.call_function(find_function(MU + 'get_transforms'), [path], {'match_mode': mode})
    T = UF('MerchantEngine.transforms', ObjS, ObjS)
    if path is None:
        ctx.check('C07.transforms.none_without_rules_file', r == [], 'property')
        return
    cold = z3.And(z3.Length(path) > 0, z3.SuffixOf(z3.StringVal('.rules'), path), z3.Not(LoadErr(path, mode)))
    if r == []:
        ctx.check('C07.transforms.empty_only_if_no_loadable_rules_file', z3.Not(cold), 'property', witness={'path': path})
    else:
        ctx.check('C07.transforms.are_those_of_a_cold_load_of_this_file', z3.And(cold, z3.BoolVal(isinstance(r, Obj)), to_z3(r) == T(Load(path, mode)) if isinstance(r, Obj) else z3.BoolVal(False)),
                  'property', witness={'path': path, 'cached_path': cached_path})
    ctx.cover('get_transforms.returns')


def harnesses(tier):
    return [
        Harness('get_transforms', h_get_transforms, [MU + 'get_transforms']),
        Harness('parse_expression', h_parse_expression, [EP + 'parse_expression']),
        Harness('_fn_regex', h_fn_regex, [EP + 'TransactionContext._fn_regex']),
        Harness('get_all_rules', h_get_all_rules, [MU + 'get_all_rules']),
    ]


# ---- frame clauses (syntactic back end) ---------------------------------------------------------

KNOWN_PROCESS_STATE = {'tally.expr_parser._expression_cache', 'tally.expr_parser._regex_cache',
                       'tally.merchant_utils._cached_engine', 'tally.merchant_utils._cached_engine_path'}
MUTATORS = {'add', 'append', 'extend', 'update', 'setdefault', 'pop', 'popitem', 'clear', 'insert', 'remove', 'discard', '__setitem__'}


def _process_wide_state_clause():
    """the modules on the classification path keep process-wide state in exactly the caches that have a representation invariant above: any other
    module-level name that a function writes (rebinds through `global`, stores into, or calls a mutating method on) is state that can carry one
    classification into the next and needs an invariant of its own"""
    written = set()
    for mname in ('tally.expr_parser', 'tally.merchant_engine', 'tally.merchant_utils', 'tally.modifier_parser', 'tally.classification', 'tally.section_engine'):
        mod = extract.module(mname)
        module_names = set()
        for st in mod.tree.body:
            if isinstance(st, (ast.Assign, ast.AnnAssign)):
                for t in (st.targets if isinstance(st, ast.Assign) else [st.target]):
                    if isinstance(t, ast.Name):
                        module_names.add(t.id)
        for fn in ast.walk(mod.tree):
            if not isinstance(fn, (ast.FunctionDef, ast.AsyncFunctionDef)):
                continue
            params = {a.arg for a in fn.args.posonlyargs + fn.args.args + fn.args.kwonlyargs}
            local = {n.id for n in ast.walk(fn) if isinstance(n, ast.Name) and isinstance(n.ctx, ast.Store)} | params
            declared_global = {g for n in ast.walk(fn) if isinstance(n, ast.Global) for g in n.names}
            for n in ast.walk(fn):
                if isinstance(n, ast.Global):
                    written |= {mname + '.' + g for g in n.names}
                tgt = None
                if isinstance(n, (ast.Assign, ast.AugAssign, ast.Delete)):
                    for t in (n.targets if isinstance(n, (ast.Assign, ast.Delete)) else [n.target]):
                        if isinstance(t, ast.Subscript) and isinstance(t.value, ast.Name):
                            tgt = t.value.id
                elif isinstance(n, ast.Call) and isinstance(n.func, ast.Attribute) and n.func.attr in MUTATORS and isinstance(n.func.value, ast.Name):
                    tgt = n.func.value.id
                if tgt and tgt in module_names and (tgt not in local or tgt in declared_global):
                    written.add(mname + '.' + tgt)
    extra = sorted(written - KNOWN_PROCESS_STATE)
    return frames.Clause('classification_modules#process_wide_state_is_the_known_caches', not extra,
                         'module-level names written by functions: %s' % sorted(written) if not extra else
                         'process-wide state without a cache invariant: %s' % extra, kind='auxiliary')



def structural(tier, res):
    out = []
    fresh = {'MatchResult', 'MerchantRule', 'ParsedPattern', 'TransactionContext', 'TransactionEvaluator', 'ExpressionContext',
             'ExpressionEvaluator', 'from_transaction', 'calculate_specificity', '_evaluate_variables', '_evaluate_let_bindings',
             '_evaluate_fields', '_resolve_tags', '_resolve_dynamic_tags', 'evaluate_transaction', 'matches_transaction',
             'parse_expression', 'evaluate', 'get_function', 'extract_merchant_name', 'clean_description', 'fromisoformat',
             '_parse_date_string', 'SequenceMatcher', 'ratio', 'compile', 'stdev', 'dump', 'fmt'}

    MODS = ('tally.expr_parser', 'tally.merchant_engine', 'tally.merchant_utils', 'tally.modifier_parser', 'tally.classification', 'tally.section_engine')
    index = frames.PackageIndex({m: extract.module(m) for m in MODS})
    W = frames.callee_writes(index, fresh)

    def add(q, allowed, extra_fresh=()):
        fi = find_function(q)
        res.functions[q] = fi.describe()
        out.extend(frames.check_assigns(fi, set(allowed), fresh | set(extra_fresh), proof_state=('_regex_cache', '_expression_cache')))
        # ... and what the functions it calls write through their parameters (a helper that rewrites a supplemental row handed to it, say)
        parts = q.split('.')
        key = next((k for k in ((('.'.join(parts[:-1]), None, parts[-1])), ('.'.join(parts[:-2]), parts[-2], parts[-1])) if k in index.fn), None)
        if key is not None:
            out.extend(frames.check_call_frames(fi, key, index, W, set(allowed), fresh | set(extra_fresh), proof_state=('_regex_cache', '_expression_cache')))
    eng = ME + 'MerchantEngine.'
    for m in ('_evaluate_variables', '_evaluate_let_bindings', '_evaluate_fields', '_resolve_tags', 'match'):
        add(eng + m, [])
    add(MU + 'normalize_merchant', ['transaction'])     # its own fresh dict; transforms may assign into it (and into field[...])
    add(MU + 'apply_transforms', ['transaction'])
    add(MU + '_resolve_dynamic_tags', [])
    add(MU + 'get_transforms', [])
    add(MU + 'get_tag_only_rules', [])
    add(MU + 'apply_tag_rules', [])
    add(EP + 'parse_expression', ['_expression_cache'])
    for f in ('evaluate_transaction', 'evaluate_transaction_ast', 'matches_transaction', 'evaluate', 'evaluate_ast', 'validate_ast'):
        add(EP + f, [])
    mod = extract.module('tally.expr_parser')
    for cname, allowed in (('TransactionEvaluator', ['self._scope']), ('ExpressionEvaluator', [])):
        cnode = mod.classes[cname]
        for n in cnode.body:
            if isinstance(n, ast.FunctionDef) and n.name != '__init__':
                al = list(allowed)
                if n.name == '_eval_comprehension_loop':
                    al.append('result')        # appends to the list its caller allocated
                add(EP + '%s.%s' % (cname, n.name), al)
    for n in mod.classes['TransactionContext'].body:
        if isinstance(n, ast.FunctionDef) and n.name not in ('__init__',):
            add(EP + 'TransactionContext.' + n.name, ['_regex_cache'] if n.name == '_fn_regex' else [])
    for n in mod.classes['ExpressionContext'].body:
        if isinstance(n, ast.FunctionDef) and n.name not in ('__init__',):
            add(EP + 'ExpressionContext.' + n.name, [])
    add(ME + 'calculate_specificity', [])
    out.append(_process_wide_state_clause())
    # per-instance evaluator state; the only caches are the two module dictionaries
    out.extend(frames.check_instance_state_fresh(mod.classes['TransactionEvaluator'], 'tally.expr_parser', ['_scope', 'ctx'], fresh=['_scope']))
    out.extend(frames.check_instance_state_fresh(mod.classes['ExpressionEvaluator'], 'tally.expr_parser', ['ctx']))
    # the caller of _eval_comprehension_loop passes a fresh list
    fi = find_function(EP + 'TransactionEvaluator._eval_ListComp')
    ok = any(isinstance(n, ast.Assign) and isinstance(n.value, ast.List) and not n.value.elts and
             any(isinstance(t, ast.Name) and t.id == 'result' for t in n.targets) for n in ast.walk(fi.node))
    out.append(frames.Clause(fi.qualname + '#result_list_is_fresh', ok, 'result = [] before the recursive helper' if ok else 'result is not a fresh list', kind='auxiliary'))
    # MerchantEngine.parse starts from empty state (rules/variables/transforms are functions of content alone)
    fi = find_function(eng + 'parse')
    res.functions[fi.qualname] = fi.describe()
    need = {'rules', 'variables', 'transforms'}
    seen = set()
    for st in fi.node.body:
        if isinstance(st, ast.Expr) and isinstance(st.value, ast.Constant):
            continue
        if isinstance(st, ast.Assign) and len(st.targets) == 1 and isinstance(st.targets[0], ast.Attribute) \
                and isinstance(st.targets[0].value, ast.Name) and st.targets[0].value.id == 'self' \
                and isinstance(st.value, (ast.List, ast.Dict)) and not (getattr(st.value, 'elts', None) or getattr(st.value, 'keys', None)):
            seen.add(st.targets[0].attr)
            continue
        break
    out.append(frames.Clause(fi.qualname + '#starts_from_empty_state', need <= seen,
                             'parse() first resets %s' % sorted(seen) if need <= seen else 'not reset before use: %s' % sorted(need - seen), kind='auxiliary'))
    return out


ORACLES = [
    {'name': 'operation histories on the real code (loads of .rules / CSV / missing files, classifications, repeated and case-variant '
             'expressions) compared with a cold evaluation of the same request in a fresh interpreter', 'script': 'C07.py',
     'bound': '11 directed histories (incl. rewrite-in-place and transforms-first loads) + all sequences of length <= 3 (quick, 1/7 of length 3) / 4 (thorough) over 12 operations, 4 probe transactions'},
]
TRUSTED_BASE = [
    'pyvc symbolic executor and structural frame checker (pyvc/frames.py)', 'z3 5.1.0 / cvc5 1.0.3',
    'ast.parse, validate_ast (as a callee here; its own contract is C03), re.compile, Pattern.search, load_merchants_file are deterministic '
    'functions of their arguments (uninterpreted; may raise)',
]
ASSUMPTIONS = ['A7 ast.parse deterministic', 'A8 no reflection/monkey patching in the verified functions (reflective constructs are refused by the calls clause of C03)',
               'the rules file on disk is not rewritten between a load and the classifications that follow it (a reload re-reads the file)',
               'frames across calls: the callee of a call is resolved syntactically (a bare name to the function of the same module or an imported one, self.m to the '
               'method of the same class, alias.f to the listed module, x.m on any other receiver to every method called m); a call that does not resolve '
               '(library code, computed callees) is not followed - its arguments are covered only by the callee tables of C03 and by the history oracle',
               'MerchantEngine.match returns state that may hold its arguments (not fresh); other results of package functions listed as constructors are fresh']
EXPLANATION = ('Cache representation invariants INV_E / INV_R / INV_C as pre/postconditions of the real parse_expression, _fn_regex and get_all_rules, get_transforms equal to a cold load '
               '(symbolic execution, z3); frame clauses for every function on the classification path by the syntactic back end; '
               'bounded stand-in (labelled): operation histories versus cold evaluation in a fresh interpreter.')
