"""C16 - explain and discover describe the same classification that up applies.

Relational wiring (proof): the source loops of cmd_explain and cmd_discover are proved against the *same* terms as cmd_run (C11):
    all_txns == Concat_{i<k, Included(source_i)} Parse_i
with Included = not supplemental, file found, known parser, no exception and Parse_i the parse_generic_csv call with the configured rules,
transforms and supplemental data.  _check_merchant_migration (the rules `up` uses when it does not migrate) is proved to return
get_all_rules(configured file, configured mode) - the call explain/discover make.  cmd_discover's Unknown filter is a call-site clause.
explain_description versus normalize_merchant is compared by the bounded stand-in (known finding recorded).
"""
import ast

import z3

from pyvc.core import Unsupported, PathEnd
from pyvc.extract import find_function
from pyvc.ghost import Ghost
from pyvc.interp import Interp, Spec, LoopSpec, PyRaise, Frame
from pyvc.runner import Harness
from pyvc.values import SymSeq, Rec, Obj, Func, Untracked, UF, StrS, IntS, BoolS, ObjS, to_z3, seq_col

from props import cmd_common as cc
from props import C11

LEVEL = 'proof'
MIN_OBLIGATIONS = 12
SeqObj = z3.SeqSort(ObjS)
GetAll = UF('get_all_rules', ObjS, StrS, ObjS)            # (rules file or none, match mode)
NONE = UF('none', ObjS)()


def h_wiring(cmd):
    q = 'tally.commands.%s.cmd_%s' % (cmd, cmd)

    def h(ctx):
        sp = Spec()
        I = Interp(ctx, sp)
        w = cc.World(ctx, sp)
        # `up` classifies with rules_of(config) which (no migration) is get_all_rules(file, mode): harness _check_merchant_migration below
        rules_term = GetAll(w.merchants_file.expr, w.rule_mode)

        def spec_terms(s):
            inc, res = C11.spec_terms(w, s)
            sub = [(C11.RulesOf(w.config.expr, w.config_dir), rules_term)]
            return z3.substitute(inc, *sub), z3.substitute(res, *sub)
        Batches = Ghost('Batches', [SeqObj], SeqObj, base=lambda s: z3.Empty(SeqObj),
                        step=lambda s, k, acc: z3.If(spec_terms(s[k])[0], z3.Concat(acc, z3.Unit(spec_terms(s[k])[1])), acc))
        sp.models['get_transforms'] = Func(lambda I_, a, k, n: Obj(C11.TransformsOf(to_z3(a[0]), to_z3(k.get('match_mode', a[1] if len(a) > 1 else 'first_match'), StrS))))
        sp.models['load_supplemental_sources'] = Func(lambda I_, a, k, n: Obj(C11.SuppOf(to_z3(a[0]), to_z3(a[1], StrS)), 'supp'))
        sp.truthy_classes.add('rulesfile')
        w.merchants_file.cls = 'rulesfile'        # load_config only sets _merchants_file to an existing file (C11.load_config.*)

        def m_get_all(I_, a, k, n):
            f = to_z3(a[0]) if a else NONE
            return Obj(GetAll(f, to_z3(k.get('match_mode', 'first_match'), StrS)))
        sp.models['get_all_rules'] = Func(m_get_all)
        sp.models['os.path.exists'] = Func(lambda I_, a, k, n: True if (isinstance(a[0], Obj) and a[0].cls == 'rulesfile') else cc.Exists(to_z3(a[0], StrS)))

        def m_pg(I_, a, k, n):
            none = NONE
            zs = (to_z3(a[0], StrS), to_z3(a[1]), to_z3(a[2]), to_z3(k.get('source_name', 'CSV'), StrS),
                  to_z3(k['decimal_separator']) if isinstance(k.get('decimal_separator'), Obj) else none,
                  to_z3(k['transforms']) if k.get('transforms') is not None else none,
                  to_z3(k['data_sources']) if k.get('data_sources') is not None else none)
            if I_.ctx.branch(C11.PGerr(*zs), 'parse_generic_csv.raises'):
                raise PyRaise('Exception', (), 'parse_generic_csv')
            return Obj(C11.PG(*zs), 'batch')
        sp.models['parse_generic_csv'] = Func(m_pg)

        def m_legacy(F, E):
            def m(I_, a, k, n):
                zs = (to_z3(a[0], StrS), to_z3(a[1]))
                if I_.ctx.branch(E(*zs), 'legacy.raises'):
                    raise PyRaise('Exception', (), 'legacy parser')
                return Obj(F(*zs), 'batch')
            return Func(m)
        sp.models['parse_amex'], sp.models['parse_boa'] = m_legacy(C11.PA, C11.PAerr), m_legacy(C11.PB, C11.PBerr)
        fi = find_function(q)
        fr = Frame(fi, {})
        fors = sorted([n for n in ast.walk(fi.node) if isinstance(n, ast.For)], key=lambda n: n.lineno)
        loop = fors[0]

        def inv(I_, env, k, it):
            return {'all_txns_is_what_up_parses': seq_col(env['all_txns'], 0, ObjS) == Batches(it.cols[0], k)}
        sp.loops[(q, fr.loop_ordinals[id(loop)])] = LoopSpec(inv, {'all_txns': lambda I_: SymSeq([I_.fresh('all_txns', SeqObj)], None, ['batch'])},
                                                          unfold=lambda I_, env, k, it: Batches.unfold(it.cols[0], k))
        body = fi.node.body
        after = body[body.index(loop) + 1]

        def on_stop(I_, frame):
            for f in Batches.unfold(w.sources, z3.IntVal(-1)):
                I_.ctx.assume(f)
            I_.ctx.check('C16.%s_classifies_exactly_the_transactions_up_classifies' % cmd,
                         seq_col(frame.env['all_txns'], 0, ObjS) == Batches(w.sources, z3.Length(w.sources)), 'property')
            I_.ctx.cover('cmd_%s.after_source_loop' % cmd)
        sp.stop = (q, after.lineno, on_stop)
        args = w.args(merchant=None, description=None, amount=None, limit=0, format='text', verbose=0, view=None, category=None, tags=None, month=None, location=None)
        try:
            I.call_function(fi, [args])
        except PyRaise as e:
            if e.cls != 'SystemExit':
                ctx.check('C16.cmd_%s.raises_only_SystemExit' % cmd, False, 'property', meta={'escaping': e.cls})
    return h


def h_migration_returns_configured_rules(ctx):
    """`up` without migration classifies with get_all_rules(configured rules file, configured mode)"""
    sp = Spec()
    I = Interp(ctx, sp)
    w = cc.World(ctx, sp)
    fmt = ['new', 'csv', None][ctx.choose(3, 'merchants_format')]
    has_file = fmt is not None
    cfgd = {'_merchants_file': w.merchants_file if has_file else None, '_merchants_format': fmt, 'rule_mode': w.rule_mode}
    sp.models['method:Obj:Config.get'] = Func(lambda I_, a, k, n: cfgd.get(a[1], a[2] if len(a) > 2 else None))
    sp.truthy_classes.add('rulesfile')
    w.merchants_file.cls = 'rulesfile'
    sp.models['get_all_rules'] = Func(lambda I_, a, k, n: Obj(GetAll(to_z3(a[0]) if a else NONE, to_z3(k.get('match_mode', 'first_match'), StrS))))
    sp.models['load_merchant_rules'] = Func(lambda I_, a, k, n: Untracked())
    sp.models['len'] = Func(lambda I_, a, k, n: Untracked())
    sp.models['sys.stdout.isatty'] = Func(lambda I_, a, k, n: False)      # non-interactive run
    sp.models['_migrate_csv_to_rules'] = Func(lambda I_, a, k, n: (_ for _ in ()).throw(Unsupported('migration must not run without --migrate in a non-interactive run')))
    sp.globals['C'] = Untracked()
    fi = find_function('tally.cli._check_merchant_migration')
    quiet = ctx.fresh('quiet', BoolS)
    r = I.call_function(fi, [w.config, w.config_dir, quiet, False])
    want = GetAll(w.merchants_file.expr if has_file else NONE, w.rule_mode)
    ctx.check('C16.up_uses_get_all_rules_of_the_configured_file_and_mode[%s]' % fmt, isinstance(r, Obj) and to_z3(r) == want, 'property')
    ctx.cover('_check_merchant_migration.returns[%s]' % fmt)


def harnesses(tier):
    return [Harness('cmd_discover.wiring', h_wiring('discover'), ['tally.commands.discover.cmd_discover']),
            Harness('cmd_explain.wiring', h_wiring('explain'), ['tally.commands.explain.cmd_explain']),
            Harness('_check_merchant_migration', h_migration_returns_configured_rules, ['tally.cli._check_merchant_migration'])] + __import__('props.C16_explain', fromlist=['x']).harnesses(tier)


def structural(tier, res):
    from pyvc import frames
    out = []
    fi = find_function('tally.commands.discover.cmd_discover')
    src = ast.unparse(fi.node)
    ok = "unknown_txns = [t for t in all_txns if t.get('category') == 'Unknown']" in src
    out.append(frames.Clause(fi.qualname + '#lists_exactly_the_Unknown_transactions', ok,
                             "unknown_txns = [t for t in all_txns if t.get('category') == 'Unknown']" if ok else 'the Unknown filter changed', kind='auxiliary'))
    return out


ORACLES = [
    {'name': 'generated budgets: `tally up --format json -v` versus `tally discover --format json` (same Unknown transactions, counts, totals) and '
             '`tally explain <merchant> --format json` / explain_description (same merchant, category, subcategory, rule)', 'script': 'C16.py',
     'bound': '2 budgets (supplemental source, tag-only rules, transforms, let / merchant: / variable rules, both rule modes) x every merchant, 16 raw descriptions through explain_description and 5 through the explain command; discover totals against up totals'},
]
TRUSTED_BASE = ['pyvc symbolic executor', 'z3 5.1.0 / cvc5 1.0.3', 'callees uninterpreted (as in C11)', 'argparse / process start-up outside the verified text (A10)']
ASSUMPTIONS = ['load_config sets _merchants_file only to an existing file (proved in C11)', 'non-interactive run without --migrate',
               'explain_description / normalize_merchant contract: a rules file is loaded (cached engine present); with legacy CSV rules both fall back to their own tuple loops, compared by the bounded oracle only',
               'apply_transforms is a function of the description and the transform list (C08: raises nothing)']
EXPLANATION = ('Relational wiring proof: the source loops of cmd_discover and cmd_explain satisfy the same invariant, over the same uninterpreted terms, as cmd_run; '
               '_check_merchant_migration returns the configured get_all_rules call; explain_description and normalize_merchant ask the loaded engine the same question and report its answer; '
               'bounded stand-in (labelled): the three commands on generated budgets.')
