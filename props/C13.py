"""C13 - the report's in-browser classification equals the command-line classification.

Two-program equivalence through a common specification: the JavaScript block of
spending_report.js (extracted and parsed on every run, pyvc.jsfront) and the Python functions of
classification.py are each proved equal to the same spec functions (LowerSet, I/V/X, bucket_spec,
cash-flow formula); equality of the two programs follows by transitivity.
"""
import os

import z3

from pyvc import extract
from pyvc.core import Unsupported, PathEnd
from pyvc.jsfront import tokenize, Parser, extract_block, JSInterp, JSObject, UNDEF
from pyvc.runner import Harness
from pyvc.values import SymSeq, SymSet, StrS, RealS, to_z3, set_expr

from props import C06
from props.C06 import LowerSet, I_, V_, X_, bucket_spec, tags_lower_of, SeqStr

LEVEL = 'proof'
MIN_OBLIGATIONS = 40
JS_FILE = 'src/tally/spending_report.js'


def load_js():
    path = os.path.join(extract.REPO, JS_FILE)
    text = open(path, encoding='utf-8').read()
    block, span = extract_block(text)
    prog = Parser(tokenize(block)).program()
    return prog, block, span


def map_set_hook(js, xs, f):
    """new Set(xs.map(f)) as a loop with invariant acc == LowerSet(xs, k)."""
    ctx = js.ctx
    seq = xs.cols[0]
    n = z3.Length(seq)
    for ax in LowerSet.unfold(seq, z3.IntVal(-1)):
        ctx.assume(ax)
    ctx.check('js.getTagsLower.inv.entry', z3.EmptySet(StrS) == LowerSet(seq, 0), 'auxiliary')
    d = ctx.choose(2, 'js.maploop')
    acc = ctx.fresh('js_acc', z3.SetSort(StrS))
    if d == 0:
        k = ctx.fresh('js_k', z3.IntSort())
        ctx.assume(k >= 0)
        ctx.assume(k < n)
        ctx.assume(acc == LowerSet(seq, k))
        for ax in LowerSet.unfold(seq, k):
            ctx.assume(ax)
        v = js.apply_arrow(f, [seq[k]])
        ctx.check('js.getTagsLower.inv.step', z3.SetAdd(acc, to_z3(v, StrS)) == LowerSet(seq, k + 1), 'auxiliary')
        ctx.cover('js.maploop.body')
        raise PathEnd()
    ctx.assume(acc == LowerSet(seq, n))
    return SymSet(acc)


def js_call(ctx, name, args):
    prog, _, _ = load_js()
    js = JSInterp(ctx, prog, map_set_hook)
    return js, js.call(name, args)


def _tags(ctx):
    seq = ctx.fresh('tags', SeqStr)
    return seq, SymSeq([seq])


def h_js_getTagsLower(ctx):
    which = ctx.choose(2, 'undefined_tags')
    if which == 1:
        js, r = js_call(ctx, 'getTagsLower', [UNDEF])
        ctx.check('post.js.getTagsLower.undefined_is_empty', set_expr(r, StrS) == z3.EmptySet(StrS), 'property')
        ctx.cover('js.gtl.undef')
        return
    seq, tags = _tags(ctx)
    js, r = js_call(ctx, 'getTagsLower', [tags])
    for ax in LowerSet.unfold(seq, z3.IntVal(-1)):
        ctx.assume(ax)
    ctx.check('post.js.getTagsLower', set_expr(r, StrS) == tags_lower_of(seq), 'property', witness={'tags': seq})
    ctx.cover('js.gtl.list')


def _bool(js, r):
    t = js.truthy(r)
    return to_z3(t)


def h_js_predicates(ctx):
    seq, tags = _tags(ctx)
    which = ctx.choose(4, 'fn')
    name = ['isIncome', 'isInvestment', 'isTransfer', 'isExcludedFromSpending'][which]
    js, r = js_call(ctx, name, [tags])
    expect = [I_(seq), V_(seq), X_(seq), z3.Or(I_(seq), V_(seq), X_(seq))][which]
    ctx.check('post.js.%s' % name, _bool(js, r) == expect, 'property', witness={'tags': seq})
    ctx.cover('js.pred.%s' % name)


JS_BUCKETS = ['income', 'investment', 'transferIn', 'transferOut', 'spending', 'credits']


def h_js_categorize(ctx):
    seq, tags = _tags(ctx)
    amount = ctx.fresh('amount', RealS)
    js, r = js_call(ctx, 'categorizeAmount', [amount, tags])
    if not isinstance(r, JSObject):
        raise Unsupported('categorizeAmount must return an object literal')
    wit = {'amount': amount, 'tags': seq}
    ctx.check('post.js.keys', sorted(r.props) == sorted(JS_BUCKETS), 'property')
    if sorted(r.props) != sorted(JS_BUCKETS):
        return
    absa = z3.If(amount >= 0, amount, -amount)
    want = bucket_spec(seq, amount)
    for j, b in enumerate(JS_BUCKETS):
        ctx.check('post.js.bucket.%s' % b, js.num(r.props[b]) == z3.If(want == j, absa, 0), 'property', witness=wit)
    ctx.cover('js.categorize')


def h_js_cash_flow(ctx):
    a, b, c = [ctx.fresh(n, RealS) for n in ('income', 'spending', 'credits')]
    js, r = js_call(ctx, 'calculateCashFlow', [a, b, c])
    ctx.check('post.js.cash_flow', js.num(r) == a - b + c, 'property', witness={'income': a, 'spending': b, 'credits': c})
    ctx.cover('js.cashflow')


def structural(tier, res):
    """call sites in the report script: every classification of ONE transaction (categorizeAmount(txn.amount ..., <tags>)) is made on that transaction's own
    tags - `txn.tags`, falling back to the merchant's only when the transaction carries none - as analyze_transactions does on the command line.  Read off
    the script text (the call sites sit in Vue computed properties outside the classification block that pyvc.jsfront parses)."""
    import re
    from pyvc import frames
    text = open(os.path.join(extract.REPO, JS_FILE), encoding='utf-8').read()
    calls = re.findall(r'categorizeAmount\(\s*txn\.amount[^,]*,\s*([^)]*)\)', text)
    bad = [c for c in calls if not c.strip().startswith('txn.tags')]
    ok = bool(calls) and not bad
    return [frames.Clause(JS_FILE + '#transactions_are_classified_on_their_own_tags', ok,
                          '%d per-transaction call(s) of categorizeAmount, all on txn.tags' % len(calls) if ok else
                          ('per-transaction categorizeAmount call(s) on other tags: %s' % bad if calls else 'no per-transaction call of categorizeAmount found'), kind='auxiliary')]


def harnesses(tier):
    C = C06.C
    return [
        Harness('js.getTagsLower', h_js_getTagsLower, []),
        Harness('js.predicates', h_js_predicates, []),
        Harness('js.categorizeAmount', h_js_categorize, []),
        Harness('js.calculateCashFlow', h_js_cash_flow, []),
        # Python side against the same spec functions
        Harness('py.get_tags_lower', C06.h_get_tags_lower, [C + 'get_tags_lower']),
        Harness('py.LowerSet.reading', C06.h_lowerset_reading, []),
        Harness('py.tag_predicates', C06.h_predicates, [C + n for n in ('is_income', 'is_investment', 'is_transfer', 'is_excluded_from_spending')]),
        Harness('py.categorize_amount', C06.h_categorize_amount, [C + 'categorize_amount']),
        Harness('py.formulas', C06.h_formulas, [C + 'calculate_cash_flow', C + 'calculate_transfers_net']),
    ]


ORACLES = [
    {'name': 'node vs CPython differential on the extracted JS block; exhaustive toLowerCase/lower code-point comparison (A5)',
     'script': 'C13.py',
     'bound': 'all ordered tag lists up to length 3 (quick) / 4 (thorough) from 9 tags x 7 amounts; all 1,114,112 code points for lower-casing; the report script\'s own filteredViewTotals under node on 4 transaction sets with non-uniform merchant tags'},
]
TRUSTED_BASE = [
    'pyvc symbolic executor and the JS-subset front end pyvc/jsfront.py with its translation table (A11)',
    'z3 5.1.0 / cvc5 1.0.3',
    'numbers are mathematical reals on both sides (A1): NaN, -0 and float rounding are not modelled',
    'String.toLowerCase and str.lower are one uninterpreted function (A5), checked exhaustively per code point by the oracle on every run',
]
ASSUMPTIONS = [
    'A1 reals; A5 lower-casing; A11 translation table (x || [] <-> x or [], Math.abs <-> abs, Set.has <-> in, new Set(xs.map(f)) <-> {f(t) for t in xs})',
    'the equivalence is between the classification primitives; how the Vue app calls them when filtering is outside the verified text',
]
EXPLANATION = ('Deductive two-program equivalence: both the JS block (parsed from spending_report.js each run) and the Python functions are '
               'symbolically executed and proved equal to common spec functions for all amounts and tag lists. '
               'Bounded stand-in (labelled): node-vs-CPython differential run and exhaustive code-point comparison.')
