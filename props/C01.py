"""C01 - the first matching categorizing rule decides merchant, category and subcategory."""
import z3

from pyvc.core import Unsupported
from pyvc.runner import Harness
from pyvc.values import Obj, to_z3, StrS, IntS, ObjS

from props import match_common as mc
from props.match_common import (World, ghosts, unfold_all, run_match, str_field, rule_field, R_merchant,
                                R_category, R_subcategory, SeqObj, MATCH)

LEVEL = 'proof'
MIN_OBLIGATIONS = 60


def h_match_first(ctx):
    w, G, res, I = run_match(ctx, 'first_match')
    seq, n = w.rules, w.n
    W = G['First'](seq, n)
    win = seq[W]
    matched = to_z3(I.truthy(res.fields['matched']))
    wit = {'n': n, 'W': W}
    ctx.check('C01.matched_iff_winner_exists', matched == (W >= 0), 'property', witness=wit)
    for fld, acc in (('merchant', R_merchant), ('category', R_category), ('subcategory', R_subcategory)):
        ctx.check('C01.%s_of_first_categorizing_match' % fld,
                  str_field(res, fld) == z3.If(W >= 0, acc(win), z3.StringVal('')), 'property', witness=wit)
    some, r = rule_field(res, 'matched_rule')
    ctx.check('C01.matched_rule.set_iff', some == (W >= 0), 'property', witness=wit)
    if r is not None:
        ctx.check('C01.matched_rule.is_winner', z3.Implies(W >= 0, r == win), 'property', witness=wit)
    ctx.cover('match.first_match.exit')


def h_first_is_least(ctx):
    """Declarative reading of First (code independent; induction on k):
       First(k) = -1  =>  no j<k matches with a category;
       First(k) >= 0  =>  First(k) < k, it matches with a category, and no earlier index does."""
    w = World(ctx)
    G = ghosts(w)
    s = w.rules
    k = ctx.fresh('k', IntS)
    j = z3.Int('j')
    hc = lambda i: z3.And(w.h(s[i]), w.cat(s[i]))

    def none(kk):
        return z3.Implies(G['First'](s, kk) == -1, z3.ForAll([j], z3.Implies(z3.And(j >= 0, j < kk), z3.Not(hc(j)))))

    def some(kk):
        F = G['First'](s, kk)
        return z3.Implies(F != -1, z3.And(F >= 0, F < kk, hc(F),
                                          z3.ForAll([j], z3.Implies(z3.And(j >= 0, j < F), z3.Not(hc(j))))))
    for f in G['First'].unfold(s, k):
        ctx.assume(f)
    ctx.check('lemma.first_is_least.none.base', none(z3.IntVal(0)), 'property')
    ctx.check('lemma.first_is_least.some.base', some(z3.IntVal(0)), 'property')
    ctx.assume(k >= 0)
    ctx.assume(none(k))
    ctx.assume(some(k))
    ctx.check('lemma.first_is_least.none.step', none(k + 1), 'property')
    ctx.check('lemma.first_is_least.some.step', some(k + 1), 'property')


def h_suffix_irrelevance(ctx):
    """Rules placed after the winner cannot change it: First(k) >= 0 => First(k+1) = First(k)."""
    w = World(ctx)
    G = ghosts(w)
    s = w.rules
    k = ctx.fresh('k', IntS)
    ctx.assume(k >= 0)
    for f in G['First'].unfold(s, k):
        ctx.assume(f)
    ctx.check('lemma.first_range.base', G['First'](s, 0) >= -1, 'auxiliary')
    ctx.check('lemma.first_range.step', z3.Implies(G['First'](s, k) >= -1, G['First'](s, k + 1) >= -1), 'auxiliary')
    ctx.check('lemma.suffix_irrelevance', z3.Implies(G['First'](s, k) >= 0, G['First'](s, k + 1) == G['First'](s, k)), 'property')


def h_non_influence(ctx):
    """A rule whose condition is not true (false, or fails to evaluate) has no influence on any part of the
    result: deleting index d with h(rules[d]) != T from the rule list leaves Filt, the winner rule and the tag
    union unchanged.  R2 = R1 without index d; induction over k in three phases (before d, at d, after d)."""
    w = World(ctx)
    G = ghosts(w)
    r1 = w.rules
    r2 = ctx.fresh('rules_without_d', SeqObj)
    d = ctx.fresh('d', IntS)
    k = ctx.fresh('k', IntS)
    ctx.assume(d >= 0)
    ctx.assume(k >= 0)
    ctx.assume(z3.Not(w.h(r1[d])))
    same = ['Filt.rule', 'Filt.spec', 'Filt.vars', 'TagsU']
    phase = ctx.choose(3, 'phase')
    for f in unfold_all(G, r1, k) + unfold_all(G, r2, k) + unfold_all(G, r1, k + 1):
        ctx.assume(f)

    def win(seq, kk):
        return seq[G['First'](seq, kk)]
    if phase == 0:      # k < d: identical prefixes
        ctx.assume(k < d)
        ctx.assume(r2[k] == r1[k])
        for g in same + ['First']:
            ctx.assume(G[g](r2, k) == G[g](r1, k))
        for g in same + ['First']:
            ctx.check('lemma.non_influence.prefix.%s' % g, G[g](r2, k + 1) == G[g](r1, k + 1), 'property')
    elif phase == 1:    # the deleted rule itself contributes nothing
        ctx.assume(k == d)
        ctx.assume(G['First'](r1, k) >= -1)      # lemma.first_range
        for g in same + ['First']:
            ctx.check('lemma.non_influence.at_d.%s' % g, G[g](r1, k + 1) == G[g](r1, k), 'property')
    else:               # k >= d: R2[k] = R1[k+1]
        ctx.assume(k >= d)
        ctx.assume(r2[k] == r1[k + 1])
        for g in same:
            ctx.assume(G[g](r2, k) == G[g](r1, k + 1))
        ctx.assume((G['First'](r2, k) >= 0) == (G['First'](r1, k + 1) >= 0))
        ctx.assume(z3.Implies(G['First'](r2, k) >= 0, win(r2, k) == win(r1, k + 1)))
        for f in unfold_all(G, r1, k + 1) + unfold_all(G, r1, k + 2):
            ctx.assume(f)
        for g in same:
            ctx.check('lemma.non_influence.suffix.%s' % g, G[g](r2, k + 1) == G[g](r1, k + 2), 'property')
        ctx.check('lemma.non_influence.suffix.has_winner',
                  (G['First'](r2, k + 1) >= 0) == (G['First'](r1, k + 2) >= 0), 'property')
        ctx.check('lemma.non_influence.suffix.winner',
                  z3.Implies(G['First'](r2, k + 1) >= 0, win(r2, k + 1) == win(r1, k + 2)), 'property')


def harnesses(tier):
    from props import C01_normalize
    hs = [
        Harness('match[first_match]', h_match_first, [MATCH, mc.ME + 'MerchantRule.is_categorization_rule']),
        Harness('lemma.first_is_least', h_first_is_least, []),
        Harness('lemma.suffix_irrelevance', h_suffix_irrelevance, []),
        Harness('lemma.non_influence', h_non_influence, []),
    ]
    hs += C01_normalize.harnesses(tier)
    from props import C01_transforms
    hs += C01_transforms.harnesses(tier)
    # A12 for the two process-wide caches the condition of a rule is evaluated through (a rule whose condition is false, evaluated earlier, must not
    # change what a later condition evaluates to): the contracts of C07 on parse_expression and regex() - a cache hit gives the cold result
    from props import C07
    hs += [h for h in C07.harnesses(tier) if h.name in ('parse_expression', '_fn_regex')]
    return hs


ORACLES = [
    {'name': 'small-scope rule files and transactions through parse_merchants().match and get_all_rules()+normalize_merchant '
             '(.rules and legacy CSV), against a first-match specification; includes deletion of non-matching rules and '
             'appending rules after the winner', 'script': 'C01.py',
     'bound': 'rule lists of length <= 3 (quick, over 16 of the rules) / <= 3 and a 1-in-8 sample of length 4 (thorough) over a pool of 26 rules (categorizing, tag-only, failing, with let/variables, apostrophes, escape-case twin regular expressions), 8 transactions incl. amount 0.00; legacy CSV lists <= 3 of 10 (incl. a blank Merchant cell); transforms incl. capitalised targets and field None; CSV regular expressions shaped like expressions'},
]
TRUSTED_BASE = [
    'pyvc symbolic executor', 'z3 5.1.0 / cvc5 1.0.3',
    'callee contracts used at call sites of match(): _evaluate_variables, _evaluate_let_bindings, matches_transaction, _resolve_tags, '
    'calculate_specificity, _evaluate_fields are pure functions of their arguments that raise at most ExpressionError (purity: C07 frames; raises: C08)',
]
ASSUMPTIONS = ['A12 rule evaluation is a pure function of (expression text, transaction, variables, data rows) - hypothesis here, obligation of C07/C08',
               'regular expressions opaque (A6)',
               'legacy CSV loop of normalize_merchant: the rows are the 7-tuples get_all_rules builds (all three of its branches do); _is_expression_pattern, '
               'matches_transaction, re.search (may raise re.error / OverflowError / RecursionError) and check_all_conditions (raises nothing) are uninterpreted '
               'deterministic functions of the pattern / parsed modifiers for the transaction at hand; field transforms are not applied in that harness (C01_transforms)']
EXPLANATION = ('Loop invariants (Filt/First/TagsU ghost functions) on the real MerchantEngine.match and on the legacy tuple loop of normalize_merchant; '
               'property-level postconditions taken from the statement; least-index, suffix-irrelevance and non-influence lemmas by induction. '
               'Bounded stand-in (labelled): small-scope differential run on real rule files.')
