"""C02 - tags are the union over all matching rules; tag-only rules never categorize."""
import z3

from pyvc.core import Unsupported
from pyvc.runner import Harness
from pyvc.values import to_z3, set_expr, StrS, IntS

from props import match_common as mc
from props import C01
from props.match_common import World, ghosts, run_match, rule_field, MATCH

LEVEL = 'proof'
MIN_OBLIGATIONS = 60


def _h(mode):
    def h(ctx):
        w, G, res, I = run_match(ctx, mode)
        seq, n = w.rules, w.n
        ctx.assume(mc.first_lemma_instance(w, G, n))     # lemma.first_is_least, proved below by induction
        if mode != 'first_match':
            for key in ('merchant', 'category', 'subcategory'):
                for f in mc.winner_lemma_instances(w, G, key):   # lemma.argmax_range / lemma.sel_satisfies_pred
                    ctx.assume(f)
        ctx.check('C02.tags_are_union_over_matching_rules[%s]' % mode,
                  set_expr(res.fields['tags'], StrS) == G['TagsU'](seq, n), 'property', witness={'n': n})
        for fld in ('matched_rule', 'merchant_rule', 'subcategory_rule'):
            some, r = rule_field(res, fld)
            if r is not None:
                ctx.check('C02.neutral.%s_is_categorizing[%s]' % (fld, mode), z3.Implies(some, w.cat(r)), 'property', witness={'n': n})
        # a winner is always one of the matching rules
        ctx.cover('match.%s.exit' % mode)
    return h


def h_tags_reading(ctx):
    """Declarative reading of TagsU (induction on k): t in TagsU(k) <=> exists j<k. h(rules[j]) and t in RT(rules[j])."""
    w = World(ctx)
    G = ghosts(w)
    s = w.rules
    k = ctx.fresh('k', IntS)
    t = ctx.fresh('t', StrS)
    j = z3.Int('j')

    def R(kk):
        return z3.IsMember(t, G['TagsU'](s, kk)) == z3.Exists([j], z3.And(j >= 0, j < kk, w.h(s[j]), z3.IsMember(t, w.rt(s[j]))))
    for f in G['TagsU'].unfold(s, k):
        ctx.assume(f)
    ctx.check('lemma.tags_reading.base', R(z3.IntVal(0)), 'property')
    ctx.assume(k >= 0)
    ctx.assume(R(k))
    ctx.check('lemma.tags_reading.step', R(k + 1), 'property')


def harnesses(tier):
    from props import C02_resolve, C02_engine_tags
    return [
        Harness('match[first_match]', _h('first_match'), [MATCH]),
        Harness('match[most_specific]', _h('most_specific'), [MATCH]),
        Harness('lemma.tags_reading', h_tags_reading, []),
        Harness('lemma.first_is_least', C01.h_first_is_least, []),
        Harness('lemma.sel_argmax', mc.h_sel_lemmas, []),
    ] + C02_resolve.harnesses(tier) + C02_engine_tags.harnesses(tier)


ORACLES = [
    {'name': 'small-scope rule files (.rules both modes, legacy CSV) against a tag-union / neutrality specification', 'script': 'C02.py',
     'bound': 'rule lists of length <= 3 (quick, over 18 of the rules) / <= 3 and a 1-in-8 sample of length 4 (thorough) over a pool of 26 rules, 8 transactions, both modes; CSV lists <= 3 of 10 (static and case-significant dynamic tags; one row whose tags query a supplemental source); 4 list-valued dynamic tags with blank elements; CSV regular expressions shaped like expressions'},
]
TRUSTED_BASE = [
    'pyvc symbolic executor', 'z3 5.1.0 / cvc5 1.0.3',
    'callee contracts at the call sites of match() (pure; raise at most ExpressionError)',
    'max(list, key) returns the first element with a maximal key (model of the builtin)',
]
ASSUMPTIONS = ['A12 purity of rule evaluation (C07/C08 obligations)', 'str.lower/strip uninterpreted (A5)']
EXPLANATION = ('Loop invariant all_tags == TagsU(k) on the real match() in both modes (set iteration order havocked), neutrality postconditions from the '
               'statement; legacy _resolve_dynamic_tags: a {expression} tag evaluates the text between the braces as written, every tag processed; bounded stand-in (labelled): small-scope rule files incl. legacy CSV.')
