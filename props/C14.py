"""C14 - migrating merchant_categories.csv to merchants.rules preserves classification.

Per modifier kind, for all values (proof): the real _modifier_to_expr is executed on a parsed pattern holding one condition with sentinel values; the emitted text is parsed by
CPython's ast.parse and given the meaning the expression language documents for that fragment (comparison, and, abs, date against an ISO string, month), with the sentinels
replaced by symbols; the real evaluate_amount_condition / evaluate_date_condition are executed symbolically on the same condition; obligation: the two meanings coincide for
every amount / date.  Conjunction (several modifiers <-> " and ".join) for shapes of up to two amount and two date conditions.  The regex() literal: structure of the escaping.
Relative dates are dropped by the converter and patterns beginning with "(" are treated as expressions by the CSV path: recorded known findings.
That the Python literal decodes back to the pattern, and the line-level round trip through MerchantEngine.parse, are covered by the bounded stand-in.
"""
import ast

import z3

from pyvc.core import Unsupported
from pyvc.extract import find_function
from pyvc.interp import Interp, Spec, PyRaise
from pyvc.runner import Harness
from pyvc.values import SymSeq, Rec, Obj, Func, Untracked, UF, StrS, IntS, RealS, BoolS, ObjS, to_z3

LEVEL = 'proof'
MIN_OBLIGATIONS = 20
ME = 'tally.merchant_engine.'
MP = 'tally.modifier_parser.'
DateOrd = UF('date.toordinal', ObjS, IntS)
sv = z3.StringVal
replace_all = UF('py.str.replace', StrS, StrS, StrS, StrS)

S1, S2 = 111.25, 222.5                       # sentinel amounts
D1, D2 = '2001-02-03', '2004-05-06'          # sentinel ISO dates
M1 = 7                                       # sentinel month


def meaning(node, env):
    """Documented meaning of the emitted fragment over z3 terms (numbers are reals, dates are ordinals)."""
    if isinstance(node, ast.Expression):
        return meaning(node.body, env)
    if isinstance(node, ast.BoolOp) and isinstance(node.op, ast.And):
        return z3.And(*[meaning(v, env) for v in node.values])
    if isinstance(node, ast.BoolOp) and isinstance(node.op, ast.Or):
        return z3.Or(*[meaning(v, env) for v in node.values])
    if isinstance(node, ast.Compare) and len(node.ops) == 1:
        a, b = meaning(node.left, env), meaning(node.comparators[0], env)
        if z3.is_expr(a) and z3.is_expr(b) and a.sort() != b.sort():
            if a.sort() == IntS and b.sort() == RealS:
                a = z3.ToReal(a)
            elif a.sort() == RealS and b.sort() == IntS:
                b = z3.ToReal(b)
        op = node.ops[0]
        return {ast.Gt: lambda: a > b, ast.GtE: lambda: a >= b, ast.Lt: lambda: a < b, ast.LtE: lambda: a <= b, ast.Eq: lambda: a == b,
                ast.NotEq: lambda: a != b}[type(op)]()
    if isinstance(node, ast.Name):
        if node.id not in env:
            raise Unsupported('emitted expression uses %s' % node.id)
        return env[node.id]
    if isinstance(node, ast.Constant):
        v = node.value
        if isinstance(v, bool):
            return z3.BoolVal(v)
        if isinstance(v, (int, float)):
            return env['$num'].get(float(v), z3.RealVal(repr(float(v))))
        if isinstance(v, str):
            if v in env['$date']:
                return env['$date'][v]
            raise Unsupported('emitted string literal %r' % v)
    if isinstance(node, ast.Call) and isinstance(node.func, ast.Name) and node.func.id == 'abs' and len(node.args) == 1:
        x = meaning(node.args[0], env)
        return z3.If(x >= 0, x, -x)
    if isinstance(node, ast.BinOp) and isinstance(node.op, (ast.Sub, ast.Add)):
        a, b = meaning(node.left, env), meaning(node.right, env)
        return a - b if isinstance(node.op, ast.Sub) else a + b
    if isinstance(node, ast.UnaryOp) and isinstance(node.op, ast.USub):
        return -meaning(node.operand, env)
    raise Unsupported('emitted expression form %s' % ast.dump(node)[:80])


def cond_rec(kind, sym):
    """(concrete-sentinel record for the converter, symbolic record for the evaluator)"""
    if kind in ('>', '>=', '<', '<=', '='):
        return Rec('AmountCondition', {'operator': kind, 'value': S1, 'min_value': None, 'max_value': None}), \
            Rec('AmountCondition', {'operator': kind, 'value': sym['v1'], 'min_value': None, 'max_value': None})
    if kind == ':':
        return Rec('AmountCondition', {'operator': ':', 'value': None, 'min_value': S1, 'max_value': S2}), \
            Rec('AmountCondition', {'operator': ':', 'value': None, 'min_value': sym['v1'], 'max_value': sym['v2']})
    raise ValueError(kind)


def date_rec(kind, sym):
    d = lambda iso: Rec('dateconst', {'iso': iso})
    if kind == 'date=':
        return Rec('DateCondition', {'operator': '=', 'value': d(D1)}), Rec('DateCondition', {'operator': '=', 'value': Obj(sym['d1'], 'date')})
    if kind == 'date:':
        return Rec('DateCondition', {'operator': ':', 'start_date': d(D1), 'end_date': d(D2)}), \
            Rec('DateCondition', {'operator': ':', 'start_date': Obj(sym['d1'], 'date'), 'end_date': Obj(sym['d2'], 'date')})
    if kind == 'month':
        return Rec('DateCondition', {'operator': 'month', 'month': M1}), Rec('DateCondition', {'operator': 'month', 'month': sym['m1']})
    raise ValueError(kind)


def emitted(ctx, amount_conds, date_conds):
    sp = Spec()
    I = Interp(ctx, sp)
    sp.models['method:Rec.isoformat'] = Func(lambda I_, a, k, n: a[0].fields['iso'])
    pp = Rec('ParsedPattern', {'regex_pattern': 'X', 'amount_conditions': list(amount_conds), 'date_conditions': list(date_conds)})
    text = I.call_function(find_function(ME + '_modifier_to_expr'), [pp])
    if not isinstance(text, str):
        raise Unsupported('_modifier_to_expr with sentinel values must produce a concrete string')
    return text


def real_conditions(ctx, amount_syms, date_syms, a, T):
    """conjunction the CSV path evaluates: the real check_all_conditions over the symbolic conditions"""
    sp = Spec()
    sp.order_keys['date'] = DateOrd
    sp.field_sorts[('date', 'month')] = IntS
    sp.inline |= {MP + 'evaluate_amount_condition', MP + 'evaluate_date_condition'}
    I = Interp(ctx, sp)
    pp = Rec('ParsedPattern', {'regex_pattern': 'X', 'amount_conditions': list(amount_syms), 'date_conditions': list(date_syms)})
    r = I.call_function(find_function(MP + 'check_all_conditions'), [pp, a, Obj(T, 'date')])
    return to_z3(I.truthy(r))


AMOUNT_KINDS = ['>', '>=', '<', '<=', '=', ':']
DATE_KINDS = ['date=', 'date:', 'month']


def h_shape(amount_kinds, date_kinds):
    def h(ctx):
        a = ctx.fresh('amount', RealS)
        T = ctx.fresh('txn_date', ObjS)
        ctx.assume(z3.Not(UF('is_none', ObjS, BoolS)(T)))       # the transaction has a date (rows without one are skipped by the CSV parser)
        num, dat, acs, acs_sym, dcs, dcs_sym = {}, {}, [], [], [], []
        env = {'amount': a, 'date': DateOrd(T), 'month': UF('date.month', ObjS, IntS)(T), '$num': num, '$date': dat}
        for i, k in enumerate(amount_kinds):
            sym = {'v1': ctx.fresh('v%d_1' % i, RealS), 'v2': ctx.fresh('v%d_2' % i, RealS)}
            # distinct sentinels per condition so that each constant maps to its own symbol
            c, s = cond_rec(k, sym)
            for fld, base, sname in (('value', S1, 'v1'), ('min_value', S1, 'v1'), ('max_value', S2, 'v2')):
                if c.fields.get(fld) is not None:
                    c.fields[fld] = base + i * 1000.0
                    num[base + i * 1000.0] = sym[sname]
            acs.append(c)
            acs_sym.append(s)
        for i, k in enumerate(date_kinds):
            sym = {'d1': ctx.fresh('d%d_1' % i, ObjS), 'd2': ctx.fresh('d%d_2' % i, ObjS), 'm1': ctx.fresh('m%d' % i, IntS)}
            c, s = date_rec(k, sym)
            for fld, sname in (('value', 'd1'), ('start_date', 'd1'), ('end_date', 'd2')):
                if isinstance(c.fields.get(fld), Rec):
                    iso = '20%02d-0%d-1%d' % (i + 1, 1 + (fld == 'end_date'), i)
                    c.fields[fld] = Rec('dateconst', {'iso': iso})
                    dat[iso] = DateOrd(sym[sname])
            if 'month' in c.fields:
                c.fields['month'] = M1 + i
                num[float(M1 + i)] = z3.ToReal(sym['m1'])
                ctx.assume(z3.And(sym['m1'] >= 1, sym['m1'] <= 12))
            dcs.append(c)
            dcs_sym.append(s)
        text = emitted(ctx, acs, dcs)
        shape = '+'.join(list(amount_kinds) + list(date_kinds))
        if not text:
            ctx.check('C14.modifiers[%s].some_condition_emitted' % shape, not (amount_kinds or date_kinds), 'property')
            return
        try:
            tree = ast.parse(text, mode='eval')
        except SyntaxError:
            ctx.check('C14.modifiers[%s].emitted_text_is_an_expression' % shape, False, 'property', meta={'text': text})
            return
        # the field named `month` in the language is the transaction month: declared equal to the date's month
        m_real = real_conditions(ctx, acs_sym, dcs_sym, a, T)
        m_emit = meaning(tree, env)
        ctx.check('C14.modifiers[%s].migrated_condition_means_the_same' % shape, m_emit == m_real, 'property',
                  witness={'amount': a}, meta={'emitted': text})
        ctx.cover('modifiers[%s]' % shape)
    return h


def h_regex_literal(ctx):
    sp = Spec()
    I = Interp(ctx, sp)
    p = ctx.fresh('pattern', StrS)
    r = I.call_function(find_function(ME + '_regex_call'), [p])
    esc = replace_all(replace_all(p, sv('\\'), sv('\\\\')), sv('"'), sv('\\"'))
    ctx.check('C14.regex_literal_escapes_backslash_then_quote', to_z3(r, StrS) == z3.Concat(sv('regex("'), esc, sv('")')), 'property')
    ctx.cover('_regex_call')


def harnesses(tier):
    hs = [Harness('modifier[%s]' % k, h_shape([k], []), [ME + '_modifier_to_expr', MP + 'check_all_conditions', MP + 'evaluate_amount_condition']) for k in AMOUNT_KINDS]
    hs += [Harness('modifier[%s]' % k, h_shape([], [k]), [ME + '_modifier_to_expr', MP + 'evaluate_date_condition']) for k in DATE_KINDS]
    pairs = [(['>=', '<='], []), ([':'], ['month']), (['>'], ['date:']), (['='], ['date=', 'month']), (['<', '>'], ['date:', 'month'])]
    hs += [Harness('modifiers[%s]' % '+'.join(a + d), h_shape(a, d), [ME + '_modifier_to_expr', MP + 'check_all_conditions']) for a, d in pairs]
    hs.append(Harness('_regex_call', h_regex_literal, [ME + '_regex_call']))
    from props import C14_blocks
    return hs + C14_blocks.harnesses(tier)


ORACLES = [
    {'name': 'legacy CSV rule files (regex metacharacters, quotes, backslashes, every modifier kind, tags, odd names) versus their migrated merchants.rules on the real loaders and matcher, '
             'probe transactions at all modifier boundaries; string-literal decoding of regex() over an escape alphabet', 'script': 'C14.py',
     'bound': '39 CSV rows alone + 23 multi-row files (+ one budget in most_specific mode) x 30 descriptions x 18 amounts x 8 dates, each file also through the real migration entry point; all strings of length <= 3 over an 8-symbol escape alphabet'},
]
TRUSTED_BASE = ['pyvc symbolic executor', 'z3 5.1.0 / cvc5 1.0.3', 'CPython ast.parse for the emitted text',
                'the meaning function of the emitted fragment (props/C14.py: comparison, and, abs, ISO date strings, month) is the documented one (C04)',
                'float repr round trip: a number written by the converter is read back as the same number; dates are compared by ordinal']
ASSUMPTIONS = ['A1 reals', 'regular expressions opaque (A6): regex("P") matches what re.search(P, upper(description), IGNORECASE) matched']
EXPLANATION = ('Per modifier kind and for shapes of several modifiers: the real converter is run on sentinel values, its output is given the documented meaning with sentinels replaced by symbols, '
               'the real CSV evaluators are executed symbolically, and the two meanings are proved equal for all amounts and dates (z3); csv_to_merchants_content writes one block per CSV row in order (loop invariant); '
               'the migration entry point converts exactly what it loaded. Bounded stand-in (labelled): CSV files versus migrated files on the real code.')
