"""C15 part 2: the folder-layout migration cli.migrate_v0_to_v1 over the ghost file system (directories as atoms)."""
import z3

from pyvc.core import Unsupported
from pyvc.extract import find_function
from pyvc.interp import Interp, Spec, PyRaise
from pyvc.runner import Harness
from pyvc.values import Obj, Func, Untracked, ObjS

CWD = '/w'


class Crash(Exception):
    pass


def usable(dirs):
    """the budget works iff config and data sit under the same parent (settings name data files relative to config/..)"""
    for root in (CWD, CWD + '/tally'):
        if root + '/config' in dirs:
            # the config directory tally finds must be the USER's (not a starter config that was lying in ./tally), next to the user's data
            data_needed = 'DATA' in dirs.values()
            return dirs[root + '/config'] == 'CONFIG' and ((dirs.get(root + '/data') == 'DATA') or not data_needed)
    return False


def found_config(dirs):
    if CWD + '/config' in dirs:
        return CWD + '/config'
    if CWD + '/tally/config' in dirs:
        return CWD + '/tally/config'
    return None


def run(ctx, dirs, files, faults):
    sp = Spec()
    I = Interp(ctx, sp)
    state = {'fault_used': faults != 'explore', 'crashed': False, 'boundaries': []}

    def boundary(name):
        state['boundaries'].append(name)
        if faults == 'explore' and ctx.choose(2, 'crash_after:' + name):
            state['crashed'] = True
            raise Crash()

    def maybe_fault(name):
        if not state['fault_used'] and ctx.choose(2, 'oserror_at:' + name):
            state['fault_used'] = True
            raise PyRaise('OSError', (), name)
    sp.exc_table['shutil.Error'] = 'OSError'
    sp.models['os.path.basename'] = Func(lambda I_, a, k, n: a[0].rsplit('/', 1)[-1])
    sp.models['os.path.dirname'] = Func(lambda I_, a, k, n: a[0].rsplit('/', 1)[0])
    sp.models['os.getcwd'] = Func(lambda I_, a, k, n: CWD)
    sp.models['os.path.abspath'] = Func(lambda I_, a, k, n: a[0] if a[0].startswith('/') else CWD + '/' + a[0])
    sp.models['os.path.join'] = Func(lambda I_, a, k, n: '/'.join(a))
    sp.models['os.path.isdir'] = Func(lambda I_, a, k, n: a[0] in dirs)
    sp.models['os.path.exists'] = Func(lambda I_, a, k, n: a[0] in dirs or a[0] in files)
    sp.models['sys.stdin.isatty'] = Func(lambda I_, a, k, n: True)

    def m_makedirs(I_, a, k, n):
        maybe_fault('makedirs')
        dirs.setdefault(a[0], 'NEW')
        boundary('created:' + a[0].replace(CWD + '/', ''))
    sp.models['os.makedirs'] = Func(m_makedirs)

    def m_move(I_, a, k, n):
        src, dst = a
        maybe_fault('move(%s)' % src.replace(CWD + '/', ''))
        if src not in dirs:
            raise PyRaise('FileNotFoundError', (), 'move')
        if dst in dirs:
            dst = dst + '/' + src.rsplit('/', 1)[-1]          # shutil.move into an existing directory moves the source INSIDE it
        dirs[dst] = dirs.pop(src)
        for f in list(files):
            if f.startswith(src + '/'):
                files[dst + f[len(src):]] = files.pop(f)
        boundary('moved:%s' % src.replace(CWD + '/', ''))
    sp.models['shutil.move'] = Func(m_move)

    def m_open(I_, a, k, n):
        maybe_fault('open(schema)')
        files[a[0]] = 'empty'
        boundary('created:schema_marker')
        return ('noop_ctx', Obj(I_.fresh('f', ObjS), 'schemafile:' + a[0]))
    sp.models['open'] = Func(m_open)

    def m_write(I_, a, k, n):
        maybe_fault('write(schema)')
        files[a[0].cls.split(':', 1)[1]] = 'written'
        boundary('written:schema_marker')
    sp.models['method:Obj:*.write'] = Func(m_write)
    fi = find_function('tally.cli.migrate_v0_to_v1')
    cfg = found_config(dirs)
    result = None
    try:
        result = I.call_function(fi, [cfg], {'skip_confirm': True})
    except Crash:
        pass
    return result, state


def h_layout(ctx):
    has_data = bool(ctx.choose(2, 'has_data_dir'))
    has_out = bool(ctx.choose(2, 'has_output_dir'))
    dirs = {CWD + '/config': 'CONFIG'}
    if has_data:
        dirs[CWD + '/data'] = 'DATA'
    if has_out:
        dirs[CWD + '/output'] = 'OUTPUT'
    files = {CWD + '/config/settings.yaml': 'S0', CWD + '/config/merchants.rules': 'R0'}
    # a ./tally/ that is already there with sub-directories of the same names (an earlier `tally init` before ./config existed)
    existing = ctx.choose(3, 'existing_tally_dir')
    if existing >= 1:
        dirs[CWD + '/tally'] = 'NEW'
        dirs[CWD + '/tally/config'] = 'STARTER_CONFIG'
    if existing == 2:
        dirs[CWD + '/tally/data'] = 'STARTER_DATA'
    before_contents = sorted(v for v in dirs.values() if v != 'NEW')
    result, st = run(ctx, dirs, files, 'explore')
    point = st['boundaries'][-1] if st['boundaries'] else 'start'
    tag = ('crash_after[%s]' % point) if st['crashed'] else ('exit[%r%s]' % (result is not None, ',after_oserror@%s' % point if st['fault_used'] and result is None else ''))
    ctx.check('C15.layout_migration.%s.no_directory_lost' % tag, sorted(v for v in dirs.values() if v != 'NEW') == before_contents, 'property')
    kept = sorted(f.rsplit('/', 1)[-1] for f in files if f.endswith(('settings.yaml', 'merchants.rules')))
    ctx.check('C15.layout_migration.%s.config_files_kept' % tag, kept == ['merchants.rules', 'settings.yaml'], 'property')
    ok_now = usable(dirs)
    ok_rerun = False
    if not ok_now:
        d2, f2 = dict(dirs), dict(files)
        cfg = found_config(d2)
        marker = any(f.endswith('/.tally-schema') and v == 'written' for f, v in f2.items())
        if cfg and not marker:
            run(ctx, d2, f2, 'none')
        ok_rerun = usable(d2)
    ctx.check('C15.layout_migration.%s.budget_usable_now_or_after_rerun' % tag, ok_now or ok_rerun, 'property',
              meta={'dirs': {k.replace(CWD + '/', ''): v for k, v in dirs.items()}})
    ctx.cover('layout_migration.' + ('crash' if st['crashed'] else 'exit'))


def harnesses(tier):
    return [Harness('migrate_v0_to_v1', h_layout, ['tally.cli.migrate_v0_to_v1'])]
