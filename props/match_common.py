"""Contracts shared by C01 / C02 / C09 (and reused by C07, C08): MerchantEngine.match.

Notation (DESIGN.md section 7): rules[0..n), per-rule outcome h(rule) in {T, F, Err} produced by the
callees under their contracts, cat(rule) = rule.category != "".  Ghost functions over the rule
sequence: Filt (matching rules, with their specificity and variable columns), First (index of the
first matching categorizing rule, -1 if none), TagsU (union of resolved tags of matching rules).
"""
import z3

from pyvc.core import Unsupported
from pyvc.extract import find_function
from pyvc.ghost import Ghost
from pyvc.interp import Interp, Spec, LoopSpec, PyRaise
from pyvc.values import (SymSeq, SymSet, SymOpt, Rec, Obj, Func, Untracked, UF, StrS, IntS, RealS, BoolS,
                         ObjS, to_z3, set_expr, seq_col)

ME = 'tally.merchant_engine.'
MATCH = ME + 'MerchantEngine.match'
SeqObj = z3.SeqSort(ObjS)
SetStr = z3.SetSort(StrS)

# rule fields (dataclass MerchantRule; sorts are re-derived from the source annotations by the engine)
R_match_expr = UF('MerchantRule.match_expr', ObjS, StrS)
R_category = UF('MerchantRule.category', ObjS, StrS)
R_subcategory = UF('MerchantRule.subcategory', ObjS, StrS)
R_merchant = UF('MerchantRule.merchant', ObjS, StrS)
R_priority = UF('MerchantRule.priority', ObjS, IntS)
R_letb = UF('MerchantRule.let_bindings', ObjS, ObjS)
truthy = UF('truthy', ObjS, BoolS)

# callee contracts (pure functions of their arguments; purity itself is C07's frame obligation)
GV = UF('evaluate_variables', ObjS, ObjS, ObjS)                 # (txn, data_sources) -> vars
LB = UF('evaluate_let_bindings', ObjS, ObjS, ObjS, ObjS, ObjS)  # (rule, txn, base, ds) -> vars
MT_err = UF('matches_transaction.raises', StrS, ObjS, ObjS, ObjS, BoolS)
MT_val = UF('matches_transaction.value', StrS, ObjS, ObjS, ObjS, BoolS)
RT = UF('resolve_tags', ObjS, ObjS, ObjS, ObjS, SetStr)         # (rule, txn, vars, ds) -> tags
SP = UF('calculate_specificity', ObjS, ObjS)                    # rule -> specificity tuple (opaque)
EF = UF('evaluate_fields', ObjS, ObjS, ObjS, ObjS, ObjS)


class World:
    """Symbolic inputs of one match() call."""

    def __init__(self, ctx):
        self.rules = ctx.fresh('rules', SeqObj)
        self.txn = ctx.fresh('transaction', ObjS)
        self.ds = ctx.fresh('data_sources', ObjS)
        self.n = z3.Length(self.rules)

    def gv(self):
        return GV(self.txn, self.ds)

    def vars_of(self, r):
        return z3.If(truthy(R_letb(r)), LB(r, self.txn, self.gv(), self.ds), self.gv())

    def h(self, r):
        a = (R_match_expr(r), self.txn, self.vars_of(r), self.ds)
        return z3.And(z3.Not(MT_err(*a)), MT_val(*a))

    def cat(self, r):
        return z3.Length(R_category(r)) > 0

    def rt(self, r):
        return RT(r, self.txn, self.vars_of(r), self.ds)


def ghosts(w):
    """Ghost functions for world w (index-recursive; arguments: the rule sequence)."""
    def filt_step(col):
        def step(s, k, acc):
            r = s[k]
            item = {'rule': r, 'spec': SP(r), 'vars': w.vars_of(r)}[col]
            return z3.If(w.h(r), z3.Concat(acc, z3.Unit(item)), acc)
        return step
    G = {}
    for col in ('rule', 'spec', 'vars'):
        G['Filt.' + col] = Ghost('Filt.' + col, [SeqObj], SeqObj, base=lambda s: z3.Empty(SeqObj), step=filt_step(col))
    G['First'] = Ghost('First', [SeqObj], IntS, base=lambda s: z3.IntVal(-1),
                       step=lambda s, k, acc: z3.If(acc >= 0, acc, z3.If(z3.And(w.h(s[k]), w.cat(s[k])), k, -1)))
    G['TagsU'] = Ghost('TagsU', [SeqObj], SetStr, base=lambda s: z3.EmptySet(StrS),
                       step=lambda s, k, acc: z3.If(w.h(s[k]), z3.SetUnion(acc, w.rt(s[k])), acc))
    return G


def unfold_all(G, seq, k):
    out = []
    for g in G.values():
        out.extend(g.unfold(seq, k))
    return out


def opt_parts(v):
    """(is_some, (a, b)) view of an Optional[Tuple[Obj, Obj]] value in any of its representations."""
    if v is None:
        return z3.BoolVal(False), None
    if isinstance(v, SymOpt):
        return v.is_some, v.value
    if isinstance(v, tuple) and len(v) == 2:
        return z3.BoolVal(True), v
    raise Unsupported('first_category_rule has unexpected shape %r' % (v,))


def match_spec(w, mode_models=None):
    G = ghosts(w)
    sp = Spec()

    def m_gv(I, args, kwargs, node):
        txn, ds = args[0], (args[1] if len(args) > 1 else kwargs.get('data_sources'))
        return Obj(GV(to_z3(txn), to_z3(ds)))

    def m_lb(I, args, kwargs, node):
        rule, txn, base, ds = args
        return Obj(LB(to_z3(rule), to_z3(txn), to_z3(base), to_z3(ds)))

    def m_mt(I, args, kwargs, node):
        expr, txn, vars_, ds = args
        a = (to_z3(expr, StrS), to_z3(txn), to_z3(vars_), to_z3(ds))
        if I.ctx.branch(MT_err(*a), 'MT.raises'):
            raise PyRaise('ExpressionError', (), 'matches_transaction')
        return MT_val(*a)

    def m_rt(I, args, kwargs, node):
        rule, txn, vars_, ds = args
        return SymSet(RT(to_z3(rule), to_z3(txn), to_z3(vars_), to_z3(ds)))

    def m_sp(I, args, kwargs, node):
        return Obj(SP(to_z3(args[0])), 'spec4')

    def m_ef(I, args, kwargs, node):
        rule, txn, vars_, ds = args
        return Obj(EF(to_z3(rule), to_z3(txn), to_z3(vars_), to_z3(ds)))

    sp.models['self._evaluate_variables'] = Func(m_gv)
    sp.models['self._evaluate_let_bindings'] = Func(m_lb)
    sp.models['expr_parser.matches_transaction'] = Func(m_mt)
    sp.models['self._resolve_tags'] = Func(m_rt)
    sp.models['calculate_specificity'] = Func(m_sp)
    sp.models['self._evaluate_fields'] = Func(m_ef)
    sp.exc_table['ExpressionError'] = 'Exception'
    sp.exc_table['UnsafeNodeError'] = 'ExpressionError'
    sp.exc_table['MerchantParseError'] = 'Exception'

    # ---- outer loop (for rule in self.rules) -----------------------------------------
    def inv0(I, env, k, it):
        seq = it.cols[0]
        out = {'bounds': z3.And(k >= 0, k <= z3.Length(seq))}
        mr = env['matching_rules']
        out['filt.rules'] = seq_col(mr, 0, ObjS) == G['Filt.rule'](seq, k)
        out['filt.spec'] = seq_col(mr, 1, ObjS) == G['Filt.spec'](seq, k)
        out['filt.vars'] = seq_col(mr, 2, ObjS) == G['Filt.vars'](seq, k)
        res = env['result']
        out['tag_rules'] = seq_col(res.fields['tag_rules'], 0, ObjS) == G['Filt.rule'](seq, k)
        out['tags'] = set_expr(env['all_tags'], StrS) == G['TagsU'](seq, k)
        some, val = opt_parts(env['first_category_rule'])
        F = G['First'](seq, k)
        out['first.some'] = some == (F >= 0)
        out['first.range'] = F < k
        if val is not None:
            out['first.rule'] = z3.Implies(some, to_z3(val[0]) == seq[F])
            out['first.vars'] = z3.Implies(some, to_z3(val[1]) == w.vars_of(seq[F]))
        return out

    def unfold0(I, env, k, it):
        return unfold_all(G, it.cols[0], k)

    havoc0 = {
        'matching_rules': lambda I: SymSeq([I.fresh('mr.rule', SeqObj), I.fresh('mr.spec', SeqObj), I.fresh('mr.vars', SeqObj)],
                                           3, ['MerchantRule', 'spec4', None]),
        'result.tag_rules': lambda I: SymSeq([I.fresh('tag_rules', SeqObj)], None, ['MerchantRule']),
        'all_tags': lambda I: SymSet(I.fresh('all_tags', SetStr)),
        'tag_sources': lambda I: Untracked(),
        'first_category_rule': lambda I: SymOpt(I.fresh('fcr.some', BoolS),
                                                (Obj(I.fresh('fcr.rule', ObjS), 'MerchantRule'), Obj(I.fresh('fcr.vars', ObjS)))),
    }
    sp.loops[(MATCH, 0)] = LoopSpec(inv0, havoc0, kind='auxiliary', unfold=unfold0)

    # ---- inner loop (for tag in resolved_tags): all_tags grows by exactly the processed tags
    def pre1(I, env):
        return set_expr(env['all_tags'], StrS)

    def inv1(I, env, P, it):
        return {'all_tags_is_pre_union_processed': set_expr(env['all_tags'], StrS) == z3.SetUnion(env['$pre'], P)}

    sp.loops[(MATCH, 1)] = LoopSpec(inv1, {'all_tags': lambda I: SymSet(I.fresh('all_tags_in', SetStr)),
                                           'tag_sources': lambda I: Untracked()}, kind='auxiliary', pre=pre1)
    return sp, G


def make_engine(w, mode):
    return Rec('MerchantEngine', {
        'rules': SymSeq([w.rules], None, ['MerchantRule']),
        'match_mode': mode,
        'variables': Untracked(), 'transforms': Untracked(), '_compiled_exprs': Untracked(),
    })


def run_match(ctx, mode):
    """Symbolically execute the real MerchantEngine.match; returns (world, ghosts, result Rec)."""
    w = World(ctx)
    sp, G = match_spec(w)
    I = Interp(ctx, sp)
    fi = find_function(MATCH)
    w.SEL = add_most_specific(sp, w, fi) if mode != 'first_match' else None
    eng = make_engine(w, mode)
    res = I.call_function(fi, [Obj(w.txn), Obj(w.ds)], {}, self_obj=eng)
    if not isinstance(res, Rec) or res.cls != 'MatchResult':
        raise Unsupported('match must return a MatchResult')
    for f in unfold_all(G, w.rules, z3.IntVal(-1)):
        ctx.assume(f)
    return w, G, res, I


def first_lemma_instance(w, G, k):
    """Quantifier-free instance of lemma.first_is_least (proved by induction in harness lemma.first_is_least)."""
    s = w.rules
    F = G['First'](s, k)
    return z3.Implies(F != -1, z3.And(F >= 0, F < k, w.h(s[F]), w.cat(s[F])))


def str_field(res, name):
    v = res.fields.get(name)
    if isinstance(v, str):
        return z3.StringVal(v)
    if v is None:
        raise Unsupported('MatchResult.%s missing' % name)
    return to_z3(v, StrS)


def rule_field(res, name):
    """(is_set: z3 Bool, rule: z3 Obj or None)"""
    v = res.fields.get(name, None)
    if v is None:
        return z3.BoolVal(False), None
    if isinstance(v, Obj):
        return z3.BoolVal(True), v.expr
    raise Unsupported('MatchResult.%s has unexpected value %r' % (name, v))


# ------------------------------------------------------------------------------------------
# most_specific mode: filter comprehensions over matching_rules and max(..., key=specificity)

sp_comp = [UF('specificity.%d' % i, ObjS, IntS) for i in range(4)]


def lexgt(a, b):
    """4-tuple a > b (Python tuple comparison = lexicographic)."""
    a_, b_ = [c(a) for c in sp_comp], [c(b) for c in sp_comp]
    out = z3.BoolVal(False)
    for i in reversed(range(4)):
        out = z3.Or(a_[i] > b_[i], z3.And(a_[i] == b_[i], out))
    return out


# ArgMax(keys, k): index of the first maximal key among keys[0..k)  (what Python's max returns)
ArgMax = Ghost('ArgMax', [SeqObj], IntS, base=lambda s: z3.IntVal(0),
               step=lambda s, k, acc: z3.If(k == 0, 0, z3.If(lexgt(s[k], s[acc]), k, acc)))


def sel_ghosts(name, pred):
    """Sel[name].col(R, S, V, k): rows i<k of the three columns whose rule satisfies pred."""
    out = {}
    for j, col in enumerate(('rule', 'spec', 'vars')):
        def step(R, S, V, k, acc, j=j):
            item = (R, S, V)[j][k]
            return z3.If(pred(R[k]), z3.Concat(acc, z3.Unit(item)), acc)
        out[col] = Ghost('Sel[%s].%s' % (name, col), [SeqObj, SeqObj, SeqObj], SeqObj,
                         base=lambda R, S, V: z3.Empty(SeqObj), step=step)
    return out


def spec_predicates(w):
    """Candidate predicates taken from the statements of C09 and C02: only rules that carry a category may
    decide merchant, category or subcategory."""
    return {
        'merchant': lambda r: z3.And(w.cat(r), z3.Length(R_merchant(r)) > 0),
        'category': lambda r: w.cat(r),
        'subcategory': lambda r: z3.And(w.cat(r), z3.Length(R_subcategory(r)) > 0),
    }


def add_most_specific(sp, w, fi):
    """Loop contracts for the three candidate lists and the model of max(); returns the Sel ghosts."""
    import ast
    from pyvc.interp import Frame
    fr = Frame(fi, {})
    preds = spec_predicates(w)
    SEL = {n: sel_ghosts(n, p) for n, p in preds.items()}
    found = {}
    for node in ast.walk(fi.node):
        if isinstance(node, ast.Assign) and isinstance(node.value, ast.ListComp) and len(node.targets) == 1 \
                and isinstance(node.targets[0], ast.Name):
            nm = node.targets[0].id
            key = {'merchant_rules': 'merchant', 'category_rules': 'category', 'subcategory_rules': 'subcategory'}.get(nm)
            if key:
                found[key] = fr.loop_ordinals[id(node.value)]
    for key, ordinal in found.items():
        def inv(I, env, k, it, key=key, ordinal=ordinal):
            acc = env['$acc%d' % ordinal]
            R, S, V = it.cols
            return {'sel.%s.%s' % (key, col): seq_col(acc, j, ObjS) == SEL[key][col](R, S, V, k)
                    for j, col in enumerate(('rule', 'spec', 'vars'))}

        def unfold(I, env, k, it, key=key):
            out = []
            for g in SEL[key].values():
                out.extend(g.unfold(*it.cols, k))
            return out
        havoc = {'$acc%d' % ordinal: (lambda key: lambda I: SymSeq([I.fresh('sel.%s.%s' % (key, c), SeqObj) for c in ('rule', 'spec', 'vars')],
                                                                   3, ['MerchantRule', 'spec4', None]))(key)}
        sp.loops[(fi.qualname, ordinal)] = LoopSpec(inv, havoc, kind='auxiliary', unfold=unfold)

    def m_max(I, args, kwargs, node):
        seq = args[0]
        keyf = kwargs.get('key')
        if not isinstance(seq, SymSeq) or seq.arity != 3 or keyf is None:
            raise Unsupported('max(): only max(list_of_(rule, specificity, vars), key=...) is modelled')
        i = I.fresh('max_probe', IntS)
        kv = I.apply(keyf, [seq.elem(i)], {}, node, None)
        if not isinstance(kv, Obj) or not z3.eq(z3.simplify(kv.expr), z3.simplify(seq.cols[1][i])):
            raise Unsupported('max(): key function must select the specificity component')
        n = seq.length()
        if I.ctx.branch(n == 0, 'max.empty'):
            I.raise_py('ValueError', node)
        for f in ArgMax.unfold(seq.cols[1], n - 1) + ArgMax.unfold(seq.cols[1], z3.IntVal(-1)):
            I.ctx.assume(f)
        return seq.elem(ArgMax(seq.cols[1], n))
    sp.models['max'] = Func(m_max)
    return SEL


def sel_terms(w, G, key):
    """(rule column, spec column, length) of the candidate list `key` at loop exit, as ghost terms."""
    FR, FS, FV = G['Filt.rule'](w.rules, w.n), G['Filt.spec'](w.rules, w.n), G['Filt.vars'](w.rules, w.n)
    m = z3.Length(FR)
    CR = w.SEL[key]['rule'](FR, FS, FV, m)
    CS = w.SEL[key]['spec'](FR, FS, FV, m)
    return CR, CS, z3.Length(CR)


def winner_lemma_instances(w, G, key):
    """Instances (at the winner index) of lemma.argmax_range and lemma.sel_satisfies_pred, both proved by
    induction in h_sel_lemmas."""
    CR, CS, L = sel_terms(w, G, key)
    a = ArgMax(CS, L)
    pred = spec_predicates(w)[key]
    FR, FS, FV = G['Filt.rule'](w.rules, w.n), G['Filt.spec'](w.rules, w.n), G['Filt.vars'](w.rules, w.n)
    base = []
    for g in w.SEL[key].values():
        base.extend(g.unfold(FR, FS, FV, z3.IntVal(-1)))      # defining equation at 0
    return base + [z3.Implies(L >= 1, z3.And(a >= 0, a < L)),
            z3.Implies(z3.And(a >= 0, a < L), pred(CR[a]))]


def h_sel_lemmas(ctx):
    """lemma.argmax_range:  k >= 1 => 0 <= ArgMax(s,k) < k     (induction on k)
       lemma.sel_satisfies_pred:  forall i < len(Sel[p].rule(R,S,V,k)). p(Sel[p].rule(R,S,V,k)[i])   (induction on k)
       lemma.argmax_is_first_max: no key among s[0..k) is greater than s[ArgMax(s,k)] and every earlier one is
       not equal-or-greater in the strict sense used by max (first maximal element)."""
    w = World(ctx)
    k = ctx.fresh('k', IntS)
    s = ctx.fresh('keys', SeqObj)
    i = z3.Int('i')
    which = ctx.choose(5, 'lemma')
    if which == 0:
        for f in ArgMax.unfold(s, k) + ArgMax.unfold(s, z3.IntVal(0)):
            ctx.assume(f)
        rng = lambda kk: z3.Implies(kk >= 1, z3.And(ArgMax(s, kk) >= 0, ArgMax(s, kk) < kk))
        ctx.check('lemma.argmax_range.base', rng(z3.IntVal(1)), 'property')
        ctx.assume(k >= 1)
        ctx.assume(rng(k))
        ctx.check('lemma.argmax_range.step', rng(k + 1), 'property')
        return
    if which == 1:
        for f in ArgMax.unfold(s, k) + ArgMax.unfold(s, z3.IntVal(0)):
            ctx.assume(f)

        def ismax(kk):
            a = ArgMax(s, kk)
            return z3.Implies(kk >= 1, z3.And(
                a >= 0, a < kk,
                z3.ForAll([i], z3.Implies(z3.And(i >= 0, i < kk), z3.Not(lexgt(s[i], s[a])))),
                z3.ForAll([i], z3.Implies(z3.And(i >= 0, i < a), lexgt(s[a], s[i])))))
        ctx.check('lemma.argmax_is_first_max.base', ismax(z3.IntVal(1)), 'property')
        ctx.assume(k >= 1)
        ctx.assume(ismax(k))
        # transitivity / totality facts of the lexicographic order on the three keys involved
        ctx.check('lemma.argmax_is_first_max.step', ismax(k + 1), 'property')
        return
    key = ['merchant', 'category', 'subcategory'][which - 2]
    pred = spec_predicates(w)[key]
    R, S, V = [ctx.fresh(n, SeqObj) for n in ('R', 'S', 'V')]
    sel = sel_ghosts(key, pred)['rule']
    for f in sel.unfold(R, S, V, k):
        ctx.assume(f)

    def allp(kk):
        c = sel(R, S, V, kk)
        return z3.ForAll([i], z3.Implies(z3.And(i >= 0, i < z3.Length(c)), pred(c[i])))
    ctx.check('lemma.sel_satisfies_pred.%s.base' % key, allp(z3.IntVal(0)), 'property')
    ctx.assume(k >= 0)
    ctx.assume(allp(k))
    ctx.check('lemma.sel_satisfies_pred.%s.step' % key, allp(k + 1), 'property')
