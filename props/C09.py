"""C09 - most_specific mode picks the most specific matching rule, whatever the order."""
import z3

from pyvc.core import Unsupported
from pyvc.extract import find_function
from pyvc.interp import Interp, Spec
from pyvc.runner import Harness
from pyvc.values import Obj, Func, UF, to_z3, set_expr, StrS, IntS, ObjS

from props import match_common as mc
from props import C01
from props.match_common import (World, ghosts, run_match, rule_field, str_field, MATCH, ME, R_category, R_subcategory,
                                R_priority, R_match_expr, SP, sp_comp, ArgMax, lexgt, SeqObj, sel_terms)

LEVEL = 'proof'
MIN_OBLIGATIONS = 80
lower = UF('str.lower', StrS, StrS)
count = UF('str.count', StrS, StrS, IntS)
PatLen = UF('extract_pattern_length', StrS, IntS)

PATTERN_FUNCS = ['contains(', 'regex(', 'normalized(', 'startswith(', 'fuzzy(', 'anyof(']
KIND_KEYWORDS = ['amount', 'date', 'month', 'year', 'day', 'weekday', 'source', 'field.']


def spec_key(rule):
    """The ranking key the statement describes, in the implementation's textual reading (DESIGN.md section 8):
    (explicit priority, number of pattern conditions, kinds of amount/date/source/field constraints, pattern text length)."""
    e = lower(R_match_expr(rule))
    pat = z3.Sum([count(e, z3.StringVal(f)) for f in PATTERN_FUNCS])
    kinds = z3.Sum([z3.If(z3.Contains(e, z3.StringVal(k)), 1, 0) for k in KIND_KEYWORDS])
    return [R_priority(rule), pat, kinds, PatLen(R_match_expr(rule))]


def h_calculate_specificity(ctx):
    sp = Spec()
    sp.models['_extract_pattern_length'] = Func(lambda I, a, k, n: PatLen(to_z3(a[0], StrS)))
    I = Interp(ctx, sp)
    rule = Obj(ctx.fresh('rule', ObjS), 'MerchantRule')
    r = I.call_function(find_function(ME + 'calculate_specificity'), [rule])
    if not isinstance(r, tuple) or len(r) != 4:
        raise Unsupported('calculate_specificity must return a 4-tuple')
    want = spec_key(rule.expr)
    names = ['priority', 'pattern_conditions', 'constraint_kinds', 'pattern_length']
    for j in range(4):
        ctx.check('C09.key.%d.%s' % (j, names[j]), to_z3(r[j], IntS) == want[j], 'property')
    ctx.cover('calculate_specificity.exit')


def h_match_most_specific(ctx):
    w, G, res, I = run_match(ctx, 'most_specific')
    seq, n = w.rules, w.n
    for key in ('merchant', 'category', 'subcategory'):
        for f in mc.winner_lemma_instances(w, G, key):
            ctx.assume(f)
    CR, CS, L = sel_terms(w, G, 'category')
    win = CR[ArgMax(CS, L)]
    matched = to_z3(I.truthy(res.fields['matched']))
    ctx.check('C09.matched_iff_a_categorizing_rule_matches', matched == (L >= 1), 'property')
    ctx.check('C09.category_of_highest_ranked', str_field(res, 'category') == z3.If(L >= 1, R_category(win), z3.StringVal('')), 'property')
    some, r = rule_field(res, 'matched_rule')
    ctx.check('C09.matched_rule.set_iff', some == (L >= 1), 'property')
    if r is not None:
        ctx.check('C09.matched_rule.is_highest_ranked', z3.Implies(L >= 1, r == win), 'property')
    SR, SS, SL = sel_terms(w, G, 'subcategory')
    swin = SR[ArgMax(SS, SL)]
    ctx.check('C09.subcategory_of_highest_ranked_that_sets_one',
              str_field(res, 'subcategory') == z3.If(SL >= 1, R_subcategory(swin), z3.StringVal('')), 'property')
    ctx.check('C09.tags_still_accumulate', set_expr(res.fields['tags'], StrS) == G['TagsU'](seq, n), 'property')
    ctx.cover('match.most_specific.exit')


def h_swap(ctx):
    """Order independence: swapping two adjacent candidates with different keys does not change the winner
    (the fold keeps the first maximal element; with exactly equal keys the earlier one wins)."""
    s1 = ctx.fresh('keys1', SeqObj)
    s2 = ctx.fresh('keys2', SeqObj)
    r1 = ctx.fresh('rules1', SeqObj)
    r2 = ctx.fresh('rules2', SeqObj)
    k = ctx.fresh('k', IntS)
    ctx.assume(k >= 1)
    ctx.assume(z3.And(s2[k] == s1[k + 1], s2[k + 1] == s1[k], r2[k] == r1[k + 1], r2[k + 1] == r1[k]))
    a1, a2 = ArgMax(s1, k), ArgMax(s2, k)
    ctx.assume(z3.And(a1 == a2, a1 >= 0, a1 < k, s1[a1] == s2[a1], r1[a1] == r2[a1]))
    ctx.assume(z3.Or(lexgt(s1[k], s1[k + 1]), lexgt(s1[k + 1], s1[k])))       # the two keys differ
    for s in (s1, s2):
        for f in ArgMax.unfold(s, k) + ArgMax.unfold(s, k + 1):
            ctx.assume(f)
    ctx.check('lemma.swap.winner_rule_unchanged', r1[ArgMax(s1, k + 2)] == r2[ArgMax(s2, k + 2)], 'property')
    ctx.check('lemma.swap.winner_key_unchanged', s1[ArgMax(s1, k + 2)] == s2[ArgMax(s2, k + 2)], 'property')


def harnesses(tier):
    return [
        Harness('calculate_specificity', h_calculate_specificity, [ME + 'calculate_specificity']),
        Harness('match[most_specific]', h_match_most_specific, [MATCH]),
        Harness('lemma.sel_argmax', mc.h_sel_lemmas, []),
        Harness('lemma.swap', h_swap, []),
    ]


ORACLES = [
    {'name': 'small-scope rule files in most_specific mode against a hand-keyed ranking specification (all orders of each rule set)',
     'script': 'C09.py', 'bound': 'all ordered rule lists of length <= 3 (quick) / 4 (thorough) over a pool of 16 rules with hand-written keys, 7 transactions'},
]
TRUSTED_BASE = [
    'pyvc symbolic executor', 'z3 5.1.0 / cvc5 1.0.3',
    'max(list, key) returns the first element with a maximal key; tuples compare lexicographically (models of builtins)',
    'str.count, str.lower, `in` on strings and the regex-based _extract_pattern_length are uninterpreted (A5, A6)',
    'callee contracts at the call sites of match()',
]
ASSUMPTIONS = ['"kinds of constraints" is read as the implementation\'s textual keyword count (DESIGN.md section 8)', 'A12 purity of rule evaluation']
EXPLANATION = ('calculate_specificity proved equal to the ranking key of the statement; match() in most_specific mode proved to return the ArgMax '
               '(first maximal key) of the matching categorizing rules via loop invariants over Filt/Sel ghosts; first-max and adjacent-swap lemmas '
               'by induction. Bounded stand-in (labelled): all orders of small rule sets on the real loader/matcher.')
