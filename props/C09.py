"""C09 - most_specific mode picks the most specific matching rule, whatever the order."""
import z3

from pyvc.core import Unsupported
from pyvc.extract import find_function
from pyvc.interp import Interp, Spec
from pyvc.ghost import Ghost
from pyvc.runner import Harness
from pyvc.values import Obj, Func, UF, to_z3, set_expr, StrS, IntS, ObjS

from props import match_common as mc
from props import C01
from props.match_common import (World, ghosts, run_match, rule_field, str_field, MATCH, ME, R_category, R_subcategory,
                                R_priority, R_match_expr, SP, sp_comp, ArgMax, lexgt, SeqObj, sel_terms)

LEVEL = 'proof'
MIN_OBLIGATIONS = 80
lower = UF('str.lower', StrS, StrS)
count = UF('str.count', StrS, StrS, IntS)

PATTERN_FUNCS = ['contains', 'regex', 'normalized', 'startswith', 'fuzzy', 'anyof']
KIND_NAMES = ['amount', 'date', 'month', 'year', 'day', 'weekday', 'source']
sv = z3.StringVal
SetS = z3.SetSort(StrS)
# the parsed expression: its nodes in ast.walk order, and the fields of a node the ranking reads (uninterpreted: A5)
Walk = UF('ast.walk', ObjS, SeqObj)
N_func, N_value = UF('astnode.func', ObjS, ObjS), UF('astnode.value', ObjS, ObjS)
N_id, N_attr = UF('astnode.id', ObjS, StrS), UF('astnode.attr', ObjS, StrS)
N_args = UF('astnode.args', ObjS, SeqObj)
TextLen = UF('len.of.str.constant', ObjS, IntS)
ParseFails = UF('parse_expression.raises', StrS, z3.BoolSort())
Tree = UF('parse_expression', StrS, ObjS)


def isa(cls, v):
    return UF('isinstance_' + cls, ObjS, z3.BoolSort())(v)


def one_of(x, names):
    return z3.Or(*[x == sv(nm) for nm in names])


def is_pattern_call(nd):
    """a call of one of the pattern functions, whatever the letter case or the spacing of its text"""
    return z3.And(isa('Call', nd), isa('Name', N_func(nd)), one_of(lower(N_id(N_func(nd))), PATTERN_FUNCS))


def arg_text(a):
    """a string literal argument contributes its length to the pattern text"""
    return z3.If(z3.And(isa('Constant', a), isa('str', N_value(a))), TextLen(N_value(a)), 0)


ArgLen = Ghost('C09.pattern_text_of_arguments', [SeqObj], IntS, base=lambda a: z3.IntVal(0), step=lambda a, j, acc: acc + arg_text(a[j]))


def kinds_step(nd, acc):
    name_kind = z3.And(isa('Name', nd), one_of(lower(N_id(nd)), KIND_NAMES))
    base = lower(N_id(N_value(nd)))
    attr = z3.And(isa('Attribute', nd), isa('Name', N_value(nd)))
    return z3.If(is_pattern_call(nd), acc,
                 z3.If(name_kind, z3.SetAdd(acc, lower(N_id(nd))),
                       z3.If(z3.And(attr, base == sv('field')), z3.SetAdd(acc, sv('field')),
                             z3.If(z3.And(attr, base == sv('txn'), one_of(lower(N_attr(nd)), KIND_NAMES)), z3.SetAdd(acc, lower(N_attr(nd))), acc))))


PatCount = Ghost('C09.pattern_conditions', [SeqObj], IntS, base=lambda s_: z3.IntVal(0), step=lambda s_, k, acc: acc + z3.If(is_pattern_call(s_[k]), 1, 0))
PatText = Ghost('C09.pattern_text', [SeqObj], IntS, base=lambda s_: z3.IntVal(0),
                step=lambda s_, k, acc: acc + z3.If(is_pattern_call(s_[k]), ArgLen(N_args(s_[k]), z3.Length(N_args(s_[k]))), 0))
Kinds = Ghost('C09.constraint_kinds', [SeqObj], SetS, base=lambda s_: z3.EmptySet(StrS), step=lambda s_, k, acc: kinds_step(s_[k], acc))


def spec_key(rule):
    """The ranking key the statement describes, read from the parsed match expression: (explicit priority, number of pattern conditions = calls of a
    pattern function, number of kinds of amount / date / source / field constraints = distinct constraint names used as values, field.<x> counting as
    one kind, total length of the pattern text = string literal arguments of the pattern functions)."""
    nodes = Walk(Tree(R_match_expr(rule)))
    n = z3.Length(nodes)
    card = UF('card[%s]' % SetS, SetS, IntS)
    return [R_priority(rule), PatCount(nodes, n), card(Kinds(nodes, n)), PatText(nodes, n)]


def h_calculate_specificity(ctx):
    import ast as _ast
    from pyvc.interp import Frame, LoopSpec, PyRaise
    from pyvc.values import SymSeq, SymSet
    sp = Spec()
    sp.exc_table.update({'ExpressionError': 'Exception'})
    I = Interp(ctx, sp)
    rule = Obj(ctx.fresh('rule', ObjS), 'MerchantRule')
    text = R_match_expr(rule.expr)

    def m_parse(I_, a, k, nd):
        t = to_z3(a[0], StrS)
        if I_.ctx.branch(ParseFails(t), 'match_expr.does_not_parse'):
            raise PyRaise('ExpressionError', (), 'parse_expression')
        return Obj(Tree(t), 'astnode')
    sp.models['expr_parser.parse_expression'] = Func(m_parse)
    sp.models['ast.walk'] = Func(lambda I_, a, k, nd: SymSeq([Walk(to_z3(a[0]))], None, ['astnode']))
    sp.field_sorts[('astnode', 'func')] = ('obj', 'astnode')
    sp.field_sorts[('astnode', 'value')] = ('obj', 'astnode')
    sp.field_sorts[('astnode', 'id')] = StrS
    sp.field_sorts[('astnode', 'attr')] = StrS
    sp.field_sorts[('astnode', 'args')] = ('seq', ObjS, 'astnode')
    sp.field_sorts[('astnode', 'len')] = lambda I_, v, node: TextLen(v.expr)        # len(arg.value) of a string constant
    q = ME + 'calculate_specificity'
    fi = find_function(q)
    nodes = Walk(Tree(text))
    n = z3.Length(nodes)
    fr = Frame(fi, {})
    all_fors = sorted([x for x in _ast.walk(fi.node) if isinstance(x, _ast.For)], key=lambda x: x.lineno)
    # the loops are told apart by what they run over, not by their number or position: the walk over the nodes of the expression, and (inside it, if the
    # code has one) the walk over the arguments of a call
    walks = [x for x in all_fors if isinstance(x.iter, _ast.Call) and _ast.unparse(x.iter.func) == 'ast.walk']
    arg_loops = [x for x in all_fors if isinstance(x.iter, _ast.Attribute) and x.iter.attr == 'args']
    if len(walks) != 1 or len(walks) + len(arg_loops) != len(all_fors):
        raise Unsupported('calculate_specificity: expected one walk over the nodes of the expression (and loops over the arguments of a call), found %s'
                          % [_ast.unparse(x.iter) for x in all_fors])
    fors = walks + arg_loops

    def as_set(v):
        return v.expr if isinstance(v, SymSet) and v.expr is not None else z3.EmptySet(StrS)

    def inv(I_, env, k, it):
        return {'pattern_conditions_so_far': to_z3(env['pattern_count'], IntS) == PatCount(nodes, k),
                'pattern_text_so_far': to_z3(env['pattern_length'], IntS) == PatText(nodes, k),
                'constraint_kinds_so_far': as_set(env['constraint_kinds']) == Kinds(nodes, k)}
    sp.loops[(q, fr.loop_ordinals[id(fors[0])])] = LoopSpec(
        inv, {'pattern_count': lambda c: c.fresh('pattern_count', IntS), 'pattern_length': lambda c: c.fresh('pattern_length', IntS),
              'constraint_kinds': lambda c: SymSet(c.fresh('constraint_kinds', SetS))},
        kind='property', unfold=lambda I_, env, k, it: PatCount.unfold(nodes, k) + PatText.unfold(nodes, k) + Kinds.unfold(nodes, k))
    inner = {}

    def pre(I_, env):
        inner['before'] = to_z3(env['pattern_length'], IntS)
        return None

    def inv_args(I_, env, j, it):
        args = it.cols[0]
        inner['args'] = args
        return {'pattern_text_of_the_arguments_so_far': to_z3(env['pattern_length'], IntS) == inner['before'] + ArgLen(args, j)}
    for al in arg_loops:
        sp.loops[(q, fr.loop_ordinals[id(al)])] = LoopSpec(inv_args, {'pattern_length': lambda c: c.fresh('pattern_length', IntS)}, kind='property', pre=pre,
                                                           unfold=lambda I_, env, j, it: ArgLen.unfold(it.cols[0], j))
    for g in (PatCount, PatText, Kinds):
        for f in g.unfold(nodes, z3.IntVal(-1)):
            ctx.assume(f)
    r = I.call_function(fi, [rule])
    if not isinstance(r, tuple) or len(r) != 4:
        raise Unsupported('calculate_specificity must return a 4-tuple')
    names = ['priority', 'pattern_conditions', 'constraint_kinds', 'pattern_length']
    if z3.is_true(z3.simplify(z3.And(*[to_z3(x, IntS) == 0 for x in r[1:]]))) and any(z3.eq(a, ParseFails(text)) for a in ctx.assumptions):
        # an expression that does not parse (cannot happen for a loaded rule: _add_rule validates it) ranks by its priority alone
        ctx.check('C09.key.unparsable_expression_ranks_by_priority_only', to_z3(r[0], IntS) == R_priority(rule.expr), 'property')
        ctx.cover('calculate_specificity.unparsable')
        return
    want = spec_key(rule.expr)
    for j in range(4):
        ctx.check('C09.key.%d.%s' % (j, names[j]), to_z3(r[j], IntS) == want[j], 'property')
    ctx.cover('calculate_specificity.exit')


def h_match_most_specific(ctx):
    w, G, res, I = run_match(ctx, 'most_specific')
    seq, n = w.rules, w.n
    for key in ('merchant', 'category', 'subcategory'):
        for f in mc.winner_lemma_instances(w, G, key):
            ctx.assume(f)
    CR, CS, L = sel_terms(w, G, 'category')
    win = CR[ArgMax(CS, L)]
    matched = to_z3(I.truthy(res.fields['matched']))
    ctx.check('C09.matched_iff_a_categorizing_rule_matches', matched == (L >= 1), 'property')
    ctx.check('C09.category_of_highest_ranked', str_field(res, 'category') == z3.If(L >= 1, R_category(win), z3.StringVal('')), 'property')
    some, r = rule_field(res, 'matched_rule')
    ctx.check('C09.matched_rule.set_iff', some == (L >= 1), 'property')
    if r is not None:
        ctx.check('C09.matched_rule.is_highest_ranked', z3.Implies(L >= 1, r == win), 'property')
    SR, SS, SL = sel_terms(w, G, 'subcategory')
    swin = SR[ArgMax(SS, SL)]
    ctx.check('C09.subcategory_of_highest_ranked_that_sets_one',
              str_field(res, 'subcategory') == z3.If(SL >= 1, R_subcategory(swin), z3.StringVal('')), 'property')
    ctx.check('C09.tags_still_accumulate', set_expr(res.fields['tags'], StrS) == G['TagsU'](seq, n), 'property')
    ctx.cover('match.most_specific.exit')


def h_swap(ctx):
    """Order independence: swapping two adjacent candidates with different keys does not change the winner
    (the fold keeps the first maximal element; with exactly equal keys the earlier one wins)."""
    s1 = ctx.fresh('keys1', SeqObj)
    s2 = ctx.fresh('keys2', SeqObj)
    r1 = ctx.fresh('rules1', SeqObj)
    r2 = ctx.fresh('rules2', SeqObj)
    k = ctx.fresh('k', IntS)
    ctx.assume(k >= 1)
    ctx.assume(z3.And(s2[k] == s1[k + 1], s2[k + 1] == s1[k], r2[k] == r1[k + 1], r2[k + 1] == r1[k]))
    a1, a2 = ArgMax(s1, k), ArgMax(s2, k)
    ctx.assume(z3.And(a1 == a2, a1 >= 0, a1 < k, s1[a1] == s2[a1], r1[a1] == r2[a1]))
    ctx.assume(z3.Or(lexgt(s1[k], s1[k + 1]), lexgt(s1[k + 1], s1[k])))       # the two keys differ
    for s in (s1, s2):
        for f in ArgMax.unfold(s, k) + ArgMax.unfold(s, k + 1):
            ctx.assume(f)
    ctx.check('lemma.swap.winner_rule_unchanged', r1[ArgMax(s1, k + 2)] == r2[ArgMax(s2, k + 2)], 'property')
    ctx.check('lemma.swap.winner_key_unchanged', s1[ArgMax(s1, k + 2)] == s2[ArgMax(s2, k + 2)], 'property')


def harnesses(tier):
    return [
        Harness('calculate_specificity', h_calculate_specificity, [ME + 'calculate_specificity']),
        Harness('match[most_specific]', h_match_most_specific, [MATCH]),
        Harness('lemma.sel_argmax', mc.h_sel_lemmas, []),
        Harness('lemma.swap', h_swap, []),
    ]


ORACLES = [
    {'name': 'small-scope rule files in most_specific mode against a hand-keyed ranking specification (all orders of each rule set)',
     'script': 'C09.py', 'bound': 'all ordered rule lists of length <= 3 (quick) / <= 3 and a 1-in-8 sample of length 4 (thorough) over a pool of 26 rules with hand-written keys (8 of them differing in ranking only), 8 transactions; legacy CSV in most_specific mode'},
]
TRUSTED_BASE = [
    'pyvc symbolic executor', 'z3 5.1.0 / cvc5 1.0.3',
    'max(list, key) returns the first element with a maximal key; tuples compare lexicographically (models of builtins)',
    'parse_expression, ast.walk and the fields of the parsed expression (func, id, args, value, attr), str.lower and len of a string constant are uninterpreted (A5): the key is proved relative to the tree the parser returns',
    'callee contracts at the call sites of match()',
]
ASSUMPTIONS = ['the ranking key is read from the parsed match expression: pattern conditions = calls of a pattern function, constraint kinds = distinct constraint names used as values (field.<x> one kind), pattern text = string literal arguments of the pattern calls', 'A12 purity of rule evaluation']
EXPLANATION = ('calculate_specificity proved equal to the ranking key of the statement; match() in most_specific mode proved to return the ArgMax '
               '(first maximal key) of the matching categorizing rules via loop invariants over Filt/Sel ghosts; first-max and adjacent-swap lemmas '
               'by induction. Bounded stand-in (labelled): all orders of small rule sets on the real loader/matcher.')
