"""C05 - every well-formed statement row becomes exactly one transaction, faithfully.

parse_generic_csv row loop (proof, per row + loop invariant):  transactions == Map(T, Filter(WF, rows[0..k)))
where WF and T are written from the statement.  parse_amount: sign / parentheses / separator structure
and finiteness against the float() contract.  The text->number step itself (which strings float() accepts
and what number they denote) and the csv reader are covered only by the bounded stand-in.
"""
import ast

import z3

from pyvc.core import Unsupported
from pyvc.extract import find_function
from pyvc.ghost import Ghost
from pyvc.interp import Interp, Spec, LoopSpec, PyRaise, Frame
from pyvc.runner import Harness
from pyvc.values import (SymSeq, SymSet, SymOpt, Rec, Obj, Func, Untracked, UF, StrS, IntS, RealS, BoolS, ObjS, to_z3, seq_col)

LEVEL = 'proof'
MIN_OBLIGATIONS = 100
P = 'tally.parsers.'
SeqStr = z3.SeqSort(StrS)
# a CSV row is an opaque object with a length and cells (RowLen / Cell): one level of sequences keeps both proof and REFUTATION within the solvers'
# reach (with rows as Seq(Seq String) z3 answered `unknown: incomplete (theory seq)` on every failing invariant step, cvc5 could not read them)
Rows = z3.SeqSort(ObjS)
RowLen = UF('row.len', ObjS, IntS)
Cell = UF('row.cell', ObjS, IntS, StrS)


class _Row:
    """spec-side view of a row object: r[i] and len"""

    def __init__(self, e):
        self.e = e

    def __getitem__(self, i):
        return Cell(self.e, i)


def row_hooks(sp):
    def getitem(I, o, k, node):
        zk = to_z3(k, IntS)
        n = RowLen(o.expr)
        inb = z3.And(zk >= -n, zk < n)
        if not I.ctx.branch(inb, 'index@%d' % node.lineno, prune=True):
            I.raise_py('IndexError', node)
        return Cell(o.expr, z3.If(zk >= 0, zk, n + zk))
    sp.field_sorts[('row', '[]')] = getitem
    sp.field_sorts[('row', 'len')] = lambda I, o, node: RowLen(o.expr)
strip = UF('str.strip', StrS, StrS)
split_ws = UF('str.split_ws', StrS, SeqStr)
DateOK = UF('strptime.ok', StrS, StrS, BoolS)
StrpTime = UF('strptime', StrS, StrS, ObjS)
DateOf = UF('datetime.date', ObjS, ObjS)
AmtOK = UF('parse_amount.ok', StrS, StrS, BoolS)
AmtVal = UF('parse_amount', StrS, StrS, RealS)


class Shape:
    """One symbolic FormatSpec of a given mode (M1a plain description, M1b description + extra field, M2 template)."""

    def __init__(self, ctx, mode):
        f = lambda n: ctx.fresh(n, IntS)
        self.mode = mode
        self.dc, self.ac = f('date_column'), f('amount_column')
        self.fmt = ctx.fresh('date_format', StrS)
        self.neg, self.abs = ctx.fresh('negate_amount', BoolS), ctx.fresh('abs_amount', BoolS)
        self.sep = ctx.fresh('decimal_separator', StrS)
        self.param_source = ctx.fresh('source_name_arg', StrS)
        self.cols = [self.dc, self.ac]
        self.has_loc = bool(ctx.choose(2, 'location_column'))
        self.lc = f('location_column') if self.has_loc else None
        self.src_override = ctx.fresh('spec_source_name', StrS) if ctx.choose(2, 'source_override') else None
        if self.src_override is not None:
            ctx.assume(z3.Length(self.src_override) > 0)
        self.extra, self.custom, self.template, self.dsc = None, None, None, None
        if mode in ('M1a', 'M1b'):
            self.dsc = f('description_column')
            self.cols.append(self.dsc)
            if mode == 'M1b':
                self.ek = f('extra_kind_column')
                self.extra = {'kind': self.ek}
                self.cols.append(self.ek)
        else:
            self.ca, self.cb = f('capture_a'), f('capture_b')
            self.custom = {'a': self.ca, 'b': self.cb}
            # M2: a template with literal text; M2p: placeholders only, so the description is empty when the captured cells are
            self.template = '{b} ({a})' if mode == 'M2' else '{b}{a}'
            self.cols += [self.ca, self.cb]
        if self.has_loc:
            self.cols.append(self.lc)
        for c in self.cols:
            ctx.assume(c >= 0)           # FormatSpec invariant: columns are positions (parse_format_string, C18)

    def rec(self):
        return Rec('FormatSpec', {
            'date_column': self.dc, 'date_format': self.fmt, 'amount_column': self.ac, 'description_column': self.dsc,
            'custom_captures': self.custom, 'description_template': self.template, 'extra_fields': self.extra,
            'location_column': self.lc, 'has_header': Untracked(), 'source_name': self.src_override,
            'negate_amount': self.neg, 'abs_amount': self.abs, 'delimiter': Untracked()})

    # ---- specification, from the statement --------------------------------------------------
    def source(self):
        return self.src_override if self.src_override is not None else self.param_source

    def maxcol(self):
        m = self.cols[0]
        for c in self.cols[1:]:
            m = z3.If(c > m, c, m)
        return m

    def desc(self, r):
        r = _Row(r)
        if self.mode == 'M2':
            return z3.Concat(strip(r[self.cb]), z3.StringVal(' ('), strip(r[self.ca]), z3.StringVal(')'))
        if self.mode == 'M2p':
            return z3.Concat(strip(r[self.cb]), strip(r[self.ca]))
        return strip(r[self.dsc])

    def date_part(self, r):
        r = _Row(r)
        cell = strip(r[self.dc])
        return z3.If(z3.Contains(self.fmt, z3.StringVal(' ')), cell, split_ws(cell)[0])

    def eff(self, r):
        r = _Row(r)
        v = AmtVal(strip(r[self.ac]), self.sep)
        return z3.If(self.abs, z3.If(v >= 0, v, -v), z3.If(self.neg, -v, v))

    def wf(self, r0):
        r = _Row(r0)
        return z3.And(RowLen(r0) > self.maxcol(),
                      z3.Length(strip(r[self.dc])) > 0, z3.Length(self.desc(r0)) > 0, z3.Length(strip(r[self.ac])) > 0,
                      DateOK(self.date_part(r0), self.fmt), AmtOK(strip(r[self.ac]), self.sep), self.eff(r0) != 0)

    def out_cols(self):
        """tracked fields of a transaction: (name, sort, spec value of row r, extractor from the txn dict)"""
        cols = [
            ('date', ObjS, lambda r: StrpTime(self.date_part(r), self.fmt), lambda d: to_z3(d['date'])),
            ('raw_description', StrS, self.desc, lambda d: to_z3(d['raw_description'], StrS)),
            ('amount', RealS, self.eff, lambda d: to_z3(d['amount'], RealS)),
            ('source', StrS, lambda r: self.source(), lambda d: to_z3(d['source'], StrS)),
        ]
        if self.mode == 'M1a':
            cols.append(('field_is_none', BoolS, lambda r: z3.BoolVal(True), lambda d: z3.BoolVal(d['field'] is None)))
        elif self.mode == 'M1b':
            cols.append(('field.kind', StrS, lambda r: strip(_Row(r)[self.ek]), lambda d: _field(d, ['kind'], 'kind')))
        else:
            cols.append(('field.a', StrS, lambda r: strip(_Row(r)[self.ca]), lambda d: _field(d, ['a', 'b'], 'a')))
            cols.append(('field.b', StrS, lambda r: strip(_Row(r)[self.cb]), lambda d: _field(d, ['a', 'b'], 'b')))
        return cols


def _field(d, keys, k):
    f = d.get('field')
    if not isinstance(f, dict) or sorted(f) != sorted(keys):
        raise Unsupported('txn["field"] must be the dict of captured columns %s' % keys)
    return to_z3(f[k], StrS)


def h_rows(mode):
    def h(ctx):
        sh = Shape(ctx, mode)
        rows = ctx.fresh('rows', Rows)
        cols = sh.out_cols()
        OUT = {name: Ghost('Out.' + name, [Rows], z3.SeqSort(sort), base=(lambda sort: lambda s: z3.Empty(z3.SeqSort(sort)))(sort),
                           step=(lambda val: lambda s, k, acc: z3.If(sh.wf(s[k]), z3.Concat(acc, z3.Unit(val(s[k]))), acc))(val))
               for name, sort, val, ex in cols}
        sp = Spec()
        sp.exc_table.update({'ExpressionError': 'Exception'})
        row_hooks(sp)
        I = Interp(ctx, sp)
        seen = {}
        orig_assign = I.assign

        def assign(t, v, frm):
            if isinstance(v, Obj) and v.cls == 'row':
                seen['row'] = v
            return orig_assign(t, v, frm)
        I.assign = assign
        transforms, data_sources, rules = Obj(ctx.fresh('transforms', ObjS)), Obj(ctx.fresh('data_sources', ObjS)), Obj(ctx.fresh('rules', ObjS))

        sp.models['_iter_rows_with_delimiter'] = Func(lambda I_, a, k, n: SymSeq([rows], None, ['row']))

        def m_strptime(I_, a, k, n):
            s, f = to_z3(a[0], StrS), to_z3(a[1], StrS)
            if I_.ctx.branch(z3.Not(DateOK(s, f)), 'strptime.raises'):
                raise PyRaise('ValueError', (), 'strptime')
            return Obj(StrpTime(s, f), 'datetime')
        sp.models['datetime.strptime'] = Func(m_strptime)
        sp.models['method:Obj:datetime.date'] = Func(lambda I_, a, k, n: Obj(DateOf(to_z3(a[0]))))

        def m_parse_amount(I_, a, k, n):
            s, sep = to_z3(a[0], StrS), to_z3(a[1], StrS)
            if I_.ctx.branch(z3.Not(AmtOK(s, sep)), 'parse_amount.raises'):
                raise PyRaise('ValueError', (), 'parse_amount')
            return AmtVal(s, sep)
        sp.models['parse_amount'] = Func(m_parse_amount)
        sp.models['extract_location'] = Func(lambda I_, a, k, n: Untracked())

        def m_normalize(I_, a, k, n):
            # call-site clause: the row's own values and the caller's settings are what is classified
            r = to_z3(seen['row'])        # the element the row loop is at (captured when the loop binds it, whatever the local is called)
            c = I_.ctx
            c.check('C05.classified.description_is_row_description', to_z3(a[0], StrS) == sh.desc(r), 'property')
            c.check('C05.classified.rules_passed', to_z3(a[1]) == rules.expr, 'property')
            c.check('C05.classified.amount_is_row_amount', to_z3(k.get('amount'), RealS) == sh.eff(r), 'property')
            c.check('C05.classified.date_is_row_date', to_z3(k.get('txn_date')) == DateOf(StrpTime(sh.date_part(r), sh.fmt)), 'property')
            c.check('C05.classified.source_name', to_z3(k.get('data_source'), StrS) == sh.source(), 'property')
            c.check('C05.classified.transforms_passed', isinstance(k.get('transforms'), Obj) and k['transforms'].expr is transforms.expr, 'property')
            c.check('C05.classified.data_sources_passed', isinstance(k.get('data_sources'), Obj) and k['data_sources'].expr is data_sources.expr, 'property')
            fld = k.get('field')
            if mode == 'M1a':
                c.check('C05.classified.field_none_without_captures', fld is None, 'property')
            else:
                c.check('C05.classified.field_is_captures', isinstance(fld, dict), 'property')
            which = I_.ctx.choose(3, 'match_info')
            m, cat, sub = [I_.ctx.fresh(x, StrS) for x in ('merchant', 'category', 'subcategory')]
            info = [None, {'pattern': Untracked(), 'source': 'user', 'tags': Untracked()},
                    {'pattern': Untracked(), 'source': 'user', 'tags': Untracked(), 'raw_values': {'_raw_description': I_.ctx.fresh('raw', StrS)},
                     'extra_fields': Untracked()}][which]
            return (m, cat, sub, info)
        sp.models['normalize_merchant'] = Func(m_normalize)

        fi = find_function(P + 'parse_generic_csv')
        fr = Frame(fi, {})
        fors = sorted([n for n in ast.walk(fi.node) if isinstance(n, ast.For)], key=lambda n: n.lineno)

        def inv(I_, env, k, it):
            t = env['transactions']
            out = {}
            for j, (name, sort, val, ex) in enumerate(cols):
                out['transactions.' + name] = _col(t, j, sort, cols) == OUT[name](it.cols[0], k)
            return out

        def unfold(I_, env, k, it):
            o = []
            for g in OUT.values():
                o.extend(g.unfold(it.cols[0], k))
            # external-function fact: a non-empty stripped cell has at least one whitespace-separated part
            if not z3.is_int_value(k) or k.as_long() >= 0:
                cell = strip(Cell(it.cols[0][k], sh.dc))
                o.append(z3.Implies(z3.Length(cell) > 0, z3.Length(split_ws(cell)) >= 1))
            return o

        def fresh_txns(I_):
            s = SymSeq([I_.fresh('txns.' + name, z3.SeqSort(sort)) for name, sort, val, ex in cols], None, None, keys=[c[0] for c in cols])
            s.extractors = [c[3] for c in cols]
            return s
        sp.loops[(fi.qualname, fr.loop_ordinals[id(fors[0])])] = LoopSpec(inv, {'transactions': fresh_txns}, kind='property', unfold=unfold)     # the statement itself, for the rows read so far
        for n in fors[1:]:
            pass     # inner loops run over concrete dict displays (captures / raw_values): unrolled
        res = I.call_function(fi, ['file.csv', sh.rec(), rules], {'source_name': sh.param_source, 'decimal_separator': sh.sep,
                                                                  'transforms': transforms, 'data_sources': data_sources})
        n_rows = z3.Length(rows)
        for g in OUT.values():
            for f in g.unfold(rows, z3.IntVal(-1)):
                ctx.assume(f)
        for j, (name, sort, val, ex) in enumerate(cols):
            ctx.check('C05.transactions_are_the_wellformed_rows_in_order.%s' % name, _col(res, j, sort, cols) == OUT[name](rows, n_rows), 'property')
        ctx.cover('parse_generic_csv.exit.%s' % mode)
    return h


def _col(t, j, sort, cols):
    if isinstance(t, SymSeq):
        return t.cols[j]
    if isinstance(t, list):
        out = z3.Empty(z3.SeqSort(sort))
        for d in t:
            out = z3.Concat(out, z3.Unit(to_z3(cols[j][3](d), sort)))
        return out
    raise Unsupported('transactions is not a list')


# ------------------------------------------------------------------------------------------ parse_amount
FloatOK = UF('float.ok', StrS, BoolS)
FloatVal = UF('float', StrS, RealS)
FloatFinite = UF('float.isfinite', StrS, BoolS)
re_sub_cur = UF('re.sub[currency]', StrS, StrS)
replace_all = UF('py.str.replace', StrS, StrS, StrS, StrS)


def h_parse_amount(ctx):
    """Structure of parse_amount over the cleaned string: result = +-float(clean(cell)), negative exactly for (..) cells, ValueError
    when float() rejects the cleaned text or the value is not finite."""
    sp = Spec()
    I = Interp(ctx, sp)
    cell = ctx.fresh('cell', StrS)
    european = bool(ctx.choose(2, 'decimal_separator'))
    sep = ',' if european else '.'
    last_clean = {}

    def m_float(I_, a, k, n):
        s = to_z3(a[0], StrS)
        last_clean['s'] = s
        if I_.ctx.branch(z3.Not(FloatOK(s)), 'float.raises'):
            raise PyRaise('ValueError', (), 'float')
        return FloatVal(s)
    sp.models['float'] = Func(m_float)
    sp.models['re.sub'] = Func(lambda I_, a, k, n: re_sub_cur(to_z3(a[2], StrS)) if a[0] == '[$€£¥]' and a[1] == '' else (_ for _ in ()).throw(Unsupported('re.sub pattern changed')))
    def m_isfinite(I_, a, k, n):
        v = to_z3(a[0], RealS)
        if 's' in last_clean and (z3.eq(v, FloatVal(last_clean['s'])) or z3.eq(z3.simplify(v), z3.simplify(-FloatVal(last_clean['s'])))):
            return FloatFinite(last_clean['s'])
        raise Unsupported('math.isfinite of something other than the parsed number')
    sp.models['math.isfinite'] = Func(m_isfinite)
    fi = find_function(P + 'parse_amount')
    # from the statement ("currency symbols and parenthesised negatives understood"): the symbols are dropped wherever they stand - $(5.00), ($5.00),
    # (5,00) EUR-sign - and what is left is the number, negative when it stands in parentheses
    s0 = strip(re_sub_cur(cell))
    paren = z3.And(z3.PrefixOf(z3.StringVal('('), s0), z3.SuffixOf(z3.StringVal(')'), s0))
    cur = z3.If(paren, strip(z3.SubString(s0, 1, z3.Length(s0) - 2)), s0)
    if european:
        # thousands separators of the European notation: period, space, no-break space (U+00A0), narrow no-break space (U+202F)
        clean = cur
        for t in ('.', ' ', '\u00a0', '\u202f'):
            clean = replace_all(clean, z3.StringVal(t), z3.StringVal(''))
        clean = replace_all(clean, z3.StringVal(','), z3.StringVal('.'))
    else:
        clean = replace_all(cur, z3.StringVal(','), z3.StringVal(''))
    try:
        val = I.call_function(fi, [cell, sep])
        ctx.check('C05.parse_amount.cleaned_text', last_clean['s'] == clean, 'property', witness={'cell': cell})
        ctx.check('C05.parse_amount.value_and_sign', to_z3(val, RealS) == z3.If(paren, -FloatVal(clean), FloatVal(clean)), 'property', witness={'cell': cell})
        ctx.check('C05.parse_amount.returns_only_finite_numbers', z3.And(FloatOK(clean), FloatFinite(clean)), 'property', witness={'cell': cell})
        ctx.cover('parse_amount.returns')
    except PyRaise as e:
        ctx.check('C05.parse_amount.raises_only_ValueError', e.cls == 'ValueError', 'property')
        ctx.check('C05.parse_amount.raises_only_for_bad_numbers', z3.Or(z3.Not(FloatOK(clean)), z3.Not(FloatFinite(clean))), 'property', witness={'cell': cell})
        ctx.cover('parse_amount.raises')


def harnesses(tier):
    return [Harness('parse_generic_csv[%s]' % m, h_rows(m), [P + 'parse_generic_csv']) for m in ('M1a', 'M1b', 'M2', 'M2p')] + \
           [Harness('parse_amount', h_parse_amount, [P + 'parse_amount'])]


ORACLES = [
    {'name': 'real CSV files through parse_generic_csv / resolve_source_format (all delimiters, header settings, sign modes, both decimal separators, '
             'short/blank/malformed rows interleaved) against a row-by-row specification; parse_amount against an exhaustive amount grammar incl. nan/inf',
     'script': 'C05.py', 'bound': 'amount grammar [(-]?[$€£¥]?d{1,4}([., ]d{3})*([.,]d{1,2})?[)]? up to 7 digits x 2 separators; files of <= 6 rows from a pool of 14 rows x 5 format strings x 4 delimiter settings; no-break-space grouping; 7 special files (regex delimiters with optional / alternative groups, byte order marks)'},
]
TRUSTED_BASE = [
    'pyvc symbolic executor', 'z3 5.1.0 / cvc5 1.0.3',
    'datetime.strptime, float(), re.sub, str.strip/replace/split, math.isfinite are uninterpreted (A4); the only fact used about them: a non-empty '
    'stripped cell has at least one whitespace-separated part',
    'the CSV reader and _iter_rows_with_delimiter (generator with a file handle) are outside the verified text: bounded stand-in only',
]
ASSUMPTIONS = ['FormatSpec columns are non-negative positions (established by parse_format_string, C18)',
               'normalize_merchant raises nothing (C08) and does not modify its arguments except through transforms (C07)',
               'floats are reals (A1); finiteness is tracked by a flag on float() results']
EXPLANATION = ('Loop invariant transactions == Map(T, Filter(WF, rows[0..k))) on the real parse_generic_csv for three FormatSpec shapes with symbolic column '
               'positions, formats and flags; call-site clause for normalize_merchant; parse_amount structure and finiteness against the float() contract. '
               'Bounded stand-in (labelled): real CSV files and an exhaustive amount grammar.')
