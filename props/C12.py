"""C12 - HTML, JSON, Markdown and text outputs all render and carry the same data.

  * every name read in a renderer is bound (syntactic definite-assignment clause over the real AST, nested helpers included): a renderer cannot fail
    with NameError / UnboundLocalError on a rarely taken branch because a name is bound nowhere.
  * figures (syntactic data-flow clause): income / spending / credits / transfers / cash-flow shown by each renderer are the analysed stats fields
    (single binding from stats.get('<field>', 0), or the stats.get call itself in the HTML data object).
  * make_merchant_id (proof): two different merchant names never receive the same id within one report (two calls on the shared state, while loop
    unrolled with an unwinding assertion), the same name always receives the same id.
  * embedding (syntactic): the embedded JSON passes through the two escaping replaces and the data placeholder is substituted last.
    The string obligation "no </ and no <!-- after replace_all" is beyond both solvers (cvc5 --strings-exp: timeout at 50 s, z3: unknown) and is
    covered by the bounded stand-in only; so are the byte-level round trip (html.parser then json) and build_category_view's sums.
"""
import ast
import builtins

import z3

from pyvc import extract, frames
from pyvc.core import Unsupported
from pyvc.extract import find_function
from pyvc.interp import Interp, Spec, PyRaise, Closure
from pyvc.runner import Harness
from pyvc.values import SymSeq, SymSet, SymMap, Rec, Obj, Func, Untracked, UF, StrS, IntS, BoolS, ObjS, to_z3

LEVEL = 'proof'
MIN_OBLIGATIONS = 12
AN = 'tally.analyzer.'
RP = 'tally.report.'
sv = z3.StringVal
replace_all = UF('py.str.replace', StrS, StrS, StrS, StrS)


def _helper(name='make_merchant_id'):
    fi = find_function(RP + 'write_summary_file_vue')
    mk = [n for n in ast.walk(fi.node) if isinstance(n, ast.FunctionDef) and n.name == name]
    if not mk:
        raise Unsupported('%s not found' % name)
    return fi, extract.FunctionInfo(fi.qualname + '.<locals>.' + name, fi.mod, mk[0])


def h_merchant_ids(ctx):
    """Representation invariant of the state shared by all calls within one report, INV(merchant_ids, used_ids):
         every recorded id is in used_ids, and different recorded names have different ids.
       One call from ANY state satisfying INV (arbitrarily many earlier calls): a known name gets its recorded id and nothing changes; a new name
       gets an id outside used_ids, which is then recorded and added.  So INV is preserved and, by induction over the calls of one report, ids are
       injective and stable for any number of merchants.  The while loop is cut at its invariant (only the negated guard is needed)."""
    sp = Spec()
    I = Interp(ctx, sp)
    fi, mfi = _helper()
    SetS = z3.SetSort(StrS)
    dom0, used0 = ctx.fresh('names_seen', SetS), ctx.fresh('used_ids', SetS)
    ids0 = ctx.fresh('merchant_ids', z3.ArraySort(StrS, StrS))
    x, y = ctx.fresh('x', StrS), ctx.fresh('y', StrS)     # two arbitrary names: the invariant is checked pointwise (skolemised forall)

    def INV(dom, ids, used, p, q):
        return z3.And(z3.Implies(z3.IsMember(p, dom), z3.IsMember(ids[p], used)),
                      z3.Implies(z3.And(z3.IsMember(p, dom), z3.IsMember(q, dom), p != q), ids[p] != ids[q]))
    # INV holds for all pairs of names; only the instances at (x, y) and (y, x) are needed, and assuming fewer instances keeps refutations quantifier-free
    ctx.assume(INV(dom0, ids0, used0, x, y))
    ctx.assume(INV(dom0, ids0, used0, y, x))
    # the initial state set up by the enclosing function satisfies INV (both empty): read from its source
    init = {}
    for st in fi.node.body:
        if isinstance(st, ast.Assign) and len(st.targets) == 1 and isinstance(st.targets[0], ast.Name) and st.targets[0].id in ('merchant_ids', 'used_ids'):
            init[st.targets[0].id] = I.eval_in(st.value, fi, {})
    ctx.check('C12.merchant_id_state_starts_empty', init.get('merchant_ids') == {} and isinstance(init.get('used_ids'), SymSet) and init['used_ids'].expr is None, 'property')
    env = {'merchant_ids': SymMap(StrS, {None: ids0}, dom=dom0), 'used_ids': SymSet(used0)}
    for nd in ast.walk(mfi.node):
        if isinstance(nd, ast.While):
            from pyvc.interp import Frame, LoopSpec
            sp.loops[(mfi.qualname, Frame(mfi, {}).loop_ordinals[id(nd)])] = LoopSpec(
                lambda I_, e, k, it: {}, {'candidate': lambda c: c.fresh('candidate', StrS), 'n': lambda c: c.fresh('n', IntS)})
    name = ctx.fresh('name', StrS)
    r = to_z3(I.call_function(mfi, [name], closure_env=env), StrS)
    dom1, ids1, used1 = env['merchant_ids'].dom, env['merchant_ids'].fields[None], env['used_ids'].expr
    known = z3.IsMember(name, dom0)
    ctx.check('C12.merchant_id_is_stable_for_a_name', z3.Implies(known, z3.And(r == ids0[name], dom1 == dom0, ids1 == ids0, used1 == used0)), 'property')
    ctx.check('C12.merchant_ids_are_injective.new_id_is_unused', z3.Implies(z3.Not(known), z3.Not(z3.IsMember(r, used0))), 'property')
    ctx.check('C12.merchant_ids_are_injective.new_id_is_recorded', z3.Implies(z3.Not(known), z3.And(z3.IsMember(name, dom1), ids1[name] == r, z3.IsMember(r, used1))), 'property')
    ctx.check('C12.merchant_ids_are_injective.nothing_else_changes', z3.Implies(z3.Not(known), z3.And(dom1 == z3.SetAdd(dom0, name), ids1 == z3.Store(ids0, name, r),
                                                                                                      z3.IsSubset(used0, used1))), 'property')
    ctx.check('C12.merchant_ids_are_injective.invariant_preserved', INV(dom1, ids1, used1, x, y), 'property')
    ctx.cover('make_merchant_id.returns')


def h_section_ids(ctx):
    """Views are keyed in the report data by make_section_id(name).  One call from ANY state of the set of ids handed out so far: the id returned was not
    handed out before, and afterwards it is (and nothing is forgotten) - so, by induction over the views of one report, no two views share an id and none
    replaces another.  The while loop is cut at its (empty) invariant: only the negated guard is needed."""
    sp = Spec()
    I = Interp(ctx, sp)
    fi, mfi = _helper('make_section_id')
    SetS = z3.SetSort(StrS)
    used0 = ctx.fresh('used_section_ids', SetS)
    init = {}
    for st in fi.node.body:
        if isinstance(st, ast.Assign) and len(st.targets) == 1 and isinstance(st.targets[0], ast.Name) and st.targets[0].id == 'used_section_ids':
            init['used'] = I.eval_in(st.value, fi, {})
    ctx.check('C12.section_id_state_starts_empty', isinstance(init.get('used'), SymSet) and init['used'].expr is None, 'property')
    env = {'used_section_ids': SymSet(used0)}
    for nd in ast.walk(mfi.node):
        if isinstance(nd, ast.While):
            from pyvc.interp import Frame, LoopSpec
            sp.loops[(mfi.qualname, Frame(mfi, {}).loop_ordinals[id(nd)])] = LoopSpec(
                lambda I_, e, k, it: {}, {'candidate': lambda c: c.fresh('candidate', StrS), 'n': lambda c: c.fresh('n', IntS)})
    r = to_z3(I.call_function(mfi, [ctx.fresh('name', StrS)], closure_env=env), StrS)
    used1 = env['used_section_ids'].expr
    ctx.check('C12.section_ids_are_injective.new_id_is_unused', z3.Not(z3.IsMember(r, used0)), 'property')
    ctx.check('C12.section_ids_are_injective.new_id_is_recorded_and_nothing_forgotten', used1 == z3.SetAdd(used0, r), 'property')
    ctx.cover('make_section_id.returns')


def harnesses(tier):
    return [Harness('make_merchant_id', h_merchant_ids, [RP + 'write_summary_file_vue.<locals>.make_merchant_id']),
            Harness('make_section_id', h_section_ids, [RP + 'write_summary_file_vue.<locals>.make_section_id'])]


# ------------------------------------------------------------------------------------------ structural clauses
FIGURES = ['income_total', 'spending_total', 'credits_total', 'cash_flow', 'transfers_in', 'transfers_out', 'transfers_net']


def names_bound(fi, mod):
    """every Name loaded in fi (and its nested functions) is a parameter, bound somewhere in an enclosing function, a module-level name, an import or a builtin"""
    missing = []

    def scope_names(fn):
        s = set(a.arg for a in fn.args.posonlyargs + fn.args.args + fn.args.kwonlyargs)
        if fn.args.vararg:
            s.add(fn.args.vararg.arg)
        if fn.args.kwarg:
            s.add(fn.args.kwarg.arg)
        for n in ast.walk(fn):
            if isinstance(n, ast.Name) and isinstance(n.ctx, (ast.Store, ast.Del)):
                s.add(n.id)
            elif isinstance(n, (ast.FunctionDef, ast.ClassDef)) and n is not fn:
                s.add(n.name)
                if isinstance(n, ast.FunctionDef):
                    for a in n.args.posonlyargs + n.args.args + n.args.kwonlyargs:
                        s.add(a.arg)
            elif isinstance(n, (ast.Import, ast.ImportFrom)):
                for a in n.names:
                    s.add((a.asname or a.name).split('.')[0])
            elif isinstance(n, ast.ExceptHandler) and n.name:
                s.add(n.name)
            elif isinstance(n, (ast.Lambda, ast.FunctionDef)) and n is not fn:
                for a in n.args.posonlyargs + n.args.args + n.args.kwonlyargs:
                    s.add(a.arg)
                if n.args.vararg:
                    s.add(n.args.vararg.arg)
                if n.args.kwarg:
                    s.add(n.args.kwarg.arg)
        return s
    module_names = set(mod.functions) | set(mod.classes) | set(mod.globals_const) | set(mod.imports)
    for n in mod.tree.body:
        if isinstance(n, (ast.Assign, ast.AnnAssign)):
            for t in ast.walk(n):
                if isinstance(t, ast.Name) and isinstance(t.ctx, ast.Store):
                    module_names.add(t.id)
    bound = scope_names(fi.node) | module_names | set(dir(builtins))
    for n in ast.walk(fi.node):
        if isinstance(n, ast.Name) and isinstance(n.ctx, ast.Load) and n.id not in bound:
            missing.append('%s (line %d)' % (n.id, n.lineno))
    return sorted(set(missing))


def figure_bindings(fi):
    """for each figure: list of expressions bound to the local of that name; plus uses of stats.get('<figure>') anywhere"""
    out = {}
    for n in ast.walk(fi.node):
        if isinstance(n, ast.Assign) and len(n.targets) == 1 and isinstance(n.targets[0], ast.Name) and n.targets[0].id in FIGURES:
            out.setdefault(n.targets[0].id, []).append(ast.unparse(n.value))
    return out


def structural(tier, res):
    out = []
    amod = extract.module('tally.analyzer')
    rmod = extract.module('tally.report')
    for q, mod in ((AN + 'export_json', amod), (AN + 'export_markdown', amod), (AN + 'print_summary', amod), (AN + 'print_sections_summary', amod),
                   (AN + 'build_merchant_json', amod), (RP + 'write_summary_file_vue', rmod), (RP + 'format_currency', rmod), (RP + 'format_currency_decimal', rmod)):
        fi = find_function(q)
        res.functions[q] = fi.describe()
        miss = names_bound(fi, mod)
        out.append(frames.Clause(q + '#every_name_read_is_bound', not miss, 'unbound: %s' % miss[:5] if miss else 'every loaded name has a binding'))
    # figures
    for q in (AN + 'export_markdown', AN + 'print_summary', AN + 'print_sections_summary'):
        fi = find_function(q)
        b = figure_bindings(fi)
        bad = []
        for f in ('income_total', 'spending_total', 'credits_total', 'cash_flow'):
            exprs = b.get(f, [])
            if f in b and exprs != ["stats.get('%s', 0)" % f] and exprs != ["stats['%s']" % f]:
                bad.append('%s bound from %s' % (f, exprs))
        used = set(n.id for n in ast.walk(fi.node) if isinstance(n, ast.Name) and isinstance(n.ctx, ast.Load))
        for f in ('income_total', 'spending_total', 'cash_flow'):
            if f not in b and ("stats.get('%s'" % f) not in ast.unparse(fi.node) and ("stats['%s']" % f) not in ast.unparse(fi.node):
                bad.append('%s is not taken from stats' % f)
        out.append(frames.Clause(q + '#figures_are_stats_fields', not bad, '; '.join(bad) if bad else 'figures are single bindings from the analysed stats', kind='auxiliary'))
    fi = find_function(RP + 'write_summary_file_vue')
    src = ast.unparse(fi.node)
    pairs = {'incomeTotal': 'income_total', 'spendingTotal': 'spending_total', 'creditsTotal': 'credits_total', 'cashFlow': 'cash_flow',
             'transfersIn': 'transfers_in', 'transfersOut': 'transfers_out', 'transfersNet': 'transfers_net', 'investmentTotal': 'investment_total'}
    bad = [k for k, v in pairs.items() if ("'%s': stats.get('%s', 0)" % (k, v)) not in src]
    out.append(frames.Clause(fi.qualname + '#figures_are_stats_fields', not bad, 'HTML data object: not taken from stats: %s' % bad if bad else 'HTML data object copies the analysed figures', kind='auxiliary'))
    fj = find_function(AN + 'export_json')
    sj = ast.unparse(fj.node)
    # each summary figure of the JSON export is the analysed stats field: written straight from stats, or through a local bound (once) to stats['<field>']
    jb = {}
    for n in ast.walk(fj.node):
        if isinstance(n, ast.Assign) and len(n.targets) == 1 and isinstance(n.targets[0], ast.Name):
            jb.setdefault(n.targets[0].id, []).append(ast.unparse(n.value))
    badj = []
    for k, field in (('income_total', 'income_total'), ('credits_total', 'credits_total'), ('gross_spending', 'spending_total')):
        direct = ("'%s': round(stats" % k) in sj or ("'%s': stats" % k) in sj
        via_local = ("'%s': round(%s, 2)" % (k, k)) in sj and jb.get(k) in (["stats['%s']" % field], ["stats.get('%s', 0)" % field])
        if not (direct or via_local):
            badj.append(k)
    out.append(frames.Clause(fj.qualname + '#figures_are_stats_fields', not badj,
                             'JSON summary recomputes %s instead of reporting the analysed figures' % badj if badj else 'JSON summary copies the analysed figures', kind='auxiliary'))
    # embedding
    # data_json = json.dumps(spending_data[, ...]).replace('</', '<\\/').replace('<!--', '\\u003c!--')   (shape read from the AST: keyword arguments of dumps are free)
    ok_escape = False
    for st in ast.walk(fi.node):
        if isinstance(st, ast.Assign) and len(st.targets) == 1 and isinstance(st.targets[0], ast.Name) and st.targets[0].id == 'data_json':
            reps, e = [], st.value
            while isinstance(e, ast.Call) and isinstance(e.func, ast.Attribute) and e.func.attr == 'replace' and len(e.args) == 2 and all(isinstance(x, ast.Constant) for x in e.args):
                reps.append((e.args[0].value, e.args[1].value))
                e = e.func.value
            is_dumps = isinstance(e, ast.Call) and ast.unparse(e.func) == 'json.dumps' and len(e.args) == 1 and ast.unparse(e.args[0]) == 'spending_data'
            ok_escape = is_dumps and ('</', '<\\/') in reps and ('<!--', '\\u003c!--') in reps
    out.append(frames.Clause(fi.qualname + '#embedded_json_is_escaped_for_script_context', ok_escape,
                             "json.dumps(...).replace('</', '<\\/').replace('<!--', '\\u003c!--')" if ok_escape else 'the embedded JSON is not escaped for a <script> context', kind='auxiliary'))
    # views are keyed by ids handed out by make_section_id (the proved allocator), one call per stored view
    keys = [st.targets[0].slice for st in ast.walk(fi.node) if isinstance(st, ast.Assign) and len(st.targets) == 1 and isinstance(st.targets[0], ast.Subscript)
            and isinstance(st.targets[0].value, ast.Name) and st.targets[0].value.id == 'sections']
    key_names = {k.id for k in keys if isinstance(k, ast.Name)}
    binds = [ast.unparse(st.value) for st in ast.walk(fi.node) if isinstance(st, ast.Assign) and any(isinstance(t, ast.Name) and t.id in key_names for t in st.targets)]
    ok_keys = bool(keys) and all(isinstance(k, ast.Name) for k in keys) and bool(binds) and all(b_.startswith('make_section_id(') for b_ in binds)
    out.append(frames.Clause(fi.qualname + '#views_are_keyed_by_allocated_ids', ok_keys, 'sections[<id>] with <id> = make_section_id(...)' if ok_keys else
                             'a view is stored under a key that does not come from make_section_id: %s' % binds, kind='auxiliary'))
    # the per-category breakdown by kind (typeTotals) buckets each transaction with the same precedence as the analysis: income, then investment, then transfer
    def tag_test_order(fn_node, names):
        """order in which an if / elif chain of fn_node tests membership of the special tags"""
        best = []
        for st in ast.walk(fn_node):
            if not isinstance(st, ast.If):
                continue
            chain, cur = [], st
            while isinstance(cur, ast.If):
                t = ast.unparse(cur.test)
                hit = [k for k, pats in names.items() if any(p_ in t for p_ in pats)]
                if len(hit) == 1 and ' in ' in t:
                    chain.append(hit[0])
                cur = cur.orelse[0] if len(cur.orelse) == 1 and isinstance(cur.orelse[0], ast.If) else None
            if len(chain) > len(best):
                best = chain
        return best
    want_order = ['income', 'investment', 'transfer']
    o_report = tag_test_order(fi.node, {'income': ["'income'"], 'investment': ["'investment'"], 'transfer': ["'transfer'"]})
    o_cls = tag_test_order(find_function('tally.classification.categorize_amount').node, {'income': ['INCOME_TAG'], 'investment': ['INVESTMENT_TAG'], 'transfer': ['TRANSFER_TAG']})
    ok_prec = o_report == want_order and o_cls == want_order
    out.append(frames.Clause(fi.qualname + '#type_totals_use_the_precedence_of_the_analysis', ok_prec,
                             'income, investment, transfer in both places' if ok_prec else 'typeTotals: %s, categorize_amount: %s' % (o_report, o_cls), kind='auxiliary'))
    order = [m for m in ('CSS_PLACEHOLDER', 'JS_PLACEHOLDER', 'DATA_PLACEHOLDER') if True]
    emb = src[src.rfind('else:'):] if 'else:' in src else src
    pos = [emb.find("'/* %s */'" % m) for m in order]
    ok_order = all(p >= 0 for p in pos) and pos[2] > pos[1] and pos[2] > pos[0]
    out.append(frames.Clause(fi.qualname + '#data_is_substituted_last', ok_order, 'CSS, JS, then DATA' if ok_order else 'the data placeholder is not the last substitution', kind='auxiliary'))
    # transaction ids carry the per-merchant index
    ok_ids = "'id': f'{merchant_id}_{i}'" in src and 'enumerate(' in src
    out.append(frames.Clause(fi.qualname + '#transaction_ids_unique_per_merchant', ok_ids, "id = f'{merchant_id}_{i}' over enumerate" if ok_ids else 'transaction id lost its index', kind='auxiliary'))
    # renderers cannot fail with ZeroDivisionError: every division by a data-derived quantity sits under a test of that quantity
    # (num_months is at least 1 by analyze_transactions: `len(all_months) if all_months else 12`)
    for q in (AN + 'export_json', AN + 'export_markdown', AN + 'print_summary', AN + 'print_sections_summary', AN + 'build_merchant_json', RP + 'write_summary_file_vue'):
        fi = find_function(q)
        parents = {}
        for n in ast.walk(fi.node):
            for c in ast.iter_child_nodes(n):
                parents[c] = n
        bad = []
        for n in ast.walk(fi.node):
            if not (isinstance(n, ast.BinOp) and isinstance(n.op, (ast.Div, ast.FloorDiv, ast.Mod))):
                continue
            if isinstance(n.op, ast.Mod) and isinstance(n.left, (ast.Constant, ast.JoinedStr)):
                continue                                   # string formatting
            if isinstance(n.right, ast.Constant):
                if n.right.value == 0:
                    bad.append('line %d: division by the constant 0' % n.lineno)
                continue                                   # a number, or pathlib's `/ 'name'`
            names = {x.id for x in ast.walk(n.right) if isinstance(x, ast.Name)} - {'len', 'abs', 'max', 'min', 'float', 'int'}
            if names == {'num_months'}:
                continue
            guarded, p_ = False, n
            while p_ in parents and not guarded:
                q_ = parents[p_]
                if isinstance(q_, ast.IfExp) and p_ is q_.body or isinstance(q_, ast.If) and p_ in q_.body:
                    tested = {x.id for x in ast.walk(q_.test) if isinstance(x, ast.Name)}
                    guarded = bool(names) and names <= tested
                p_ = q_
            if not guarded:
                bad.append('line %d: %s' % (n.lineno, ast.unparse(n)[:60]))
        out.append(frames.Clause(q + '#divisions_are_guarded', not bad, 'unguarded: %s' % bad[:4] if bad else 'every division by a data-derived quantity is under a test of it',
                                 kind='auxiliary'))
    return out


ORACLES = [
    {'name': 'small transaction sets with hostile text in descriptions, merchant names and tags through every renderer; HTML data decoded by html.parser then json and compared '
             'with what was analysed; merchant names enumerated over a small alphabet', 'script': 'C12.py',
     'bound': '9-transaction base set (+views, single, only-credit, merchants whose categories cancel out, only refunds, only income), 3- to 6-way id collisions, 8 hostile strings as description/tag and as merchant name, all merchant names of length <= 2 (quick) / 3 (thorough) over an 8/12-symbol alphabet in groups of 12'},
]
TRUSTED_BASE = ['pyvc symbolic executor and syntactic clauses in props/C12.py', 'z3 5.1.0 / cvc5 1.0.3',
                'HTML script-data rule (content ends at the first case-insensitive "</script", "<!--" changes state) and json.dumps escaping: exercised by the bounded stand-in, not proved',
                'str.replace and str() of an int are uninterpreted; a decimal suffix is non-empty']
ASSUMPTIONS = ['A10 the HTML and JSON parsers are outside the verified text', 'flow-insensitive definite assignment: a name bound on some path counts as bound']
EXPLANATION = ('make_merchant_id proved against a representation invariant of the shared state (one call from any state: injective and stable for any number of merchants; while loop cut at its invariant); '
               'definite-assignment, figure data-flow, embedding and division-guard clauses decided syntactically over the real AST; '
               'the replace_all string obligation is beyond both solvers and, with the decode round trip, is covered by the labelled bounded stand-in.')
