"""C17 - MerchantEngine.parse (rules files) by a loop invariant over the lines: every [header] line closes the rule that was open (through _add_rule,
with that rule's own header line number) and opens a new one; at the end of the file the last open rule is closed: so _add_rule is called exactly once
per header, in file order, with the header's line number - and _add_rule (its own contract, props/C17.py) appends exactly one rule or rejects.
Every rejection inside the loop is a MerchantParseError naming the line being read; blank and comment lines are skipped on their stripped text.
The CONTENT collected for a rule (a dict whose key set grows while its lines are read) is abstract here: which properties end up in the rule is decided
by _add_rule's contract plus the bounded stand-in.  Line classification (startswith / endswith / `in` on the stripped text, the two regular expressions)
is executed symbolically in the string theory, the regular expressions as uninterpreted predicates (A6)."""
import ast
import re as _re

import z3

from pyvc.extract import find_function
from pyvc.ghost import Ghost
from pyvc.interp import Interp, Spec, LoopSpec, PyRaise, Frame
from pyvc.runner import Harness
from pyvc.values import SymSeq, SymMap, Rec, Obj, Func, Untracked, UF, StrS, IntS, BoolS, ObjS, to_z3

ME = 'tally.merchant_engine.'
SS = z3.SeqSort(StrS)
SI = z3.SeqSort(IntS)
strip = UF('str.strip', StrS, StrS)
sv = z3.StringVal


def skipped(l):
    t = strip(l)
    return z3.Or(z3.Length(t) == 0, z3.PrefixOf(sv('#'), t))


def header(l):
    t = strip(l)
    return z3.And(z3.Not(skipped(l)), z3.PrefixOf(sv('['), t), z3.SuffixOf(sv(']'), t))


Lnos = Ghost('Rules.header_lines', [SS], SI, base=lambda s: z3.Empty(SI), step=lambda s, k, acc: z3.If(header(s[k]), z3.Concat(acc, z3.Unit(k + 1)), acc))
LastH = Ghost('Rules.last_header', [SS], IntS, base=lambda s: z3.IntVal(-1), step=lambda s, k, acc: z3.If(header(s[k]), k, acc))
GHOSTS = (Lnos, LastH)


def h_parse(ctx):
    sp = Spec()
    sp.exc_table.update({'ExpressionError': 'Exception', 'MerchantParseError': 'Exception'})
    I = Interp(ctx, sp)
    q = ME + 'MerchantEngine.parse'
    fi = find_function(q)
    lines = ctx.fresh('lines', SS)
    n = z3.Length(lines)
    orig_str_method = I.str_method

    def str_method(z, attr, args, node):
        if attr == 'split' and len(args) == 1 and args[0] == '\n':
            return SymSeq([lines])
        if attr == 'split' and len(args) == 2 and args[0] == ':' and args[1] == 1:
            # reached only under `':' in stripped`: exactly two parts
            return [UF('str.before_colon', StrS, StrS)(z), UF('str.after_colon', StrS, StrS)(z)]
        return orig_str_method(z, attr, args, node)
    I.str_method = str_method

    def m_rematch(I_, a, k, nd):
        pat = a[0]
        if not isinstance(pat, str):
            from pyvc.core import Unsupported
            raise Unsupported('re.match with a non-constant pattern')
        text = to_z3(a[1], StrS)
        if I_.ctx.branch(UF('re.match[%s]' % pat, StrS, BoolS)(text), 're.match'):
            flags['effect'] = True
            o = Obj(UF('re.matchobj[%s]' % pat, StrS, ObjS)(text), 'rematch')
            o.ngroups = _re.compile(pat).groups
            o.pat = pat
            return o
        return None
    sp.models['re.match'] = Func(m_rematch)
    sp.truthy_classes.add('rematch')
    sp.models['method:Obj:rematch.groups'] = Func(lambda I_, a, k, nd: tuple(UF('re.group[%s]' % a[0].pat, ObjS, IntS, StrS)(a[0].expr, z3.IntVal(i + 1)) for i in range(a[0].ngroups)))

    def m_parse_expr(I_, a, k, nd):
        if isinstance(a[0], Untracked):
            # the text of a {expression} tag (tags are not tracked by this contract): it parses or it does not
            if I_.ctx.choose(2, 'tag_expression.invalid'):
                raise PyRaise('ExpressionError', (), 'parse_expression')
            return Obj(I_.fresh('tree', ObjS), 'tree')
        if I_.ctx.branch(UF('parse_expression.raises', StrS, BoolS)(to_z3(a[0], StrS)), 'expression.invalid'):
            raise PyRaise('ExpressionError', (), 'parse_expression')
        return Obj(I_.fresh('tree', ObjS), 'tree')
    sp.models['expr_parser.parse_expression'] = Func(m_parse_expr)

    def m_int(I_, a, k, nd):
        v = a[0]
        if isinstance(v, int):
            return v
        if I_.ctx.branch(UF('int.raises', StrS, BoolS)(to_z3(v, StrS)), 'int.invalid'):
            raise PyRaise('ValueError', (), 'int')
        return UF('int', StrS, IntS)(to_z3(v, StrS))
    sp.models['int'] = Func(m_int)
    # the rule being collected: an opaque, non-empty dict (it always holds 'name')
    sp.truthy_classes.add('openrule')
    def touched(v):
        flags['effect'] = True
        return v
    sp.field_sorts[('setitem', 'openrule')] = lambda I_, o, k, v, node: touched(None)
    sp.field_sorts[('openrule', '[]')] = lambda I_, o, k, node: touched(Untracked())
    sp.field_sorts[('contains', 'openrule')] = lambda I_, c, item, node: touched(I_.ctx.fresh('key_present', BoolS))
    for meth in ('setdefault', 'get', 'update', 'pop', 'keys', 'items', 'values', 'copy'):
        sp.models['method:Obj:openrule.' + meth] = Func(lambda I_, a, k, nd: touched(Untracked()))        # dict methods on the rule being collected: content abstract
    calls = {'n': 0}
    flags = {}          # per loop iteration: did the code do anything with the line (open a rule, touch the open rule, store an assignment)?

    def m_add_rule(I_, a, k, nd):
        # contract of _add_rule (proved in props/C17.py): appends exactly one rule, or raises MerchantParseError naming the given line
        rule, lno = a[0], to_z3(a[1], IntS)
        ctx.check('C17.rules.a_rule_is_closed_with_the_rule_that_was_open', isinstance(rule, Obj) and rule.cls == 'openrule', 'property')
        me.fields['rules'].append(lno)
        calls['n'] += 1
        if I_.ctx.choose(2, '_add_rule.rejects'):
            raise PyRaise('MerchantParseError', (sv('rejected by _add_rule'), lno), '_add_rule')
        return None
    sp.models['self._add_rule'] = Func(m_add_rule)
    me = Rec('MerchantEngine', {})

    def inv(I_, env, k, it):
        closed = env['self'].fields['rules']
        closed = closed.cols[0] if isinstance(closed, SymSeq) else z3.Empty(SI)
        cur = env['current_rule']
        start = to_z3(env['rule_start_line'], IntS)
        seq = z3.Concat(closed, z3.Unit(start)) if cur is not None else closed
        out = {'closed_rules_plus_the_open_one_are_the_headers_so_far_in_order': seq == Lnos(lines, k),
               'a_rule_is_open_iff_a_header_was_seen': (LastH(lines, k) >= 0) if cur is not None else (LastH(lines, k) == -1)}
        if cur is not None:
            out['open_rule_started_at_its_header_line'] = start == LastH(lines, k) + 1
        if flags.get('in_step'):
            # end of an iteration that did not reject the line: the line was used (a header, an assignment, a property of the open rule), or it is
            # blank / a comment - nothing else is passed over in silence ("malformed ones are rejected, not trimmed")
            out['a_line_is_passed_over_only_if_blank_or_comment'] = z3.BoolVal(True) if flags.get('effect') else skipped(lines[flags['k']])
        return out

    def fresh_current(I_):
        return Obj(I_.fresh('open_rule', ObjS), 'openrule') if I_.ctx.choose(2, 'a_rule_is_open') else None
    def unfold(I_, env, k, it):
        # called right before the body runs on line k (step case), and at the entry / exit points with a numeral or the length
        flags.clear()
        if not z3.is_int_value(k) and not z3.eq(k, n):
            flags['in_step'], flags['k'] = True, k
        return [f for g in GHOSTS for f in g.unfold(lines, k)]
    fr = Frame(fi, {})
    at = {}
    fors = sorted([nd for nd in ast.walk(fi.node) if isinstance(nd, ast.For)], key=lambda x: x.lineno)
    sp.loops[(q, fr.loop_ordinals[id(fors[0])])] = LoopSpec(
        inv, {'current_rule': fresh_current, 'rule_start_line': lambda I_: I_.fresh('rule_start_line', IntS),
              'self.rules': lambda I_: SymSeq([I_.fresh('closed_rule_lines', SI)]), 'self.variables': lambda I_: Untracked(), 'self.transforms': lambda I_: Untracked()},
        kind='property', unfold=unfold,
        exit_facts=lambda I_, env, k, it: (at.__setitem__('k', k), [])[1])
    for nd in fors[1:]:
        # the character loop that splits a tags value: its state stays inside the value being built
        # (whatever scanning state the splitter keeps - nesting depth, quote, the part being collected: every local the loop body assigns or mutates)
        local = {t.id for x in ast.walk(nd) for t in ast.walk(x) if isinstance(t, ast.Name) and isinstance(t.ctx, ast.Store)}
        local |= {c.func.value.id for c in ast.walk(nd) if isinstance(c, ast.Call) and isinstance(c.func, ast.Attribute) and isinstance(c.func.value, ast.Name)
                  and c.func.attr in ('append', 'add', 'extend', 'clear', 'pop')}
        local -= {'current_rule', 'rule_start_line', 'self'}
        sp.loops[(q, fr.loop_ordinals[id(nd)])] = LoopSpec(lambda I_, env, k, it: {}, {v: (lambda I_: Untracked()) for v in sorted(local)})
    for g in GHOSTS:
        for f in g.unfold(lines, z3.IntVal(-1)):
            ctx.assume(f)
    orig_assign = I.assign

    def assign(t, v, frm):
        # current_rule = {'name': ...}: the freshly opened rule (content abstract)
        if isinstance(t, ast.Name) and t.id == 'current_rule' and isinstance(v, dict):
            flags['effect'] = True
            v = Obj(I.fresh('opened_rule', ObjS), 'openrule')
        return orig_assign(t, v, frm)
    I.assign = assign
    try:
        I.call_function(fi, [ctx.fresh('content', StrS)], {}, self_obj=me)
    except PyRaise as e:
        ctx.check('C17.rules.rejects_only_with_MerchantParseError', I.is_subclass(e.cls, 'MerchantParseError'), 'property', meta={'escaping': e.cls})
        args = e.args_ if isinstance(e.args_, tuple) else ()
        if len(args) >= 2:
            ln = to_z3(args[1], IntS)
            k = at.get('k', n)
            ctx.check('C17.rules.error_names_the_line_being_read_or_the_header_of_the_rejected_rule',
                      z3.Or(z3.And(ln == k + 1, k < n), z3.And(LastH(lines, k) >= 0, ln == LastH(lines, k) + 1)), 'property')
        else:
            ctx.check('C17.rules.error_names_the_line_being_read_or_the_header_of_the_rejected_rule', False, 'property')
        ctx.cover('parse.rejects')
        return
    closed = me.fields['rules']
    closed = closed.cols[0] if isinstance(closed, SymSeq) else z3.Empty(SI)
    ctx.check('C17.rules._add_rule_called_exactly_once_per_header_in_file_order_with_its_line', closed == Lnos(lines, n), 'property')
    ctx.cover('parse.returns')


def harnesses(tier):
    return [Harness('MerchantEngine.parse', h_parse, [ME + 'MerchantEngine.parse'], prune=True)]
