"""Environment model shared by the command-level properties (C11, C16, C20): symbolic argparse namespace, configuration,
data-source records, os.path functions, and an effect log of every modelled callee with its actual arguments."""
import z3

from pyvc.core import Unsupported
from pyvc.interp import Interp, Spec, LoopSpec, PyRaise
from pyvc.values import SymSeq, SymMap, Rec, Obj, Func, Untracked, UF, StrS, IntS, BoolS, ObjS, to_z3

Cfg = lambda key, sort: UF('config[%s]' % key, sort)             # configuration projections (0-ary UFs would do; kept as functions of nothing)
join = UF('os.path.join', StrS, StrS, StrS)
join3 = UF('os.path.join3', StrS, StrS, StrS, StrS)
normpath = UF('os.path.normpath', StrS, StrS)
dirname = UF('os.path.dirname', StrS, StrS)
abspath = UF('os.path.abspath', StrS, StrS)
Exists = UF('os.path.exists', StrS, BoolS)
S_file = UF('source.file', ObjS, StrS)
S_name = UF('source.name', ObjS, StrS)
S_supp = UF('source._supplemental', ObjS, BoolS)
S_ptype = UF('source._parser_type', ObjS, StrS)
S_spec = UF('source._format_spec', ObjS, ObjS)
S_sep = UF('source.decimal_separator', ObjS, ObjS)
lower = UF('str.lower', StrS, StrS)
truthy = UF('truthy', ObjS, BoolS)


class World:
    def __init__(self, ctx, sp):
        self.ctx, self.sp = ctx, sp
        self.calls = []          # (name, args, kwargs, path-condition length) in call order
        f = lambda n, s=ObjS: ctx.fresh(n, s)
        self.config_dir = f('config_dir', StrS)
        self.merchants_file = Obj(f('config._merchants_file'))
        self.rule_mode = f('config.rule_mode', StrS)
        self.sources = f('config.data_sources', z3.SeqSort(ObjS))
        self.views = Obj(f('config.sections'), 'views')
        self.has_views = None
        self.install()

    def log(self, name):
        def m(I, a, k, n):
            self.calls.append((name, list(a), dict(k), len(I.ctx.assumptions)))
            return self.result(name, I, a, k)
        return Func(m, name)

    def result(self, name, I, a, k):
        return Obj(I.fresh(name + '.result', ObjS), name)

    def install(self):
        sp, ctx = self.sp, self.ctx
        sp.exc_table.update({'ExpressionError': 'Exception', 'SystemExit': 'BaseException', 'MerchantParseError': 'Exception'})
        sp.models['os.path.abspath'] = Func(lambda I, a, k, n: Untracked() if isinstance(a[0], Untracked) else abspath(to_z3(a[0], StrS)))
        sp.models['os.path.isdir'] = Func(lambda I, a, k, n: I.ctx.fresh('isdir', BoolS))
        sp.models['os.path.exists'] = Func(lambda I, a, k, n: Exists(to_z3(a[0], StrS)))
        sp.models['os.path.normpath'] = Func(lambda I, a, k, n: normpath(to_z3(a[0], StrS)))
        sp.models['os.path.dirname'] = Func(lambda I, a, k, n: dirname(to_z3(a[0], StrS)))

        def m_join(I, a, k, n):
            if any(isinstance(x, Untracked) for x in a):
                return Untracked()
            zs = [to_z3(x, StrS) for x in a]
            if len(zs) == 2:
                return join(*zs)
            if len(zs) == 3:
                return join3(*zs)
            raise Unsupported('os.path.join arity')
        sp.models['os.path.join'] = Func(m_join)

        def m_exit(I, a, k, n):
            raise PyRaise('SystemExit', tuple(a), 'sys.exit')
        sp.models['sys.exit'] = Func(m_exit)
        sp.globals['sys.stderr'] = Untracked()
        # pure reporting helpers of the commands: they print, write nothing and decide nothing (their calls are inside the write-site clauses of C20)
        sp.models['_report_unloadable_rules'] = Func(lambda I, a, k, n: I.ctx.fresh('rules_file_unloadable', BoolS))
        # which supplemental sources were loaded is unknown to the command harnesses
        for cls_ in ('supp', 'load_supplemental_sources'):
            sp.field_sorts.setdefault(('contains', cls_), lambda I, c, item, node: I.ctx.fresh('supplemental_source_loaded', BoolS))
        sp.globals['sys.stdout'] = Untracked()
        sp.models['find_config_dir'] = Func(lambda I, a, k, n: self.config_dir)
        # configuration record
        cfg = Obj(ctx.fresh('config', ObjS), 'Config')
        self.config = cfg

        def cfg_get(I, a, k, n):
            key = a[1]
            if key == 'data_sources':
                return SymSeq([self.sources], None, ['Source'])
            if key == 'rule_mode':
                return self.rule_mode
            if key == '_merchants_file':
                return self.merchants_file
            if key == 'sections':
                if self.has_views is None:
                    self.has_views = bool(I.ctx.choose(2, 'config.has_views'))
                return self.views if self.has_views else None
            if isinstance(key, str):
                return Untracked()
            raise Unsupported('config.get(%r)' % (key,))
        sp.models['method:Obj:Config.get'] = Func(cfg_get)
        sp.truthy_classes.add('views')
        sp.models['load_config'] = Func(lambda I, a, k, n: (self.calls.append(('load_config', list(a), dict(k), 0)), cfg)[1])

        # data-source records
        def src_get(I, a, k, n):
            o, key = a[0], a[1]
            e = o.expr
            if key == '_supplemental':
                return S_supp(e)
            if key in ('_parser_type',):
                return S_ptype(e)
            if key == 'type':
                return S_ptype(e)
            if key == '_format_spec':
                return Obj(S_spec(e), 'FormatSpecT')
            if key == 'name':
                return S_name(e)
            if key == 'file':
                return S_file(e)
            if key == 'decimal_separator':
                return Obj(S_sep(e))
            return Untracked()
        sp.models['method:Obj:Source.get'] = Func(src_get)
        sp.field_sorts[('Source', '[]')] = lambda I, o, key, node: src_get(I, [o, key], {}, node)

        def stats_get(I, o, key, node):
            if isinstance(key, str):
                return Obj(UF('stats[%s]' % key, ObjS, ObjS)(o.expr), 'stats.' + key)
            raise Unsupported('stats[%r]' % (key,))
        sp.field_sorts[('analyze_transactions', '[]')] = stats_get
        sp.field_sorts[('setitem', 'analyze_transactions')] = lambda I, o, k, v, node: None
        sp.models['method:Obj:analyze_transactions.get'] = Func(lambda I, a, k, n: Untracked())
        for meth in ('keys', 'items', 'values'):
            sp.models['method:Obj:*.%s' % meth] = Func(lambda I, a, k, n: Untracked())
        for name in ('get_transforms', '_check_merchant_migration', 'load_supplemental_sources', 'parse_amex', 'parse_boa', 'parse_generic_csv',
                     'analyze_transactions', 'classify_by_sections', 'compute_section_totals', 'export_json', 'export_markdown', 'print_summary',
                     'print_sections_summary', 'write_summary_file_vue', '_check_deprecated_description_cleaning', '_warn_deprecated_parser',
                     '_print_deprecation_warnings', 'os.makedirs', 'get_all_rules', 'get_tag_only_rules', 'explain_description', 'normalize_merchant'):
            sp.models[name] = self.log(name)

    def args(self, **over):
        ctx = self.ctx
        d = {'config': None, 'settings': ctx.fresh('args.settings', StrS), 'quiet': ctx.fresh('args.quiet', BoolS),
             'migrate': ctx.fresh('args.migrate', BoolS), 'only': None, 'category': None, 'format': 'html', 'verbose': 0, 'summary': False,
             'output': None, 'embedded_html': Untracked(), 'group_by': 'merchant'}
        d.update(over)
        return Rec('Namespace', d)

    def called(self, name):
        return [c for c in self.calls if c[0] == name]
