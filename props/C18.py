"""C18 - a format string maps columns by position, and inspect's suggestion round-trips.

parse_format_string (proof modulo the tokenizer): with parts = strip(split(s, ',')) and an opaque tokenizer
tok(part) = (sign, name, fmt) | no match, the column loop is proved against ghost folds over the parts (positions of
reserved names, of custom captures, date format, sign mode); the validation part (missing required field, duplicate,
uncaptured template reference) raises ValueError and nothing else.  The tokenizer regular expression itself and
`tally inspect`'s builder are covered by the bounded stand-in.
"""
import ast

import z3

from pyvc.core import Unsupported
from pyvc.extract import find_function
from pyvc.ghost import Ghost
from pyvc.interp import Interp, Spec, LoopSpec, PyRaise, Frame
from pyvc.runner import Harness
from pyvc.values import (SymSeq, SymSet, SymMap, SymOpt, Rec, Obj, Func, Untracked, UF, StrS, IntS, BoolS, ObjS, to_z3)

LEVEL = 'proof'
MIN_OBLIGATIONS = 40
Q = 'tally.format_parser.parse_format_string'
SeqStr = z3.SeqSort(StrS)
lower = UF('str.lower', StrS, StrS)
strip = UF('str.strip', StrS, StrS)
Split = UF('str.split', StrS, StrS, SeqStr)
TokOK = UF('tok.matches', StrS, BoolS)
TokSign = UF('tok.sign', StrS, StrS)
TokName = UF('tok.name', StrS, StrS)
TokHasFmt = UF('tok.has_format', StrS, BoolS)
TokFmt = UF('tok.format', StrS, StrS)
IsDecimal = UF('str.isdecimal', StrS, BoolS)
RESERVED = ['date', 'amount', 'location', 'description', '_', '*', 'field']
ArrSI = z3.ArraySort(StrS, IntS)
SetS = z3.SetSort(StrS)


def name_of(p):
    return lower(TokName(p))


def is_skip(p):
    return z3.Or(name_of(p) == z3.StringVal('_'), name_of(p) == z3.StringVal('*'))


def is_reserved(p):
    return z3.Or(*[name_of(p) == z3.StringVal(r) for r in RESERVED])


def sv(x):
    return z3.StringVal(x)


FP = Ghost('FieldPos', [SeqStr], ArrSI, base=lambda s: z3.K(StrS, z3.IntVal(0)),
           step=lambda s, k, acc: z3.If(z3.And(z3.Not(is_skip(s[k])), is_reserved(s[k])), z3.Store(acc, name_of(s[k]), k), acc))
FPd = Ghost('FieldPosDom', [SeqStr], SetS, base=lambda s: z3.EmptySet(StrS),
            step=lambda s, k, acc: z3.If(z3.And(z3.Not(is_skip(s[k])), is_reserved(s[k])), z3.SetAdd(acc, name_of(s[k])), acc))
CC = Ghost('Captures', [SeqStr], ArrSI, base=lambda s: z3.K(StrS, z3.IntVal(0)),
           step=lambda s, k, acc: z3.If(z3.And(z3.Not(is_skip(s[k])), z3.Not(is_reserved(s[k]))), z3.Store(acc, name_of(s[k]), k), acc))
CCd = Ghost('CapturesDom', [SeqStr], SetS, base=lambda s: z3.EmptySet(StrS),
            step=lambda s, k, acc: z3.If(z3.And(z3.Not(is_skip(s[k])), z3.Not(is_reserved(s[k]))), z3.SetAdd(acc, name_of(s[k])), acc))
DF = Ghost('DateFormat', [SeqStr], StrS, base=lambda s: sv('%m/%d/%Y'),
           step=lambda s, k, acc: z3.If(z3.And(name_of(s[k]) == sv('date'), TokHasFmt(s[k]), z3.Length(TokFmt(s[k])) > 0), TokFmt(s[k]), acc))
NEG = Ghost('Negate', [SeqStr], BoolS, base=lambda s: z3.BoolVal(False),
            step=lambda s, k, acc: z3.If(z3.And(name_of(s[k]) == sv('amount'), TokSign(s[k]) == sv('-')), z3.BoolVal(True), acc))
ABS = Ghost('Abs', [SeqStr], BoolS, base=lambda s: z3.BoolVal(False),
            step=lambda s, k, acc: z3.If(z3.And(name_of(s[k]) == sv('amount'), TokSign(s[k]) != sv('-'), TokSign(s[k]) == sv('+')), z3.BoolVal(True), acc))
GH = [FP, FPd, CC, CCd, DF, NEG, ABS]


def sign_lemma(seq, k):
    """L_sign (proved by induction in harness lemma.sign_flags): the sign flags of the format string are those of its {amount} token - while no {amount}
    token has been read, neither flag is set.  Lets a body that ASSIGNS the flags at the {amount} token (which is read at most once: a second one is a
    duplicate) be proved against the same folds as a body that only ever sets them."""
    return z3.Implies(z3.Not(z3.IsMember(sv('amount'), FPd(seq, k))), z3.And(z3.Not(NEG(seq, k)), z3.Not(ABS(seq, k))))


def unfold_all(seq, k):
    out = []
    for g in GH:
        out.extend(g.unfold(seq, k))
    if not z3.is_int_value(k) or k.as_long() >= 0:
        out.append(sign_lemma(seq, k))
    return out


def h_sign_lemma(ctx):
    s = ctx.fresh('parts', SeqStr)
    k = ctx.fresh('k', IntS)
    for g in (FPd, NEG, ABS):
        for f in g.unfold(s, z3.IntVal(-1)) + g.unfold(s, k):
            ctx.assume(f)
    ctx.check('lemma.sign_flags.base', sign_lemma(s, z3.IntVal(0)), 'property')
    ctx.assume(k >= 0)
    ctx.assume(sign_lemma(s, k))
    ctx.check('lemma.sign_flags.step', sign_lemma(s, k + 1), 'property')


def map_parts(v, what):
    """(array, dom) of a dict value that may still be the concrete empty display"""
    if isinstance(v, dict) and not v:
        return z3.K(StrS, z3.IntVal(0)), z3.EmptySet(StrS)
    if isinstance(v, SymMap) and v.ksort is None:
        return z3.K(StrS, z3.IntVal(0)), z3.EmptySet(StrS)
    if isinstance(v, SymMap) and None in v.fields:
        return v.fields[None], v.dom
    raise Unsupported('%s must be a dict of positions' % what)


def strval(v):
    if isinstance(v, SymOpt):
        return to_z3(v.value, StrS)
    return to_z3(v, StrS)


def h_parse_format_string(ctx):
    sp = Spec()
    sp.truthy_classes.add('Match')
    I = Interp(ctx, sp)
    fmt = ctx.fresh('format_str', StrS)
    has_template = bool(ctx.choose(2, 'has_template'))
    template = ctx.fresh('description_template', StrS) if has_template else None
    if has_template:
        ctx.assume(z3.Length(template) > 0)
    raw = Split(fmt, sv(','))
    parts = ctx.fresh('parts', SeqStr)     # the stripped parts; linked to the code's list by the comprehension invariant
    refs = ctx.fresh('template_refs', SeqStr)
    MapStrip = Ghost('MapStrip', [SeqStr], SeqStr, base=lambda s: z3.Empty(SeqStr), step=lambda s, k, acc: z3.Concat(acc, z3.Unit(strip(s[k]))))
    sp.models['re.compile'] = Func(lambda I_, a, k, n: Obj(I_.fresh('pattern', ObjS), 'Pattern'))
    sp.models['method:Obj:Pattern.fullmatch'] = sp.models['method:Obj:Pattern.match'] = Func(lambda I_, a, k, n: SymOpt(TokOK(to_z3(a[1], StrS)), Obj(UF('tok', StrS, ObjS)(to_z3(a[1], StrS)), 'Match')))

    def m_group(I_, a, k, n):
        part = a[0].expr.arg(0)
        g = a[1]
        if g == 1:
            return TokSign(part)
        if g == 2:
            return TokName(part)
        if g == 3:
            return SymOpt(TokHasFmt(part), TokFmt(part))
        raise Unsupported('match.group(%r)' % (g,))
    sp.models['method:Obj:Match.group'] = Func(m_group)
    # the references of the description template: the names str.format will look up (stdlib's string.Formatter().parse inside the helper
    # _template_fields - trusted, bounded stand-in), or ValueError for a template str.format cannot read at all
    seen_refs = {}
    sp.models['method:str.isdecimal'] = Func(lambda I_, a, k, n: IsDecimal(to_z3(a[0], StrS)))

    def m_template_fields(I_, a, k, n):
        seen_refs['called'] = True
        if I_.ctx.choose(2, 'template.malformed'):
            from pyvc.interp import PyRaise
            raise PyRaise('ValueError', (), '_template_fields')
        return SymSeq([refs])
    sp.models['_template_fields'] = Func(m_template_fields)
    sp.models['list'] = Func(lambda I_, a, k, n: Untracked())

    def split_model(I_, a, k, n):
        return SymSeq([Split(to_z3(a[0], StrS), to_z3(a[1], StrS))])
    sp.models['method:str.split'] = Func(split_model)
    fi = find_function(Q)
    fr = Frame(fi, {})
    comp = [n for n in ast.walk(fi.node) if isinstance(n, ast.ListComp)]
    fors = sorted([n for n in ast.walk(fi.node) if isinstance(n, ast.For)], key=lambda n: n.lineno)
    # parts = [p.strip() for p in format_str.split(',')]
    o0 = fr.loop_ordinals[id(comp[0])]
    sp.loops[(Q, o0)] = LoopSpec(lambda I_, env, k, it: {'parts_are_stripped_pieces': _seq(env['$acc%d' % o0]) == MapStrip(it.cols[0], k)},
                                 {'$acc%d' % o0: lambda I_: SymSeq([I_.fresh('acc_parts', SeqStr)])},
                                 unfold=lambda I_, env, k, it: MapStrip.unfold(it.cols[0], k))

    def inv_main(I_, env, k, it):
        s = it.cols[0]
        fa, fd = map_parts(env['field_positions'], 'field_positions')
        ca, cd = map_parts(env['custom_captures'], 'custom_captures')
        x = z3.String('x')
        return {
            'field_positions.keys': fd == FPd(s, k),
            'field_positions.values': z3.ForAll([x], z3.Implies(z3.IsMember(x, FPd(s, k)), fa[x] == FP(s, k)[x])),
            'custom_captures.keys': cd == CCd(s, k),
            'custom_captures.values': z3.ForAll([x], z3.Implies(z3.IsMember(x, CCd(s, k)), ca[x] == CC(s, k)[x])),
            'date_format': strval(env['date_format']) == DF(s, k),
            'negate_amount': to_z3(env['negate_amount']) == NEG(s, k),
            'abs_amount': to_z3(env['abs_amount']) == ABS(s, k),
        }
    fresh_map = lambda nm: (lambda I_: SymMap(StrS, {None: I_.fresh(nm, ArrSI)}, dom=I_.fresh(nm + '.dom', SetS)))
    sp.loops[(Q, fr.loop_ordinals[id(fors[0])])] = LoopSpec(inv_main, {
        'field_positions': fresh_map('field_positions'), 'custom_captures': fresh_map('custom_captures'),
        'date_format': lambda I_: I_.fresh('date_format', StrS), 'negate_amount': lambda I_: I_.fresh('negate_amount', BoolS),
        'abs_amount': lambda I_: I_.fresh('abs_amount', BoolS)}, unfold=lambda I_, env, k, it: unfold_all(it.cols[0], k))
    # the loop over the references of the description template: "a description template naming an uncaptured column is rejected" - every reference
    # read so far is, as written (str.format looks names up case-sensitively), the name of a captured column; checked at one arbitrary position j
    j = ctx.fresh('some_reference', IntS)

    def inv_refs(I_, env, k, it):
        caps = env['custom_captures'] if 'custom_captures' in env else next((v for v in env.values() if isinstance(v, SymMap)), None)
        ca, cd = map_parts(caps, 'custom_captures')
        ref_j = it.cols[0][j]
        # ... and is a NAME: str.format reads a reference made of digits as a positional argument ({0}), never as the column called 0
        return {'every_reference_read_so_far_names_a_captured_column': z3.Implies(z3.And(j >= 0, j < k), z3.And(z3.IsMember(ref_j, cd), z3.Not(IsDecimal(ref_j))))}
    # ... wherever that loop is: in parse_format_string itself or in a helper of the module it was moved to
    ref_loops = 0
    for fname, fnode in fi.mod.functions.items():
        ffi = fi if fnode is fi.node else find_function('tally.format_parser.' + fname)
        ffr = Frame(ffi, {})
        for nd in ast.walk(fnode):
            if isinstance(nd, ast.For) and isinstance(nd.iter, ast.Call) and isinstance(nd.iter.func, ast.Name) and nd.iter.func.id == '_template_fields':
                sp.loops[(ffi.qualname, ffr.loop_ordinals[id(nd)])] = LoopSpec(inv_refs, {}, kind='property')
                ref_loops += 1
    for nd in fors[1:]:
        if (Q, fr.loop_ordinals[id(nd)]) not in sp.loops:
            sp.loops[(Q, fr.loop_ordinals[id(nd)])] = LoopSpec(lambda I_, env, k, it: {}, {})
    captured = {}
    orig_cut = I.cut_loop

    try:
        r = I.call_function(fi, [fmt, template])
    except PyRaise as e:
        ctx.check('C18.raises_only_ValueError', e.cls == 'ValueError', 'property', meta={'escaping': e.cls})
        ctx.cover('parse_format_string.raises')
        return
    if not isinstance(r, Rec) or r.cls != 'FormatSpec':
        raise Unsupported('parse_format_string must return a FormatSpec')
    # the stripped parts the loops ran over
    s = MapStripResult(ctx, raw, MapStrip)
    n = z3.Length(s)
    for f in unfold_all(s, z3.IntVal(-1)):
        ctx.assume(f)
    f = r.fields
    pos, posd = FP(s, n), FPd(s, n)
    ctx.check('C18.returns_only_with_date_and_amount', z3.And(z3.IsMember(sv('date'), posd), z3.IsMember(sv('amount'), posd)), 'property')
    ctx.check('C18.date_column_is_position_of_date_token', to_z3(f['date_column'], IntS) == pos[sv('date')], 'property')
    ctx.check('C18.amount_column_is_position_of_amount_token', to_z3(f['amount_column'], IntS) == pos[sv('amount')], 'property')
    for fld, nm in (('description_column', 'description'), ('location_column', 'location')):
        v = f[fld]
        some = v.is_some if isinstance(v, SymOpt) else z3.BoolVal(v is not None)
        ctx.check('C18.%s.set_iff_token_present' % fld, some == z3.IsMember(sv(nm), posd), 'property')
        if isinstance(v, SymOpt):
            ctx.check('C18.%s.is_position' % fld, z3.Implies(some, to_z3(v.value, IntS) == pos[sv(nm)]), 'property')
    ctx.check('C18.date_format', strval(f['date_format']) == DF(s, n), 'property')
    ctx.check('C18.negate_amount', to_z3(f['negate_amount']) == NEG(s, n), 'property')
    ctx.check('C18.abs_amount', to_z3(f['abs_amount']) == ABS(s, n), 'property')
    has_desc = z3.IsMember(sv('description'), posd)
    has_cc = CCd(s, n) != z3.EmptySet(StrS)
    ctx.check('C18.returns_only_with_description_or_captures', z3.Or(has_desc, has_cc), 'property')
    x = z3.String('x')
    for fld, cond in (('extra_fields', z3.And(has_desc, has_cc)), ('custom_captures', z3.And(z3.Not(has_desc), has_cc))):
        v = f[fld]
        if v is None:
            ctx.check('C18.%s.none_only_when_not_applicable' % fld, z3.Not(cond), 'property')
        elif isinstance(v, SymMap):
            ctx.check('C18.%s.present_only_when_applicable' % fld, cond, 'property')
            ctx.check('C18.%s.keys' % fld, v.dom == CCd(s, n), 'property')
            ctx.check('C18.%s.positions' % fld, z3.ForAll([x], z3.Implies(z3.IsMember(x, CCd(s, n)), v.fields[None][x] == CC(s, n)[x])), 'property')
        elif isinstance(v, SymOpt):
            raise Unsupported('%s optional shape' % fld)
    if not has_template:
        ctx.check('C18.captures_without_template_rejected', z3.Or(has_desc, z3.Not(has_cc)), 'property')
    elif seen_refs.get('called'):
        ctx.check('C18.accepted_template_names_captured_columns_only',
                  z3.Implies(z3.And(j >= 0, j < z3.Length(refs)), z3.And(z3.IsMember(refs[j], CCd(s, n)), z3.Not(IsDecimal(refs[j])))), 'property')
    ctx.cover('parse_format_string.returns')


def h_template_fields(ctx):
    """_template_fields(template) = the names str.format(**captures) looks up when it expands the template.  Taken from the language reference
    (format string syntax), not from the code: the replacement fields string.Formatter().parse reports, every one in order, except the `None` that stands
    for trailing literal text - the EMPTY name of an auto-numbered field `{}` is a name (one that no captured column has) - and, because "a format_spec
    field can also include nested replacement fields within it", after each name the lookups of its format spec (none for an empty one).  A template
    str.format cannot read is a ValueError.  A recursive call on a format spec is used through this same contract (partial correctness)."""
    from pyvc.interp import PyRaise
    sp = Spec()
    I = Interp(ctx, sp)
    SeqObj = z3.SeqSort(ObjS)
    is_none = UF('is_none', ObjS, BoolS)
    truthy = UF('truthy', ObjS, BoolS)                 # the engine's reading of `if format_spec:` on a value it does not track
    Nested = UF('str.format.lookups_of_format_spec', ObjS, SeqObj)
    names = ctx.fresh('parsed.field_names', SeqObj)
    specs = ctx.fresh('parsed.format_specs', SeqObj)
    other = [ctx.fresh('parsed.col%d' % j_, SeqObj) for j_ in (0, 3)]
    for c in other + [specs]:
        ctx.assume(z3.Length(c) == z3.Length(names))
    malformed = bool(ctx.choose(2, 'template_cannot_be_read'))
    top = {'text': None}

    def m_parse(I_, a, k, n):
        if malformed:
            raise PyRaise('ValueError', (), 'Formatter.parse')
        return SymSeq([other[0], names, specs, other[1]], 4, ['pyvalue', 'pyvalue', 'pyvalue', 'pyvalue'])
    sp.models['string.Formatter'] = Func(lambda I_, a, k, n: Obj(I_.fresh('formatter', ObjS), 'Formatter'))
    sp.models['method:Obj:Formatter.parse'] = Func(m_parse)
    x = z3.Const('x', ObjS)
    ctx.assume(z3.ForAll([x], z3.Implies(z3.Not(truthy(x)), Nested(x) == z3.Empty(SeqObj))))      # an empty format spec ('' is the falsy one) has no replacement fields
    Look = Ghost('FormatLookups', [SeqObj, SeqObj], SeqObj, base=lambda n_, s_: z3.Empty(SeqObj),
                 step=lambda n_, s_, k, acc: z3.If(is_none(n_[k]), acc, z3.Concat(acc, z3.Unit(n_[k]), Nested(s_[k]))))
    fi = find_function('tally.format_parser._template_fields')
    helpers = {}
    for q in ('tally.format_parser._replacement_fields',):
        try:
            helpers[q] = find_function(q)
        except Exception:
            pass

    def as_seq(v):
        if isinstance(v, list):
            out = z3.Empty(SeqObj)
            for y in v:
                out = z3.Concat(out, z3.Unit(to_z3(y)))
            return out
        if isinstance(v, SymSeq):
            return v.cols[0]
        raise Unsupported('the collected names are not a list (%r)' % (v,))

    def loops_over_parse(f):
        """(ordinal, accumulator variable) of every loop or comprehension of f that runs over <...>.parse(...)"""
        fr = Frame(f, {})
        out = []
        for n in ast.walk(f.node):
            it = None
            if isinstance(n, ast.ListComp):
                it, acc = n.generators[0].iter, '$acc%d' % fr.loop_ordinals[id(n)]
            elif isinstance(n, ast.For):
                it = n.iter
                apps = [c.func.value.id for c in ast.walk(n) if isinstance(c, ast.Call) and isinstance(c.func, ast.Attribute) and c.func.attr in ('append', 'extend')
                        and isinstance(c.func.value, ast.Name)]
                acc = apps[0] if apps and len(set(apps)) == 1 else None
            if it is not None and isinstance(it, ast.Call) and isinstance(it.func, ast.Attribute) and it.func.attr == 'parse':
                if acc is None:
                    raise Unsupported('%s: the loop over parse() collects into more than one list' % f.qualname)
                out.append((fr.loop_ordinals[id(n)], acc))
        return out
    found = 0
    for f in [fi] + list(helpers.values()):
        for ordinal, acc in loops_over_parse(f):
            found += 1
            sp.loops[(f.qualname, ordinal)] = LoopSpec(
                (lambda acc_: lambda I_, env, k, it: {'collected_so_far_are_the_lookups_of_the_fields_read_so_far': as_seq(env[acc_]) == Look(names, specs, k)})(acc),
                {acc: lambda c: SymSeq([c.fresh('kept', SeqObj)], None, ['pyvalue'])}, kind='property', unfold=lambda I_, env, k, it: Look.unfold(names, specs, k))
    if found != 1:
        raise Unsupported('_template_fields: expected exactly one loop over Formatter().parse(text) in it or its helper, found %d' % found)
    for q, hf in helpers.items():
        def m_helper(I_, a, k, n, hf=hf):
            if top['text'] is None:                      # the call on the template itself: the body is verified
                top['text'] = a[0]
                return I_.call_function(hf, list(a))
            v = a[0]                                      # a recursive call, on a format spec: by this contract, its lookups
            if not (isinstance(v, Obj) or z3.is_expr(v)):
                raise Unsupported('recursive call on %r' % (v,))
            return SymSeq([Nested(to_z3(v))], None, ['pyvalue'])
        sp.models[q.rsplit('.', 1)[1]] = Func(m_helper, q.rsplit('.', 1)[1])
    for f_ in Look.unfold(names, specs, z3.IntVal(-1)):
        ctx.assume(f_)
    try:
        r = I.call_function(fi, [ctx.fresh('template', StrS)])
    except PyRaise as e:
        ctx.check('C18.template_fields.unreadable_template_is_a_ValueError', z3.BoolVal(malformed and e.cls == 'ValueError'), 'property')
        ctx.cover('_template_fields.raises')
        return
    ctx.check('C18.template_fields.every_name_str_format_looks_up_is_reported_nested_format_specs_included',
              z3.BoolVal(not malformed) if not isinstance(r, (SymSeq, list)) else as_seq(r) == Look(names, specs, z3.Length(names)), 'property')
    ctx.cover('_template_fields.returns')


def _seq(v):
    if isinstance(v, SymSeq):
        return v.cols[0]
    if isinstance(v, list) and not v:
        return z3.Empty(SeqStr)
    raise Unsupported('expected a list of strings')


def MapStripResult(ctx, raw, MapStrip):
    for f in MapStrip.unfold(raw, z3.IntVal(-1)):
        ctx.assume(f)
    return MapStrip(raw, z3.Length(raw))


def h_position_reading(ctx):
    """Reading of the position ghosts (induction on k): a name in FieldPosDom(k) sits at an index < k whose token has that name;
    same for captures.  Together with the duplicate check this is 'columns are the indices of their tokens'."""
    s = ctx.fresh('parts', SeqStr)
    k = ctx.fresh('k', IntS)
    x = z3.String('x')
    which = ctx.choose(2, 'map')
    A, D = (FP, FPd) if which == 0 else (CC, CCd)

    def R(kk):
        return z3.ForAll([x], z3.Implies(z3.IsMember(x, D(s, kk)),
                                         z3.And(A(s, kk)[x] >= 0, A(s, kk)[x] < kk, name_of(s[A(s, kk)[x]]) == x, z3.Not(is_skip(s[A(s, kk)[x]])))))
    for f in unfold_all(s, k):
        ctx.assume(f)
    ctx.check('lemma.position_reading.%d.base' % which, R(z3.IntVal(0)), 'property')
    ctx.assume(k >= 0)
    ctx.assume(R(k))
    ctx.check('lemma.position_reading.%d.step' % which, R(k + 1), 'property')


def _existing(*qualnames):
    """helpers that are under the contract when the code has them (a tree without them is judged by the contract all the same)"""
    out = []
    for q in qualnames:
        try:
            find_function(q)
            out.append(q)
        except Exception:
            pass
    return out


def harnesses(tier):
    return [Harness('parse_format_string', h_parse_format_string, [Q]),
            Harness('lemma.sign_flags', h_sign_lemma, []),
            Harness('_template_fields', h_template_fields, ['tally.format_parser._template_fields'] + _existing('tally.format_parser._replacement_fields')),
            Harness('lemma.position_reading', h_position_reading, [])]


ORACLES = [
    {'name': 'all arrangements of date/description/amount/location/custom/skip tokens (with spelling variants) through the real parser against a positional '
             'specification; rejection cases; `tally inspect` suggestion round trip on generated CSV headers', 'script': 'C18.py',
     'bound': 'all permutations of up to 6 tokens from 9 token kinds x spelling variants (case, blanks, sign, format); 60 header arrangements for inspect; 15 spellings of template references (format spec, conversion, blanks, auto-numbered, attribute / index access, literal braces)'},
]
TRUSTED_BASE = ['pyvc symbolic executor', 'z3 5.1.0 / cvc5 1.0.3',
                'the tokenizer regular expression is an uninterpreted function tok(part) (A6): bounded stand-in only', 'str.split / str.strip / str.lower uninterpreted']
ASSUMPTIONS = ['A6 regular expressions opaque',
               'string.Formatter().parse(text) is an uninterpreted sequence of (literal, field name, format spec, conversion); the names str.format looks up are, per the '
               'language reference, each field name followed by the lookups of its format spec; an empty format spec has none (axiom)']
EXPLANATION = ('Loop invariants over positional ghost folds on the real parse_format_string (symbolic number of columns, opaque tokenizer), validation exits proved to raise '
               'only ValueError, position-reading lemma by induction; bounded stand-in (labelled): exhaustive small arrangements and the inspect round trip.')
