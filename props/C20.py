"""C20 - commands never alter or overwrite the user's statements, rules or settings.

  * write-site closure (syntactic): the file-system write primitives of the whole package are regenerated from the AST on every run; the sites
    reachable (static call graph) from cmd_run / cmd_explain / cmd_discover / cmd_diag / cmd_inspect must be within the allowed set: the report
    writer (report.write_summary_file_vue, output dir creation in cmd_run) and - for cmd_run only - the migration helper.
  * migration guard (proof): in cmd_run with the real _check_merchant_migration inlined, _migrate_csv_to_rules is reached only when the user passed
    --migrate or answered y on an interactive terminal, and only for a legacy CSV rules file, with backup=True.
  * report location (proof): write_summary_file_vue gets args.output, or <budget>/<output_dir>/<html_filename>; os.makedirs is applied to that output dir.
  * tally init (proof over a ghost file system): every open(path, 'w') in init_config happens under not exists(path); settings.yaml is only opened for
    reading or appending; the rule migration in init runs only for an existing CSV with rules and no merchants.rules, with backup=True.
"""
import ast

import z3

from pyvc import callgraph, frames
from pyvc.core import Unsupported, PathEnd
from pyvc.extract import find_function
from pyvc.interp import Interp, Spec, LoopSpec, PyRaise, Frame
from pyvc.runner import Harness
from pyvc.values import SymSeq, Rec, Obj, Func, Untracked, UF, StrS, IntS, BoolS, ObjS, to_z3

from props import cmd_common as cc

LEVEL = 'proof'
MIN_OBLIGATIONS = 20
sv = z3.StringVal
lower, strip = UF('str.lower', StrS, StrS), UF('str.strip', StrS, StrS)


def h_migration_guard(ctx):
    sp = Spec()
    I = Interp(ctx, sp)
    w = cc.World(ctx, sp)
    sp.inline.add('tally.cli._check_merchant_migration')
    sp.models.pop('_check_merchant_migration', None)
    fmt = ['csv', 'new', None][ctx.choose(3, 'merchants_format')]
    isatty = ctx.fresh('stdout.isatty', BoolS)
    answer = ctx.fresh('typed_answer', StrS)
    w.merchants_file.cls = 'rulesfile'
    sp.truthy_classes.add('rulesfile')
    base_get = sp.models['method:Obj:Config.get'].fn

    def cfg_get(I_, a, k, n):
        if a[1] == '_merchants_format':
            return fmt
        if a[1] == '_merchants_file':
            return w.merchants_file if fmt else None
        return base_get(I_, a, k, n)
    sp.models['method:Obj:Config.get'] = Func(cfg_get)
    sp.models['sys.stdout.isatty'] = Func(lambda I_, a, k, n: isatty)
    sp.models['input'] = Func(lambda I_, a, k, n: answer)
    sp.models['load_merchant_rules'] = Func(lambda I_, a, k, n: Untracked())
    sp.models['len'] = Func(lambda I_, a, k, n: Untracked())
    sp.globals['C'] = Untracked()
    args = w.args()
    migrate_flag = args.fields['migrate']
    seen = []

    def m_migrate(I_, a, k, n):
        seen.append(1)
        requested = z3.Or(migrate_flag, z3.And(isatty, lower(strip(answer)) == sv('y')))
        I_.ctx.check('C20.migration_only_when_explicitly_requested', requested, 'property', witness={'migrate': migrate_flag, 'isatty': isatty, 'answer': answer})
        I_.ctx.check('C20.migration_only_for_a_legacy_csv_rules_file', fmt == 'csv', 'property')
        I_.ctx.check('C20.migration_of_the_configured_csv', isinstance(a[0], Obj) and a[0].expr is w.merchants_file.expr, 'property')
        bk = k.get('backup', a[2] if len(a) > 2 else True)
        I_.ctx.check('C20.migration_keeps_the_original_as_backup', bk is True, 'property')
        I_.ctx.cover('migration_reached')
        return I_.ctx.fresh('migration_ok', BoolS)
    sp.models['_migrate_csv_to_rules'] = Func(m_migrate)
    fi = find_function('tally.commands.run.cmd_run')
    body = fi.node.body
    # stop right after the rules have been loaded (the statement following the _check_merchant_migration call)
    idx = next(i for i, st in enumerate(body) if '_check_merchant_migration' in ast.unparse(st))
    sp.stop = (fi.qualname, body[idx + 1].lineno, lambda I_, fr: I_.ctx.cover('rules_loaded'))
    try:
        I.call_function(fi, [args])
    except PyRaise as e:
        if e.cls not in ('SystemExit', 'EOFError', 'KeyboardInterrupt'):
            ctx.check('C20.cmd_run.prefix_raises_only_SystemExit', False, 'property', meta={'escaping': e.cls})


def h_report_location(ctx):
    sp = Spec()
    I = Interp(ctx, sp)
    w = cc.World(ctx, sp)
    has_out = bool(ctx.choose(2, 'args.output'))
    out_arg = ctx.fresh('args.output', StrS)
    if has_out:
        ctx.assume(z3.Length(out_arg) > 0)
    outdir_cfg, html_cfg = ctx.fresh('config.output_dir', StrS), ctx.fresh('config.html_filename', StrS)
    base_get = sp.models['method:Obj:Config.get'].fn

    def cfg_get(I_, a, k, n):
        if a[1] == 'output_dir':
            return outdir_cfg
        if a[1] == 'html_filename':
            return html_cfg
        return base_get(I_, a, k, n)
    sp.models['method:Obj:Config.get'] = Func(cfg_get)
    sp.models['len'] = Func(lambda I_, a, k, n: Untracked())
    sp.models['os.path.abspath'] = Func(lambda I_, a, k, n: Untracked())
    log = []
    sp.models['os.makedirs'] = Func(lambda I_, a, k, n: log.append(('makedirs', a, k)))
    sp.models['write_summary_file_vue'] = Func(lambda I_, a, k, n: log.append(('report', a, k)))
    fi = find_function('tally.commands.run.cmd_run')
    fr = Frame(fi, {})
    fors = sorted([n for n in ast.walk(fi.node) if isinstance(n, ast.For)], key=lambda n: n.lineno)
    sp.loops[(fi.qualname, fr.loop_ordinals[id(fors[0])])] = LoopSpec(lambda I_, env, k, it: {}, {'all_txns': lambda I_: SymSeq([I_.fresh('all_txns', z3.SeqSort(ObjS))])})
    for nd in ast.walk(fi.node):
        if isinstance(nd, (ast.DictComp, ast.SetComp, ast.ListComp, ast.GeneratorExp)):
            sp.abstract_comprehensions.add((fi.qualname, fr.loop_ordinals[id(nd)]))
    args = w.args(format='html', output=out_arg if has_out else None)
    try:
        I.call_function(fi, [args])
    except PyRaise as e:
        return
    reports = [x for x in log if x[0] == 'report']
    mk = [x for x in log if x[0] == 'makedirs']
    ctx.check('C20.exactly_one_report_file_written', len(reports) == 1, 'property')
    if len(reports) != 1:
        return
    path = to_z3(reports[0][1][1], StrS)
    outdir = cc.join(cc.dirname(w.config_dir), outdir_cfg)
    if has_out:
        ctx.check('C20.report_goes_to_args_output', path == out_arg, 'property')
        ctx.check('C20.no_directory_created_for_explicit_output', len(mk) == 0, 'property')
    else:
        ctx.check('C20.report_goes_to_output_dir', path == cc.join(outdir, html_cfg), 'property')
        ctx.check('C20.only_the_output_dir_is_created', len(mk) == 1 and z3.is_expr(mk[0][1][0]) or len(mk) == 1, 'property')
        if len(mk) == 1:
            ctx.check('C20.created_dir_is_the_output_dir', to_z3(mk[0][1][0], StrS) == outdir, 'property')
    ctx.cover('cmd_run.html_report_written')


def fs_models(sp, ctx, log):
    """ghost file system for tally init: exists() is an uninterpreted predicate of the path; every open/move/makedirs is logged with the
    path condition under which it happens"""
    def m_open(I_, a, k, n):
        mode = a[1] if len(a) > 1 else k.get('mode', 'r')
        log.append(('open', a[0], mode, list(I_.ctx.assumptions)))
        if isinstance(mode, str) and mode.startswith('r'):
            rf = SymSeq([I_.fresh('lines', z3.SeqSort(StrS))])
            rf.file_like = True
            return ('noop_ctx', rf)
        return ('noop_ctx', Obj(I_.fresh('wfile', ObjS), 'wfile'))
    sp.models['open'] = Func(m_open)
    sp.models['method:Obj:wfile.write'] = Func(lambda I_, a, k, n: None)
    sp.models['os.makedirs'] = Func(lambda I_, a, k, n: log.append(('makedirs', a[0], k.get('exist_ok'), list(I_.ctx.assumptions))))
    sp.models['os.path.exists'] = Func(lambda I_, a, k, n: cc.Exists(to_z3(a[0], StrS)))
    sp.models['os.path.join'] = Func(lambda I_, a, k, n: cc.join(to_z3(a[0], StrS), to_z3(a[1], StrS)) if len(a) == 2 else cc.join3(*[to_z3(x, StrS) for x in a]))
    sp.models['datetime.datetime.now'] = Func(lambda I_, a, k, n: Rec('dt', {'year': I_.fresh('year', IntS)}))


def h_init_config(ctx):
    sp = Spec()
    I = Interp(ctx, sp)
    log = []
    fs_models(sp, ctx, log)
    for nm in ('STARTER_SETTINGS', 'STARTER_MERCHANTS', 'STARTER_VIEWS'):
        sp.globals[nm] = Obj(ctx.fresh(nm, ObjS), 'template')
    sp.models['method:Obj:template.format'] = Func(lambda I_, a, k, n: Untracked())
    target = ctx.fresh('target_dir', StrS)
    fi = find_function('tally.cli.init_config')
    I.call_function(fi, [target])
    for i, ev in enumerate(log):
        if ev[0] == 'open':
            _, path, mode, pc = ev
            if isinstance(mode, str) and mode.startswith('r'):
                continue
            ctx.check('C20.init_config.never_truncates[%d]' % i, isinstance(mode, str) and mode in ('w', 'x'), 'property')
            ob = ctx.check('C20.init_config.writes_only_files_that_do_not_exist[%d]' % i, z3.Not(cc.Exists(to_z3(path, StrS))), 'property')
            ob.assumptions = list(pc)         # the path condition at the write site
        elif ev[0] == 'makedirs':
            ctx.check('C20.init_config.makedirs_tolerates_existing[%d]' % i, ev[2] is True, 'property')
    ctx.cover('init_config.returns')


def h_cmd_init(ctx):
    sp = Spec()
    I = Interp(ctx, sp)
    log = []
    fs_models(sp, ctx, log)
    sp.globals['C'] = Untracked()
    sp.models['os.path.isdir'] = Func(lambda I_, a, k, n: I_.ctx.fresh('isdir', BoolS))
    sp.models['os.path.abspath'] = Func(lambda I_, a, k, n: cc.abspath(to_z3(a[0], StrS)))
    sp.models['os.path.relpath'] = Func(lambda I_, a, k, n: Untracked())
    sp.models['init_config'] = Func(lambda I_, a, k, n: (Untracked(), Untracked()))        # its own harness
    mig = []
    sp.models['_migrate_csv_to_rules'] = Func(lambda I_, a, k, n: mig.append((a, k, list(I_.ctx.assumptions))))
    fi = find_function('tally.commands.init.cmd_init')
    fr = Frame(fi, {})
    for nd in ast.walk(fi.node):
        if isinstance(nd, ast.For):
            sp.loops[(fi.qualname, fr.loop_ordinals[id(nd)])] = LoopSpec(lambda I_, env, k, it: {'has_rules_still_false': to_z3(env['has_rules']) == False},  # noqa: E712
                                                                         {'has_rules': lambda I_: I_.fresh('has_rules', BoolS)})
    body = fi.node.body
    stop_at = next(st for st in body if 'all_files' in ast.unparse(st) and isinstance(st, ast.Assign))
    # the prefix of cmd_init up to the summary listing is verified: the postconditions are checked when execution reaches that point
    d = ctx.fresh('args.dir', StrS)

    def post():
        ctx.cover('cmd_init.files_done')
        for i, ev in enumerate(log):
            if ev[0] == 'open' and not (isinstance(ev[2], str) and ev[2].startswith('r')):
                _, path, mode, pc = ev
                ctx.check('C20.cmd_init.settings_only_appended_to[%d]' % i, mode == 'a', 'property')
                ob = ctx.check('C20.cmd_init.appends_only_to_existing_settings[%d]' % i, cc.Exists(to_z3(path, StrS)), 'property')
                ob.assumptions = list(pc)
        for i, (a, k, pc) in enumerate(mig):
            csv, cfgdir = to_z3(a[0], StrS), to_z3(a[1], StrS)
            ob = ctx.check('C20.cmd_init.migrates_only_an_existing_csv_without_rules_file[%d]' % i,
                           z3.And(cc.Exists(csv), z3.Not(cc.Exists(cc.join(cfgdir, sv('merchants.rules'))))), 'property')
            ob.assumptions = list(pc)
            ctx.check('C20.cmd_init.migration_keeps_backup[%d]' % i, k.get('backup', a[2] if len(a) > 2 else True) is True, 'property')
        if any(ev[0] == 'open' and ev[2] == 'a' for ev in log):
            ctx.cover('cmd_init.settings_append_reached')
        if mig:
            ctx.cover('cmd_init.migration_reached')
    sp.stop = (fi.qualname, stop_at.lineno, lambda I_, frm: post())
    try:
        I.call_function(fi, [Rec('Namespace', {'dir': d})])
    except PyRaise as e:
        ctx.check('C20.cmd_init.raises_nothing', False, 'property', meta={'escaping': e.cls})


def harnesses(tier):
    return [Harness('cmd_run.migration_guard', h_migration_guard, ['tally.commands.run.cmd_run', 'tally.cli._check_merchant_migration']),
            Harness('cmd_run.report_location', h_report_location, ['tally.commands.run.cmd_run']),
            Harness('init_config', h_init_config, ['tally.cli.init_config']),
            Harness('cmd_init', h_cmd_init, ['tally.commands.init.cmd_init'], prune=True)]


ALLOWED = {
    'cmd_run': {'tally.commands.run.cmd_run:os.makedirs', 'tally.report.write_summary_file_vue:.write_text',
                'tally.cli._migrate_csv_to_rules:open(w)', 'tally.cli._migrate_csv_to_rules:shutil.move', 'tally.cli._migrate_csv_to_rules:open(a)',
                'tally.cli._migrate_csv_to_rules:os.replace'},        # (the migration's settings update: temporary file renamed over settings.yaml; guarded by --migrate, see the guard clause)
    'cmd_explain': set(), 'cmd_discover': set(), 'cmd_diag': set(), 'cmd_inspect': set(),
}
MODS = {'cmd_run': 'run', 'cmd_explain': 'explain', 'cmd_discover': 'discover', 'cmd_diag': 'diag', 'cmd_inspect': 'inspect'}


def structural(tier, res):
    out = []
    g = callgraph.Graph()
    total = sum(len(v) for v in g.sites.values())
    out.append(frames.Clause('package#write_sites_enumerated', total > 0, '%d file-system write sites in %d functions (recomputed from the AST)' % (total, len(g.funcs))))
    for cmd, allowed in ALLOWED.items():
        q = 'tally.commands.%s.%s' % (MODS[cmd], cmd)
        if q not in g.funcs:
            out.append(frames.Clause(q + '#write_sites_closed', None, 'command function not found'))
            continue
        sites = g.write_sites(q)
        extra = sorted({'%s:%s' % (s.func, s.what) for s in sites} - allowed)
        out.append(frames.Clause(q + '#reachable_write_sites_within_allowed_set', not extra,
                                 ('reachable: %s' % sorted({'%s:%s' % (s.func, s.what) for s in sites}) if not extra else 'unexpected reachable write sites: %s' % extra[:6])))
    # report writer writes only below the path it is given
    fi = find_function('tally.report.write_summary_file_vue')
    res.functions[fi.qualname] = fi.describe()
    writes = [n for n in ast.walk(fi.node) if isinstance(n, ast.Call) and isinstance(n.func, ast.Attribute) and n.func.attr in ('write_text', 'write_bytes')]
    src = ast.unparse(fi.node)
    bad = []
    defs = {}
    for n in ast.walk(fi.node):
        if isinstance(n, ast.Assign) and len(n.targets) == 1 and isinstance(n.targets[0], ast.Name):
            defs.setdefault(n.targets[0].id, []).append(ast.unparse(n.value))
    for n in writes:
        recv = ast.unparse(n.func.value)
        origin = defs.get(recv, [recv])
        ok = all(o == 'Path(filepath)' or o.startswith('output_dir / ') or o == 'output_path.parent' for o in origin) and \
            defs.get('output_dir', ['output_path.parent']) == ['output_path.parent'] and defs.get('output_path', ['Path(filepath)']) == ['Path(filepath)']
        if not ok:
            bad.append('line %d: writes through %s = %s' % (n.lineno, recv, origin))
    out.append(frames.Clause(fi.qualname + '#writes_only_below_the_given_path', not bad, '; '.join(bad) if bad else '%d write_text sites, all through the output path' % len(writes)))
    return out


ORACLES = [
    {'name': 'generated budget directories: every file outside output/ hashed before and after `up`, `up -q`, `up --summary`, `explain`, `discover`, `diag`, `inspect`; '
             '`init` on a populated folder (LF and CRLF settings); `up --migrate`', 'script': 'C20.py',
     'bound': '2 budgets (legacy CSV rules / .rules) x 9 command invocations; init on 5 pre-populated folders (incl. CSV next to a hand-written merchants.rules)'},
]
TRUSTED_BASE = ['pyvc symbolic executor', 'static call graph with name-based resolution (pyvc/callgraph.py, conservative)', 'z3 5.1.0 / cvc5 1.0.3',
                'ghost file system: exists() uninterpreted, paths are strings, os.path.join injective enough for the guards used (same term = same path)']
ASSUMPTIONS = ['A9 file-system model', 'A10 argparse and process start-up outside the verified text', 'write primitives are recognised syntactically (list in pyvc/callgraph.py)']
EXPLANATION = ('Write-site closure over a static call graph; migration guard, report location and init guards proved by symbolic execution over a ghost file system; '
               'bounded stand-in (labelled): byte-level before/after comparison of generated budgets under every command.')
