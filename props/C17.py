"""C17 - rule files are read by structure alone; malformed ones are rejected, not trimmed.

  * MerchantEngine._add_rule (proof): a section yields exactly one rule with exactly the stated properties, appended at the end, or
    MerchantParseError (missing match, neither category nor tags, invalid let / field / match expression) - never anything else.
  * MerchantEngine.parse and section_engine.parse_sections (syntactic information-flow clauses): the semantic state depends on a line
    only through its stripped text; the raw line and the line number flow only into error objects and line_number; every header
    closes the previous section through the single _add_rule / sections.append site, and the last section is closed after the loop.
  * the layout/corruption/reporting sentences over whole files are exercised by the bounded stand-in.
"""
import ast

import z3

from pyvc import extract, frames
from pyvc.core import Unsupported
from pyvc.extract import find_function
from pyvc.interp import Interp, Spec, PyRaise
from pyvc.runner import Harness
from pyvc.values import SymSeq, SymSet, Rec, Obj, Func, Untracked, UF, StrS, IntS, BoolS, ObjS, to_z3, set_expr

LEVEL = 'proof'
MIN_OBLIGATIONS = 40
ME = 'tally.merchant_engine.'
BadExpr = UF('parse_expression.raises', StrS, BoolS)


def h_add_rule(ctx):
    sp = Spec()
    sp.exc_table.update({'ExpressionError': 'Exception', 'UnsafeNodeError': 'ExpressionError', 'MerchantParseError': 'Exception'})
    I = Interp(ctx, sp)

    def m_parse(I_, a, k, n):
        e = to_z3(a[0], StrS)
        if I_.ctx.branch(BadExpr(e), 'parse_expression.raises'):
            raise PyRaise('ExpressionError', (), 'parse_expression')
        return Obj(I_.fresh('tree', ObjS))
    sp.models['expr_parser.parse_expression'] = Func(m_parse)
    S = lambda n: ctx.fresh(n, StrS)
    data = {'name': S('name')}
    present = {}
    for key in ('match_expr', 'category', 'subcategory', 'merchant', 'tags', 'priority', 'let_bindings', 'fields'):
        present[key] = bool(ctx.choose(2, 'has_' + key))
    if present['match_expr']:
        data['match_expr'] = S('match_expr')
    for key in ('category', 'subcategory', 'merchant'):
        if present[key]:
            data[key] = S(key)
    if present['tags']:
        data['tags'] = SymSet(ctx.fresh('tags', z3.SetSort(StrS)))
    if present['priority']:
        data['priority'] = ctx.fresh('priority', IntS)
    lets = [(S('let_name'), S('let_expr'))] if present['let_bindings'] else None
    if lets is not None:
        data['let_bindings'] = lets
    flds = {'note': S('field_expr')} if present['fields'] else None
    if flds is not None:
        data['fields'] = flds
    old_rule = Obj(ctx.fresh('earlier_rule', ObjS), 'MerchantRule')
    eng = Rec('MerchantEngine', {'rules': [old_rule]})
    line_no = ctx.fresh('line_number', IntS)
    fi = find_function(ME + 'MerchantEngine._add_rule')
    cat_nonempty = z3.Length(data['category']) > 0 if present['category'] else z3.BoolVal(False)
    tags_nonempty = (data['tags'].expr != z3.EmptySet(StrS)) if present['tags'] else z3.BoolVal(False)
    bad = []
    if lets:
        bad.append(BadExpr(lets[0][1]))
    if flds:
        bad.append(BadExpr(flds['note']))
    if present['match_expr']:
        bad.append(BadExpr(data['match_expr']))
    must_reject = z3.Or(z3.BoolVal(not present['match_expr']), z3.And(z3.Not(cat_nonempty), z3.Not(tags_nonempty)), *bad)
    try:
        I.call_function(fi, [data, line_no], {}, self_obj=eng)
    except PyRaise as e:
        ctx.check('C17.add_rule.raises_only_MerchantParseError', e.cls == 'MerchantParseError', 'property', meta={'escaping': e.cls})
        ctx.check('C17.add_rule.rejects_only_malformed_sections', must_reject, 'property')
        ctx.check('C17.add_rule.rejected_section_adds_no_rule', len(eng.fields['rules']) == 1, 'property')
        ctx.cover('add_rule.raises')
        return
    rules = eng.fields['rules']
    ctx.check('C17.add_rule.accepts_only_wellformed_sections', z3.Not(must_reject), 'property')
    ok_shape = isinstance(rules, list) and len(rules) == 2 and rules[0] is old_rule and isinstance(rules[1], Rec) and rules[1].cls == 'MerchantRule'
    ctx.check('C17.add_rule.exactly_one_rule_appended_in_file_order', ok_shape, 'property')
    if not ok_shape:
        return
    r = rules[1].fields
    E = z3.StringVal('')
    ctx.check('C17.rule.name', to_z3(r['name'], StrS) == data['name'], 'property')
    ctx.check('C17.rule.match_expr', to_z3(r['match_expr'], StrS) == data['match_expr'], 'property')
    for key in ('category', 'subcategory'):
        ctx.check('C17.rule.%s' % key, to_z3(r[key], StrS) == (data[key] if present[key] else E), 'property')
    want_m = data['merchant'] if present['merchant'] else E
    ctx.check('C17.rule.merchant_defaults_to_name', to_z3(r['merchant'], StrS) == z3.If(z3.Length(want_m) > 0, want_m, data['name']), 'property')
    ctx.check('C17.rule.tags', set_expr(r['tags'], StrS) == (data['tags'].expr if present['tags'] else z3.EmptySet(StrS)), 'property')
    ctx.check('C17.rule.priority', to_z3(r['priority'], IntS) == (data['priority'] if present['priority'] else 50), 'property')
    ctx.check('C17.rule.line_number', to_z3(r['line_number'], IntS) == line_no, 'property')
    ctx.check('C17.rule.let_bindings', (r['let_bindings'] is lets) if lets is not None else (r['let_bindings'] == []), 'property')
    ctx.check('C17.rule.fields', (r['fields'] is flds) if flds is not None else (r['fields'] == {}), 'property')
    ctx.cover('add_rule.returns')


def h_unloadable_reported(ctx):
    """"a rules file that cannot be loaded is reported to the user rather than treated as containing no rules": where `tally up` takes its rules from a
    .rules file (cli._check_merchant_migration, the branch of the new format), the file has been handed to _report_unloadable_rules before its rules
    are asked for - whatever --quiet and --migrate say (get_all_rules itself swallows the loader's error and answers with no rules)."""
    from props import cmd_common as cc
    sp = Spec()
    I = Interp(ctx, sp)
    w = cc.World(ctx, sp)
    cfgd = {'_merchants_file': w.merchants_file, '_merchants_format': 'new', 'rule_mode': w.rule_mode}
    sp.models['method:Obj:Config.get'] = Func(lambda I_, a, k, n: cfgd.get(a[1], a[2] if len(a) > 2 else None))
    sp.truthy_classes.add('rulesfile')
    w.merchants_file.cls = 'rulesfile'
    seen = {'reported': [], 'asked': 0}

    def m_report(I_, a, k, n):
        seen['reported'].append(a[0] if a else None)
        return I_.ctx.fresh('rules_file_unloadable', BoolS)

    def m_get_all(I_, a, k, n):
        seen['asked'] += 1
        ctx.check('C17.up.the_rules_file_is_checked_for_being_loadable_before_its_rules_are_used_whatever_quiet_says',
                  bool(a) and any(r is a[0] for r in seen['reported']), 'property')
        return Untracked()
    sp.models['_report_unloadable_rules'] = Func(m_report)
    sp.models['get_all_rules'] = Func(m_get_all)
    sp.models['len'] = Func(lambda I_, a, k, n: Untracked())
    sp.models['sys.stdout.isatty'] = Func(lambda I_, a, k, n: bool(ctx.choose(2, 'interactive')))
    sp.globals['C'] = Untracked()
    fi = find_function('tally.cli._check_merchant_migration')
    quiet, migrate = ctx.fresh('quiet', BoolS), ctx.fresh('migrate', BoolS)
    I.call_function(fi, [w.config, w.config_dir, quiet, migrate])
    ctx.check('C17.up.rules_of_a_rules_file_are_asked_for_once', seen['asked'] == 1, 'property')
    ctx.cover('_check_merchant_migration.returns[new]')


def harnesses(tier):
    from props import C17_sections, C17_rules
    return [Harness('_add_rule', h_add_rule, [ME + 'MerchantEngine._add_rule', ME + 'MerchantRule.__post_init__']),
            Harness('_check_merchant_migration.unloadable_reported', h_unloadable_reported, ['tally.cli._check_merchant_migration'])] \
        + C17_sections.harnesses(tier) + C17_rules.harnesses(tier)


# ------------------------------------------------------------------------------------------ structural clauses

def _uses(fn, name):
    """(node, parent) pairs for loads of `name` in fn"""
    parents = {}
    for p in ast.walk(fn):
        for ch in ast.iter_child_nodes(p):
            parents[id(ch)] = p
    out = []
    for n in ast.walk(fn):
        if isinstance(n, ast.Name) and n.id == name and isinstance(n.ctx, ast.Load):
            out.append((n, parents))
    return out


def _inside_call_of(n, parents, callee_names):
    cur = n
    while id(cur) in parents:
        cur = parents[id(cur)]
        if isinstance(cur, ast.Call) and ast.unparse(cur.func).split('.')[-1] in callee_names:
            return True
        if isinstance(cur, ast.stmt):
            break
    return False


def structural(tier, res):
    out = []
    # ---- MerchantEngine.parse ------------------------------------------------------------
    fi = find_function(ME + 'MerchantEngine.parse')
    res.functions[fi.qualname] = fi.describe()
    fn = fi.node
    bad = []
    # error sinks: the exception constructor, and helpers whose own `line` / `line_num` parameters flow into nothing but that constructor
    sinks = {'MerchantParseError'}
    try:
        hf = find_function(ME + 'MerchantEngine._check_expression')
        if all(_inside_call_of(n, parents, {'MerchantParseError'}) for nm in ('line', 'line_num') for n, parents in _uses(hf.node, nm)):
            sinks.add('_check_expression')
    except Exception:
        pass
    for n, parents in _uses(fn, 'line'):
        p = parents[id(n)]
        ok = (isinstance(p, ast.Attribute) and p.attr == 'strip' and isinstance(parents[id(p)], ast.Call) and not parents[id(p)].args) \
            or _inside_call_of(n, parents, sinks)
        if not ok:
            bad.append('line %d: raw `line` used outside line.strip() / error objects' % n.lineno)
    for n, parents in _uses(fn, 'line_num'):
        p = parents[id(n)]
        ok = _inside_call_of(n, parents, sinks) or \
            (isinstance(p, ast.Assign) and ast.unparse(p.targets[0]) == 'rule_start_line')
        if not ok:
            bad.append('line %d: line_num flows into semantic state' % n.lineno)
    for n, parents in _uses(fn, 'rule_start_line'):
        if not _inside_call_of(n, parents, {'_add_rule'}):
            bad.append('line %d: rule_start_line used outside _add_rule(..., rule_start_line)' % n.lineno)
    # `lines` comes from content.split('\\n') and is only enumerated from 1
    src = ast.unparse(fn)
    if "lines = content.split('\\n')" not in src or 'enumerate(lines, 1)' not in src:
        bad.append('lines are not content.split("\\n") enumerated from 1')
    out.append(frames.Clause(fi.qualname + '#lines_read_through_stripped_text_only', not bad,
                             '; '.join(bad[:5]) if bad else 'raw line / line number flow only into errors and line_number', kind='auxiliary'))
    # every header and the end of file close the open rule through _add_rule; rules are only appended there
    adds = [n for n in ast.walk(fn) if isinstance(n, ast.Call) and ast.unparse(n.func) == 'self._add_rule']
    loop = [n for n in fn.body if isinstance(n, ast.For)]
    after = [n for st in fn.body[fn.body.index(loop[0]) + 1:] for n in ast.walk(st)] if loop else []
    in_loop = [n for n in ast.walk(loop[0])] if loop else []
    ok = len(adds) == 2 and any(a in in_loop for a in adds) and any(a in after for a in adds)
    other_appends = [n for n in ast.walk(fn) if isinstance(n, ast.Call) and ast.unparse(n.func) == 'self.rules.append']
    out.append(frames.Clause(fi.qualname + '#every_section_closed_exactly_once', ok and not other_appends,
                             'one _add_rule at each header and one after the loop' if ok and not other_appends else
                             '_add_rule call sites: %d (expected one in the loop and one after it)' % len(adds), kind='auxiliary'))
    # keys are compared after .strip().lower(); unknown keys raise
    has_unknown = any(isinstance(n, ast.Raise) and 'Unknown property' in ast.unparse(n) for n in ast.walk(fn))
    out.append(frames.Clause(fi.qualname + '#unknown_property_rejected', has_unknown, 'else-branch raises MerchantParseError("Unknown property")' if has_unknown else 'no rejection of unknown keys', kind='auxiliary'))
    # ---- parse_sections ---------------------------------------------------------------------
    # parse_sections: decided semantically by the loop invariant of props/C17_sections.py (the earlier syntactic close-site / line-flow clauses raised a
    # false alarm when the close step was extracted into a helper, and are gone)
    return out


ORACLES = [
    {'name': 'metamorphic layout rewritings (blank/comment lines, trailing blanks, CRLF, indentation, property order), section-to-rule bijection, '
             'one-line corruptions with line-number check, and the unloadable-file report, on the real loaders', 'script': 'C17.py',
     'bound': '4 rule blocks + 2 top-level lines, 3 view blocks + 2 globals; 8 layout variants; all property orders; ~80 corruptions (incl. 9 malformed priorities, damaged headers at every position, stray first lines); all block permutations; byte order marks for rules / CSV rules / views files'},
]
TRUSTED_BASE = ['pyvc symbolic executor and the syntactic information-flow clauses in props/C17.py', 'z3 5.1.0 / cvc5 1.0.3',
                'parse_expression raises ExpressionError exactly for invalid expressions (C03/C07 contract), regex classifiers opaque (A6)',
                'in the parse() line loop _add_rule is used through its contract (appends exactly one rule or raises MerchantParseError naming the given line) and the rule being collected is an opaque non-empty dict',
                'every_filter_nonempty is a recursive definition on sequences, instantiated where a view is recorded (conservative extension)']
ASSUMPTIONS = ['the line classifiers (COMMENT, BLANK, SECTION_HEADER, FILTER_DECL, DESCRIPTION_DECL, VARIABLE_DECL, the two inline patterns of parse) are uninterpreted predicates of the text they are applied to',
               'order among let: lines and among a view\'s variable lines is semantic by design and not part of "distinct properties"',
               'a repeated key inside a section overrides the earlier one and property lines before the first header are ignored: recorded observations, not obligations']
EXPLANATION = ('_add_rule proved by symbolic execution over all key-presence combinations; the line loops of parse_sections and MerchantEngine.parse proved by loop invariants over ghost folds '
               '(one view / one _add_rule call per header, in file order, with its line number; rejections name the line); information-flow clauses for parse decided syntactically; '
               'bounded stand-in (labelled): metamorphic and corruption tests on the real loaders.')
