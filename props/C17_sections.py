"""C17 - parse_sections (views files) by a loop invariant over the lines: every [section] header yields exactly one view, in file order, with the
header's own name and line number and with the LAST filter written in it; a view is only ever recorded with a non-empty filter; a section lacking its
filter, a filter / description outside a section, an invalid expression and an unrecognised line are rejected with an error naming that line
(the header line for a missing filter).  The regular expressions that classify a line are uninterpreted predicates of the line (A6): blank and comment
lines are exactly the lines they classify, and property lines are classified on their stripped text - so indentation and trailing blanks cannot
matter (that part is a flow fact of the executed code: the classifiers only ever see `line` or `line.strip()`)."""
import ast

import z3

from pyvc.extract import find_function
from pyvc.ghost import Ghost
from pyvc.interp import Interp, Spec, LoopSpec, PyRaise, Frame
from pyvc.runner import Harness
from pyvc.values import SymSeq, SymMap, Rec, Obj, Func, Untracked, UF, StrS, IntS, BoolS, ObjS, to_z3

SE = 'tally.section_engine.'
SS = z3.SeqSort(StrS)
SI = z3.SeqSort(IntS)
strip = UF('str.strip', StrS, StrS)
Is = {k: UF('re.' + k + '.matches', StrS, BoolS) for k in ('COMMENT', 'BLANK', 'SECTION_HEADER', 'FILTER_DECL', 'DESCRIPTION_DECL', 'VARIABLE_DECL')}
Group = {k: UF('re.' + k + '.group', StrS, IntS, StrS) for k in Is}
ParseErr = UF('expr_parser.parse.raises', StrS, BoolS)
DIST = UF('pairwise_distinct', SS, BoolS)        # recursive definition on sequences, instantiated where a view is recorded
OKF = UF('every_filter_nonempty', SS, BoolS)       # recursive definition on sequences, instantiated where a view is recorded


def skip(l):
    return z3.Or(Is['COMMENT'](l), Is['BLANK'](l))


def header(l):
    return z3.And(z3.Not(skip(l)), Is['SECTION_HEADER'](l))


def filt(l):
    return z3.And(z3.Not(skip(l)), z3.Not(Is['SECTION_HEADER'](l)), Is['FILTER_DECL'](strip(l)))


Names = Ghost('Views.names', [SS], SS, base=lambda s: z3.Empty(SS),
              step=lambda s, k, acc: z3.If(header(s[k]), z3.Concat(acc, z3.Unit(strip(Group['SECTION_HEADER'](s[k], 1)))), acc))
Lnos = Ghost('Views.line_numbers', [SS], SI, base=lambda s: z3.Empty(SI), step=lambda s, k, acc: z3.If(header(s[k]), z3.Concat(acc, z3.Unit(k + 1)), acc))
LastH = Ghost('Views.last_header', [SS], IntS, base=lambda s: z3.IntVal(-1), step=lambda s, k, acc: z3.If(header(s[k]), k, acc))
CurF = Ghost('Views.open_filter', [SS], StrS, base=lambda s: z3.StringVal(''),
             step=lambda s, k, acc: z3.If(header(s[k]), z3.StringVal(''), z3.If(filt(s[k]), strip(Group['FILTER_DECL'](strip(s[k]), 1)), acc)))
GHOSTS = (Names, Lnos, LastH, CurF)


def h_parse_sections(ctx):
    sp = Spec()
    sp.exc_table.update({'ExpressionError': 'Exception', 'SectionParseError': 'ValueError'})
    I = Interp(ctx, sp)
    q = SE + 'parse_sections'
    fi = find_function(q)
    lines = ctx.fresh('lines', SS)
    n = z3.Length(lines)
    seen = {}
    orig_assign0 = I.assign

    def assign0(t, v, frm):
        if isinstance(v, tuple) and len(v) == 2 and z3.is_expr(v[1]) and v[1].sort() == StrS and z3.is_expr(v[0]):
            seen['line'] = v[1]           # (line number, line) bound by the loop over enumerate(lines, start=1)
        return orig_assign0(t, v, frm)
    I.assign = assign0
    orig_str_method = I.str_method

    def str_method(z, attr, args, node):
        if attr == 'split' and len(args) == 1 and args[0] == '\n':
            return SymSeq([lines])
        return orig_str_method(z, attr, args, node)
    I.str_method = str_method
    for name in Is:
        def m_match(I_, a, k, nd, name=name):
            arg = to_z3(a[0], StrS)
            cur = seen.get('line')        # the line the loop is at (captured when the loop binds it, whatever the local is called)
            if z3.is_expr(cur):
                # comment / blank / header lines are recognised on the line as written, property lines on its stripped text: indentation and
                # trailing blanks cannot matter
                want = cur if name in ('COMMENT', 'BLANK', 'SECTION_HEADER') else strip(cur)
                I_.ctx.check('C17.views.%s_lines_classified_on_%s' % (name.lower(), 'the_line' if want is cur else 'stripped_text'), arg == want, 'property')
            if I_.ctx.branch(Is[name](arg), '%s.match' % name):
                return Obj(UF('re.%s.matchobj' % name, StrS, ObjS)(arg), 'match:' + name)
            return None
        sp.models[name + '.match'] = Func(m_match)
        sp.truthy_classes.add('match:' + name)

        def m_group(I_, a, k, nd, name=name):
            e = a[0].expr
            return Group[name](e.arg(0), to_z3(a[1], IntS))
        sp.models['method:Obj:match:%s.group' % name] = Func(m_group)

    def m_parse(I_, a, k, nd):
        t = to_z3(a[0], StrS)
        if I_.ctx.branch(ParseErr(t), 'expression.invalid'):
            raise PyRaise('ExpressionError', (), 'expr_parser.parse')
        return Obj(UF('expr_parser.parse', StrS, ObjS)(t), 'tree')
    sp.models['expr_parser.parse'] = Func(m_parse)

    def mk_section(name, lno, fexpr, variables=None):
        return Rec('Section', {'name': name, 'filter_expr': fexpr, 'filter_ast': Untracked(), 'line_number': lno, 'description': Untracked(),
                               'variables': variables if variables is not None else SymMap(StrS, {None: z3.K(StrS, z3.StringVal(''))}, dom=z3.EmptySet(StrS))})
    sp.models['Section'] = Func(lambda I_, a, k, nd: mk_section(to_z3(k['name'], StrS), to_z3(k['line_number'], IntS), k['filter_expr']))
    sp.models['SectionConfig'] = Func(lambda I_, a, k, nd: Rec('SectionConfig', dict(k)))

    def recorded(secs):
        """views recorded so far as three columns (name, line number, filter)"""
        if isinstance(secs, list):
            cols = [z3.Empty(SS), z3.Empty(SI), z3.Empty(SS)]
            for r in secs:
                for j, f in enumerate(('name', 'line_number', 'filter_expr')):
                    cols[j] = z3.Concat(cols[j], z3.Unit(to_z3(r.fields[f], (StrS, IntS, StrS)[j])))
            return cols
        return secs.cols

    def with_open(cols, cur):
        if cur is None:
            return cols[0], cols[1]
        return (z3.Concat(cols[0], z3.Unit(to_z3(cur.fields['name'], StrS))), z3.Concat(cols[1], z3.Unit(to_z3(cur.fields['line_number'], IntS))))

    def inv(I_, env, k, it):
        cols, cur = recorded(env['sections']), env['current_section']
        names, lnos = with_open(cols, cur)
        out = {'views_so_far_are_the_headers_so_far_in_order': names == Names(lines, k),
               'each_with_its_header_line_number': lnos == Lnos(lines, k),
               'a_view_is_open_iff_a_header_was_seen': (LastH(lines, k) >= 0) if cur is not None else (LastH(lines, k) == -1),
               'recorded_views_have_filters': OKF(cols[2]),
               'recorded_view_names_are_pairwise_distinct': DIST(cols[0])}
        if cur is not None:
            out['open_view_has_the_last_filter_of_its_section'] = to_z3(cur.fields['filter_expr'], StrS) == CurF(lines, k)
            out['open_view_name_is_not_a_recorded_name'] = z3.Not(z3.Contains(cols[0], z3.Unit(to_z3(cur.fields['name'], StrS))))
            out['open_view_line_is_its_header_line'] = to_z3(cur.fields['line_number'], IntS) == LastH(lines, k) + 1
        return out

    def fresh_sections(I_):
        s = SymSeq([I_.fresh('views.' + f, srt) for f, srt in (('name', SS), ('line_number', SI), ('filter_expr', SS))], None, None, keys=['name', 'line_number', 'filter_expr'])
        s.extractors = [lambda r: to_z3(r.fields['name'], StrS), lambda r: to_z3(r.fields['line_number'], IntS), lambda r: to_z3(r.fields['filter_expr'], StrS)]
        return s

    def fresh_current(I_):
        if I_.ctx.choose(2, 'a_view_is_open'):
            return mk_section(I_.fresh('open.name', StrS), I_.fresh('open.line_number', IntS), I_.fresh('open.filter_expr', StrS),
                              SymMap(StrS, {None: I_.fresh('open.variables', z3.ArraySort(StrS, StrS))}, dom=I_.fresh('open.variables.keys', z3.SetSort(StrS))))
        return None
    at = {}
    fr = Frame(fi, {})
    for nd in ast.walk(fi.node):
        if isinstance(nd, ast.For):
            sp.loops[(q, fr.loop_ordinals[id(nd)])] = LoopSpec(
                inv, {'sections': fresh_sections, 'current_section': fresh_current,
                      'global_variables': lambda I_: SymMap(StrS, {None: I_.fresh('globals', z3.ArraySort(StrS, StrS))}, dom=I_.fresh('globals.keys', z3.SetSort(StrS)))},
                kind='property', unfold=lambda I_, env, k, it: [f for g in GHOSTS for f in g.unfold(lines, k)],
                exit_facts=lambda I_, env, k, it: (at.__setitem__('k', k), [])[1])
    # every append of a view: definitional instance of OKF, and the obligation that the view has a filter
    orig_method = I.method

    def method(o, attr, args, kwargs, node):
        if attr == 'append' and isinstance(o, (SymSeq, list)) and len(args) == 1 and isinstance(args[0], Rec) and args[0].cls == 'Section':
            f = to_z3(args[0].fields['filter_expr'], StrS)
            before = recorded(o)[2]
            ctx.check('C17.views.a_view_is_recorded_only_with_a_filter', z3.Length(f) > 0, 'property')
            ctx.assume(OKF(z3.Concat(before, z3.Unit(f))) == z3.And(OKF(before), z3.Length(f) > 0))
            nm, names_before = to_z3(args[0].fields['name'], StrS), recorded(o)[0]
            ctx.check('C17.views.a_view_is_recorded_only_under_a_new_name', z3.Not(z3.Contains(names_before, z3.Unit(nm))), 'property')
            ctx.assume(DIST(z3.Concat(names_before, z3.Unit(nm))) == z3.And(DIST(names_before), z3.Not(z3.Contains(names_before, z3.Unit(nm)))))
        return orig_method(o, attr, args, kwargs, node)
    I.method = method
    ctx.assume(OKF(z3.Empty(SS)))
    ctx.assume(DIST(z3.Empty(SS)))
    for g in GHOSTS:
        for f in g.unfold(lines, z3.IntVal(-1)):
            ctx.assume(f)
    try:
        r = I.call_function(fi, [ctx.fresh('text', StrS)])
    except PyRaise as e:
        ctx.check('C17.views.rejects_only_with_SectionParseError', I.is_subclass(e.cls, 'SectionParseError'), 'property', meta={'escaping': e.cls})
        args = e.args_ if isinstance(e.args_, tuple) else ()
        env = I.frames[-1].env if I.frames else None
        # the error names a line: the current line, or the header line of the section that lacks its filter
        if len(args) >= 2:
            ln = to_z3(args[1], IntS)
            k = at.get('k', n)          # the line being read when the error was raised (n: after the last line)
            ctx.check('C17.views.error_names_the_offending_line_or_the_header_of_the_section_without_filter',
                      z3.Or(z3.And(ln == k + 1, k < n), z3.And(LastH(lines, k) >= 0, ln == LastH(lines, k) + 1)), 'property')
        else:
            ctx.check('C17.views.error_names_a_line_of_the_file', False, 'property')
        ctx.cover('parse_sections.rejects')
        return
    secs = r.fields['sections']
    cols = recorded(secs)
    ctx.check('C17.views.exactly_one_view_per_header_in_file_order', cols[0] == Names(lines, n), 'property')
    ctx.check('C17.views.each_view_has_its_header_line_number', cols[1] == Lnos(lines, n), 'property')
    ctx.check('C17.views.every_view_has_a_filter', OKF(cols[2]), 'property')
    ctx.check('C17.views.no_two_views_share_a_name', DIST(cols[0]), 'property')       # results are keyed by view name (C10): a repeated name would merge two views
    ctx.cover('parse_sections.returns')


def harnesses(tier):
    return [Harness('parse_sections', h_parse_sections, [SE + 'parse_sections'], prune=True)]
