"""C08 - a `let:` binding that cannot be evaluated is inapplicable: MerchantEngine._evaluate_let_bindings.

Statement-level clause ("... makes just that rule, binding, field, tag or view inapplicable to that item"): per iteration of the binding loop,
  * a binding that evaluates is stored under its own name with its own value, every other name keeps what it had;
  * a binding that cannot be evaluated leaves its name UNBOUND afterwards (whatever reads it cannot be evaluated either - bound to None it would read as
    false and `match: not v` would match), every other name keeps what it had;
  * each binding is evaluated on this transaction, with the bindings made before it in scope and the supplemental sources;
and the caller's variables (base_variables) are never written (the loop works on a copy).
"""
import ast

import z3

from pyvc.extract import find_function
from pyvc.interp import Interp, LoopSpec, PyRaise, Frame
from pyvc.runner import Harness
from pyvc.values import SymSeq, SymMap, Rec, Obj, Func, StrS, ObjS, to_z3
from props.C04_scope import base_spec, IsNone

LEVEL = 'proof'
Q = 'tally.merchant_engine.MerchantEngine._evaluate_let_bindings'
SetS = z3.SetSort(StrS)
ArrS = z3.ArraySort(StrS, ObjS)


def h_let_bindings(ctx):
    sp = base_spec()
    I = Interp(ctx, sp)
    fi = find_function(Q)
    txn, ds = Obj(ctx.fresh('transaction', ObjS), 'pydict'), Obj(ctx.fresh('data_sources', ObjS), 'pydict')
    base = SymMap(StrS, {None: ctx.fresh('base_variables.values', ArrS)}, dom=ctx.fresh('base_variables.names', SetS))
    base.may_hold_none = IsNone            # a variable may be bound to None
    base0 = (base.dom, base.fields[None])
    names, exprs = ctx.fresh('let.names', z3.SeqSort(StrS)), ctx.fresh('let.exprs', z3.SeqSort(StrS))
    rule = Rec('MerchantRule', {'let_bindings': SymSeq([names, exprs], 2)})
    eng = Rec('MerchantEngine', {})
    flags = {}

    def m_eval(I_, a, k, n):
        ev = I_.frames[-1].env.get('variables')
        ctx.check('C08.let.each_binding_is_evaluated_with_the_bindings_before_it_in_scope', ev is not None and k.get('variables') is ev, 'property')
        ctx.check('C08.let.evaluated_on_this_transaction_with_the_supplemental_sources', len(a) >= 2 and a[1] is txn and k.get('data_sources') is ds, 'property')
        flags['expr'] = to_z3(a[0], StrS)
        if isinstance(ev, SymMap):
            flags['before'] = (ev.dom, ev.fields[None])
        if I_.ctx.choose(2, 'binding.cannot_be_evaluated'):
            raise PyRaise('ExpressionError', (), 'evaluate_transaction')
        flags['value'] = I_.fresh('value', ObjS)
        return Obj(flags['value'], 'pyvalue')
    sp.models['expr_parser.evaluate_transaction'] = Func(m_eval)

    def unfold(I_, env, k, it):
        flags.clear()
        flags['k'] = k
        return []

    def inv(I_, env, k, it):
        out = {}
        ev = env['variables']
        if 'before' in flags and isinstance(ev, SymMap) and 'k' in flags:
            dom0, arr0 = flags['before']
            nm = names[flags['k']]
            out['the_expression_evaluated_is_the_one_of_this_binding'] = flags['expr'] == exprs[flags['k']]
            if 'value' in flags:
                out['binding_stored_under_its_own_name_with_its_value_nothing_else_changed'] = z3.And(
                    ev.dom == z3.SetAdd(dom0, nm), ev.fields[None] == z3.Store(arr0, nm, flags['value']))
            else:
                x = z3.Const('x', StrS)
                out['a_binding_that_cannot_be_evaluated_leaves_its_name_unbound'] = z3.Not(z3.IsMember(nm, ev.dom))
                out['a_binding_that_cannot_be_evaluated_changes_no_other_name'] = z3.And(
                    ev.dom == z3.SetDel(dom0, nm), z3.ForAll([x], z3.Implies(x != nm, z3.Select(ev.fields[None], x) == z3.Select(arr0, x))))
        return out
    def fresh_variables(c):
        m = SymMap(StrS, {None: c.fresh('variables.values', ArrS)}, dom=c.fresh('variables.names', SetS))
        m.may_hold_none = IsNone
        return m
    fr = Frame(fi, {})
    loops = [nd for nd in ast.walk(fi.node) if isinstance(nd, ast.For)]
    for nd in loops:
        sp.loops[(Q, fr.loop_ordinals[id(nd)])] = LoopSpec(
            inv, {'variables': fresh_variables}, kind='property', unfold=unfold)
    ctx.check('C08.let.one_loop_over_the_bindings', len(loops) == 1, 'property')
    I.call_function(fi, [rule, txn, base, ds], {}, self_obj=eng)
    ctx.check('C08.let.the_callers_variables_are_not_written', z3.And(base.dom == base0[0], base.fields[None] == base0[1]), 'property')
    ctx.cover('_evaluate_let_bindings.returns')


def harnesses(tier):
    return [Harness('MerchantEngine._evaluate_let_bindings.bindings', h_let_bindings, [Q], prune=True)]
