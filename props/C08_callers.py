"""C08 part 2: raises <= {} for the remaining callers on the classification / view path."""
import ast

import z3

from pyvc.core import Unsupported
from pyvc.extract import find_function
from pyvc.interp import Interp, Spec, LoopSpec, PyRaise, Frame, ANY_CALL_ERRORS
from pyvc.runner import Harness
from pyvc.values import SymSeq, SymSet, SymMap, Rec, Obj, Func, Untracked, UF, StrS, IntS, BoolS, ObjS, RealS, to_z3

from props.C08 import (exc_table, raise_any, only_expression_error, expect_raises, no_inv, all_loops, eval_txn_model, check_items_independent,
                       ANY_EXC, EP, MU, ME, SE)


def any_obj(ctx, name):
    return Obj(ctx.fresh(name, ObjS), 'pyany')


def dict_obj(ctx, name):
    return Obj(ctx.fresh(name, ObjS), 'pydict')


def evaluator_models(sp, may_raise):
    """expr_parser classes used directly by merchant_utils: context construction cannot raise (dict.get), parse and evaluate
    raise what their contracts allow."""
    sp.models['expr_parser.TransactionContext.from_transaction'] = Func(lambda I, a, k, n: Obj(I.fresh('tctx', ObjS), 'tctx'))
    sp.models['expr_parser.parse_expression'] = Func(lambda I, a, k, n: (only_expression_error(I, 'parse_expression'), Obj(I.fresh('tree', ObjS)))[1])
    sp.models['expr_parser.TransactionEvaluator'] = Func(lambda I, a, k, n: Obj(I.fresh('evaluator', ObjS), 'Evaluator'))
    sp.models['method:Obj:Evaluator.evaluate'] = Func(lambda I, a, k, n: (may_raise(I, 'evaluate'), Obj(I.fresh('value', ObjS), 'pyany'))[1])
    sp.models['str'] = Func(lambda I, a, k, n: I.ctx.fresh('str', StrS))


def h_apply_transforms(ctx):
    sp = Spec()
    exc_table(sp)
    evaluator_models(sp, only_expression_error)
    I = Interp(ctx, sp)
    fi = find_function(MU + 'apply_transforms')
    escapes = []
    all_loops(fi, sp, lambda n: {'transaction': lambda I_: Obj(I_.fresh('transaction_k', ObjS), 'pydict')}, escapes)
    txn = dict_obj(ctx, 'transaction')
    transforms = SymSeq([ctx.fresh('tr.path', z3.SeqSort(StrS)), ctx.fresh('tr.expr', z3.SeqSort(StrS))], 2)
    expect_raises(ctx, I, lambda: I.call_function(fi, [txn, transforms]), [], 'apply_transforms')
    check_items_independent(ctx, 'apply_transforms', escapes)


def h_resolve_dynamic_tags(ctx):
    sp = Spec()
    exc_table(sp)
    evaluator_models(sp, only_expression_error)
    sp.models['expr_parser.evaluate_transaction'] = eval_txn_model()       # raises at most ExpressionError: harness evaluate_transaction
    sp.models['str'] = Func(lambda I, a, k, n: I.ctx.fresh('str', StrS))
    I = Interp(ctx, sp)
    fi = find_function(MU + '_resolve_dynamic_tags')
    escapes = []
    all_loops(fi, sp, lambda n: {'resolved': lambda I_: Untracked()}, escapes)
    tags = SymSeq([ctx.fresh('tags', z3.SeqSort(StrS))])
    expect_raises(ctx, I, lambda: I.call_function(fi, [tags, dict_obj(ctx, 'transaction')]), [], '_resolve_dynamic_tags')
    check_items_independent(ctx, '_resolve_dynamic_tags', escapes)


def h_normalize_merchant(ctx):
    """Both paths of normalize_merchant: the cached-engine path (match() raises nothing: harness `match`) and the legacy tuple loop
    (what compiling / searching a user-written regular expression can raise - re.error, but also OverflowError for a repeat count
    >= 2**32 and RecursionError for deeply nested groups - and ExpressionError are caught inside the loop)."""
    sp = Spec()
    exc_table(sp)
    I = Interp(ctx, sp)
    fi = find_function(MU + 'normalize_merchant')
    use_engine = ctx.choose(2, 'cached_engine')
    sp.globals['_cached_engine'] = Obj(ctx.fresh('engine', ObjS), 'Engine') if use_engine else None
    sp.models['apply_transforms'] = Func(lambda I_, a, k, n: a[0])                     # raises nothing: harness apply_transforms
    sp.models['extract_merchant_name'] = Func(lambda I_, a, k, n: I_.ctx.fresh('merchant_name', StrS))
    sp.models['_is_expression_pattern'] = Func(lambda I_, a, k, n: I_.ctx.fresh('is_expr', BoolS))
    sp.models['expr_parser.matches_transaction'] = Func(lambda I_, a, k, n: (only_expression_error(I_, 'matches_transaction'), I_.ctx.fresh('m', BoolS))[1])
    sp.models['re.search'] = Func(lambda I_, a, k, n: (raise_any(I_, 're.search', ['re.error', 'OverflowError', 'RecursionError']), Obj(I_.fresh('mobj', ObjS)))[1])
    sp.globals['re.IGNORECASE'] = z3.IntVal(2)
    sp.models['check_all_conditions'] = Func(lambda I_, a, k, n: I_.ctx.fresh('conds', BoolS))   # pure comparisons on numbers/dates
    sp.models['_resolve_dynamic_tags'] = Func(lambda I_, a, k, n: SymSeq([I_.fresh('rtags', z3.SeqSort(StrS))]))
    sp.models['dict.fromkeys'] = Func(lambda I_, a, k, n: Untracked())
    sp.models['list'] = Func(lambda I_, a, k, n: Untracked())

    def m_match(I_, a, k, n):
        return Rec('MatchResult', {'matched': I_.ctx.fresh('matched', BoolS), 'matched_rule': Obj(I_.fresh('mrule', ObjS), 'MerchantRuleT'),
                                   'tags': Untracked(), 'tag_sources': Untracked(), 'extra_fields': Untracked(),
                                   'merchant': I_.ctx.fresh('m', StrS), 'category': I_.ctx.fresh('c', StrS), 'subcategory': I_.ctx.fresh('s', StrS)})
    sp.models['method:Obj:Engine.match'] = Func(m_match)
    sp.field_sorts[('MerchantRuleT', 'match_expr')] = StrS
    all_loops(fi, sp, lambda n: {'raw_values': lambda I_: Untracked(), 'all_tags': lambda I_: Untracked(), 'tag_sources': lambda I_: Untracked(),
                                 'result_merchant': lambda I_: Untracked(), 'result_category': lambda I_: Untracked(),
                                 'result_subcategory': lambda I_: Untracked(), 'result_pattern': lambda I_: Untracked(),
                                 'result_source': lambda I_: Untracked()})
    desc = ctx.fresh('description', StrS)
    rules = SymSeq([ctx.fresh('r.%d' % j, z3.SeqSort(StrS if j < 4 else ObjS)) for j in range(7)], 7)
    rules.classes = [None, None, None, None, 'ParsedT', None, 'pyany']
    sp.field_sorts[('ParsedT', 'amount_conditions')] = ObjS
    sp.field_sorts[('ParsedT', 'date_conditions')] = ObjS
    has_tr = ctx.choose(2, 'has_transforms')
    transforms = SymSeq([ctx.fresh('tr.p', z3.SeqSort(StrS)), ctx.fresh('tr.e', z3.SeqSort(StrS))], 2) if has_tr else None
    kwargs = {'amount': ctx.fresh('amount', RealS), 'txn_date': Untracked(), 'field': Untracked(), 'data_source': Untracked(),
              'transforms': transforms, 'location': Untracked(), 'data_sources': Untracked()}
    if has_tr:
        ctx.assume(transforms.length() > 0)
    expect_raises(ctx, I, lambda: I.call_function(fi, [desc, rules], kwargs), [], 'normalize_merchant')


def h_section(name):
    def h(ctx):
        sp = Spec()
        exc_table(sp)
        sp.models['expr_parser.create_context'] = Func(lambda I, a, k, n: Obj(I.fresh('ectx', ObjS)))
        sp.models['expr_parser.evaluate'] = Func(lambda I, a, k, n: (only_expression_error(I, 'evaluate'), Obj(I.fresh('v', ObjS), 'pyvalue'))[1])
        sp.models['expr_parser.evaluate_ast'] = Func(lambda I, a, k, n: (only_expression_error(I, 'evaluate_ast'), Obj(I.fresh('v', ObjS), 'pyvalue'))[1])
        sp.models['dict'] = Func(lambda I, a, k, n: Untracked())
        I = Interp(ctx, sp)
        fi = find_function(SE + name)
        escapes = []
        all_loops(fi, sp, lambda n: {'result': lambda I_: Untracked()}, escapes)
        smap = lambda nm: SymMap(StrS, {None: ctx.fresh(nm, z3.ArraySort(StrS, StrS))}, dom=ctx.fresh(nm + '.dom', z3.SetSort(StrS)))
        if name == 'evaluate_variables':
            call = lambda: I.call_function(fi, [smap('variable_exprs'), Untracked()], {'num_months': 12, 'existing_vars': Untracked(), 'period_data': Untracked()})
        elif name == 'evaluate_section_filter':
            sp.models['evaluate_variables'] = Func(lambda I_, a, k, n: {})      # raises nothing: its own harness
            section = Rec('Section', {'variables': smap('section.variables'), 'filter_ast': Obj(ctx.fresh('filter_ast', ObjS)),
                                      'filter_expr': ctx.fresh('filter_expr', StrS), 'name': ctx.fresh('name', StrS)})
            call = lambda: I.call_function(fi, [section, Untracked()], {'num_months': 12, 'global_vars': Untracked(), 'period_data': Untracked()})
        else:
            sp.models['evaluate_variables'] = Func(lambda I_, a, k, n: Untracked())
            sp.models['evaluate_section_filter'] = Func(lambda I_, a, k, n: I_.ctx.fresh('in_view', BoolS))
            config = Rec('SectionConfig', {'sections': SymSeq([ctx.fresh('sections', z3.SeqSort(ObjS))], None, ['SectionT']),
                                           'global_variables': smap('global_variables')})
            sp.field_sorts[('SectionT', 'name')] = StrS
            groups = SymSeq([ctx.fresh('merchant_groups', z3.SeqSort(ObjS))], None, ['pydict'])
            fr = Frame(fi, {})
            for nd in ast.walk(fi.node):
                if isinstance(nd, ast.DictComp):
                    sp.abstract_comprehensions.add((fi.qualname, fr.loop_ordinals[id(nd)]))
            call = lambda: I.call_function(fi, [config, groups], {'num_months': 12, 'period_data': Untracked()})
        expect_raises(ctx, I, call, [], name)
        check_items_independent(ctx, name, escapes)
    return h


def harnesses(tier):
    return [
        Harness('apply_transforms', h_apply_transforms, [MU + 'apply_transforms']),
        Harness('_resolve_dynamic_tags', h_resolve_dynamic_tags, [MU + '_resolve_dynamic_tags']),
        Harness('normalize_merchant', h_normalize_merchant, [MU + 'normalize_merchant']),
        Harness('evaluate_variables', h_section('evaluate_variables'), [SE + 'evaluate_variables']),
        Harness('evaluate_section_filter', h_section('evaluate_section_filter'), [SE + 'evaluate_section_filter']),
        Harness('classify_merchants', h_section('classify_merchants'), [SE + 'classify_merchants']),
    ]
