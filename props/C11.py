"""C11 - `tally up` honours every setting: report = totals(classify(parse(sources))).

cmd_run (proof at function level, callees uninterpreted): loop invariant over the data sources
    all_txns == Concat_{i<k, Included(source_i)} Parse_i
where Parse_i is the *call* parse_generic_csv(path_i, spec_i, rules, source_name=name_i, decimal_separator=sep_i,
transforms=T, data_sources=S) with rules / T / S obtained from the configuration (rules file, rule mode, supplemental
sources) and Included = not supplemental, file found, known parser, no exception.  Then analyze_transactions(all_txns),
classify_by_sections(stats['by_merchant'], configured views, stats['num_months']) and the selected renderer get exactly
those values.  A forgotten or constant argument, a source that aborts the loop, or supplemental rows parsed as
transactions refute an obligation.  load_config's rules-file selection is proved separately (also used by C15).
"""
import ast

import z3

from pyvc.core import Unsupported
from pyvc.extract import find_function
from pyvc.ghost import Ghost
from pyvc.interp import Interp, Spec, LoopSpec, PyRaise, Frame
from pyvc.runner import Harness
from pyvc.values import SymSeq, SymMap, Rec, Obj, Func, Untracked, UF, StrS, IntS, BoolS, ObjS, to_z3, seq_col

from props import cmd_common as cc

LEVEL = 'proof'
MIN_OBLIGATIONS = 30
RUN = 'tally.commands.run.cmd_run'
SeqObj = z3.SeqSort(ObjS)
RulesOf = UF('rules_of', ObjS, StrS, ObjS)                     # _check_merchant_migration(config, config_dir, ...)
TransformsOf = UF('get_transforms', ObjS, StrS, ObjS)          # (merchants_file, rule_mode)
SuppOf = UF('load_supplemental_sources', ObjS, StrS, ObjS)     # (config, config_dir)
PG = UF('parse_generic_csv', StrS, ObjS, ObjS, StrS, ObjS, ObjS, ObjS, ObjS)
PGerr = UF('parse_generic_csv.raises', StrS, ObjS, ObjS, StrS, ObjS, ObjS, ObjS, BoolS)
PA, PAerr = UF('parse_amex', StrS, ObjS, ObjS), UF('parse_amex.raises', StrS, ObjS, BoolS)
PB, PBerr = UF('parse_boa', StrS, ObjS, ObjS), UF('parse_boa.raises', StrS, ObjS, BoolS)
Analyze = UF('analyze_transactions', SeqObj, ObjS)
sv = z3.StringVal


def spec_terms(w, s):
    """(included, parse result) of source s as the statement prescribes"""
    p1 = cc.normpath(cc.join3(w.config_dir, sv('..'), cc.S_file(s)))
    path = z3.If(cc.Exists(p1), p1, cc.join(cc.dirname(w.config_dir), cc.S_file(s)))
    found = cc.Exists(path)
    ptype = cc.lower(cc.S_ptype(s))
    rules = RulesOf(w.config.expr, w.config_dir)
    tr = TransformsOf(w.merchants_file.expr, w.rule_mode)
    supp = SuppOf(w.config.expr, w.config_dir)
    gargs = (path, cc.S_spec(s), rules, cc.S_name(s), cc.S_sep(s), tr, supp)
    is_g = z3.And(ptype == sv('generic'), cc.truthy(cc.S_spec(s)))
    is_a, is_b = ptype == sv('amex'), ptype == sv('boa')
    ok = z3.If(is_a, z3.Not(PAerr(path, rules)), z3.If(is_b, z3.Not(PBerr(path, rules)), z3.And(is_g, z3.Not(PGerr(*gargs)))))
    res = z3.If(is_a, PA(path, rules), z3.If(is_b, PB(path, rules), PG(*gargs)))
    return z3.And(z3.Not(cc.S_supp(s)), found, ok), res


def h_cmd_run(fmt):
    def h(ctx):
        sp = Spec()
        I = Interp(ctx, sp)
        w = cc.World(ctx, sp)
        Batches = Ghost('Batches', [SeqObj], SeqObj, base=lambda s: z3.Empty(SeqObj),
                        step=lambda s, k, acc: z3.If(spec_terms(w, s[k])[0], z3.Concat(acc, z3.Unit(spec_terms(w, s[k])[1])), acc))
        # callee contracts: deterministic functions of their arguments (may raise where noted)
        sp.models['get_transforms'] = Func(lambda I_, a, k, n: Obj(TransformsOf(to_z3(a[0]), to_z3(k.get('match_mode', a[1] if len(a) > 1 else 'first_match'), StrS))))
        sp.models['_check_merchant_migration'] = Func(lambda I_, a, k, n: Obj(RulesOf(to_z3(a[0]), to_z3(a[1], StrS))))
        sp.models['load_supplemental_sources'] = Func(lambda I_, a, k, n: Obj(SuppOf(to_z3(a[0]), to_z3(a[1], StrS)), 'supp'))
        sp.field_sorts[('contains', 'supp')] = lambda I_, c, item, node: I_.ctx.fresh('supplemental_source_loaded', z3.BoolSort())      # which supplemental sources were loaded: unknown
        sp.models['method:Obj:supp.keys'] = Func(lambda I_, a, k, n: Untracked())
        sp.field_sorts[('FormatSpecT', 'x')] = ObjS

        def m_pg(I_, a, k, n):
            zs = (to_z3(a[0], StrS), to_z3(a[1]), to_z3(a[2]), to_z3(k.get('source_name', 'CSV'), StrS), to_z3(k.get('decimal_separator', '.')) if not isinstance(k.get('decimal_separator', '.'), str) else to_z3(Obj(UF('const_sep', ObjS)())),
                  to_z3(k['transforms']) if k.get('transforms') is not None else UF('none', ObjS)(), to_z3(k['data_sources']) if k.get('data_sources') is not None else UF('none', ObjS)())
            if I_.ctx.branch(PGerr(*zs), 'parse_generic_csv.raises'):
                raise PyRaise('Exception', (), 'parse_generic_csv')
            return Obj(PG(*zs), 'batch')
        sp.models['parse_generic_csv'] = Func(m_pg)

        def m_legacy(F, E):
            def m(I_, a, k, n):
                zs = (to_z3(a[0], StrS), to_z3(a[1]))
                if I_.ctx.branch(E(*zs), 'legacy.raises'):
                    raise PyRaise('Exception', (), 'legacy parser')
                return Obj(F(*zs), 'batch')
            return Func(m)
        sp.models['parse_amex'], sp.models['parse_boa'] = m_legacy(PA, PAerr), m_legacy(PB, PBerr)
        # source.get('decimal_separator', '.') -> the configured separator
        sp.models['len'] = Func(lambda I_, a, k, n: Untracked() if isinstance(a[0], (Obj, SymSeq)) else len(a[0]))
        seen = {}

        def m_analyze(I_, a, k, n):
            seen['analyze_arg'] = a[0]
            return Obj(Analyze(seq_col(a[0], 0, ObjS)), 'analyze_transactions')
        sp.models['analyze_transactions'] = Func(m_analyze)
        for nm in ('classify_by_sections', 'export_json', 'export_markdown', 'print_summary', 'print_sections_summary', 'write_summary_file_vue'):
            sp.models[nm] = (lambda nm: Func(lambda I_, a, k, n: (seen.setdefault(nm, []).append((a, k)), Obj(I_.fresh(nm, ObjS), nm))[1]))(nm)
        sp.models['method:Obj:classify_by_sections.items'] = Func(lambda I_, a, k, n: Untracked())
        fi = find_function(RUN)
        fr = Frame(fi, {})
        fors = sorted([n for n in ast.walk(fi.node) if isinstance(n, ast.For)], key=lambda n: n.lineno)

        def inv(I_, env, k, it):
            return {'all_txns_is_concatenation_of_included_sources': seq_col(env['all_txns'], 0, ObjS) == Batches(it.cols[0], k)}
        # the loop over the sources that collects their transactions (loops that only report - e.g. on supplemental sources that were not loaded - carry
        # no state and get the engine's default contract)
        collecting = [f for f in fors if any(isinstance(x, ast.Name) and x.id == 'all_txns' for x in ast.walk(f))]
        if not collecting:
            raise Unsupported('cmd_run: no loop collects all_txns')
        sp.loops[(RUN, fr.loop_ordinals[id(collecting[0])])] = LoopSpec(inv, {'all_txns': lambda I_: SymSeq([I_.fresh('all_txns', SeqObj)], None, ['batch'])},
                                                               unfold=lambda I_, env, k, it: Batches.unfold(it.cols[0], k))
        for nd in ast.walk(fi.node):
            if isinstance(nd, (ast.DictComp, ast.SetComp, ast.ListComp, ast.GeneratorExp)):
                sp.abstract_comprehensions.add((RUN, fr.loop_ordinals[id(nd)]))
        args = w.args(format=fmt, summary=(fmt == 'summary'))
        try:
            I.call_function(fi, [args])
        except PyRaise as e:
            if e.cls != 'SystemExit':
                ctx.check('C11.cmd_run.raises_only_SystemExit', False, 'property', meta={'escaping': e.cls})
            return
        n = z3.Length(w.sources)
        for f in Batches.unfold(w.sources, z3.IntVal(-1)):
            ctx.assume(f)
        a = seen.get('analyze_arg')
        ctx.check('C11.analysis_gets_exactly_the_parsed_transactions', a is not None and isinstance(a, (SymSeq, list)), 'property')
        if a is None:
            return
        batches = seq_col(a, 0, ObjS)
        ctx.check('C11.report_is_over_all_included_sources', batches == Batches(w.sources, n), 'property')
        stats = Analyze(batches)
        if w.has_views:
            cl = seen.get('classify_by_sections', [])
            ctx.check('C11.views_classified_once', len(cl) == 1, 'property')
            if cl:
                ca, ck = cl[0]
                ctx.check('C11.views_get_analysed_merchants', to_z3(ca[0]) == UF('stats[by_merchant]', ObjS, ObjS)(stats), 'property')
                ctx.check('C11.views_are_the_configured_views', to_z3(ca[1]) == w.views.expr, 'property')
                ctx.check('C11.views_get_num_months', to_z3(ca[2]) == UF('stats[num_months]', ObjS, ObjS)(stats), 'property')
        renderer = {'json': 'export_json', 'markdown': 'export_markdown', 'html': 'write_summary_file_vue'}.get(fmt)
        if renderer:
            calls = seen.get(renderer, [])
            ctx.check('C11.selected_renderer_called_once[%s]' % fmt, len(calls) == 1, 'property')
            if calls:
                ctx.check('C11.renderer_gets_the_analysed_stats[%s]' % fmt, to_z3(calls[0][0][0]) == stats, 'property')
        else:
            calls = seen.get('print_summary', []) + seen.get('print_sections_summary', [])
            ctx.check('C11.text_summary_printed_once', len(calls) == 1, 'property')
            if calls:
                ctx.check('C11.text_summary_gets_the_analysed_stats', to_z3(calls[0][0][0]) == stats, 'property')
        ctx.cover('cmd_run.completes[%s]' % fmt)
    return h


def harnesses(tier):
    from props import C11_config
    return [Harness('cmd_run[%s]' % f, h_cmd_run(f), [RUN]) for f in ('html', 'json', 'markdown', 'summary')] + C11_config.harnesses(tier) + \
        [Harness('resolve_source_format.overrides', h_resolve_overrides, ['tally.config_loader.resolve_source_format'])]


ORACLES = [
    {'name': 'budget directories run through the real `tally up --format json -v` (in process) against an independent report computed from the files; '
             'one-setting-at-a-time perturbations (locality); missing / unreadable sources', 'script': 'C11.py',
     'bound': '3 sources x settings {delimiter (default, tab keyword, semicolon, literal tab, pipe), has_header, decimal_separator, negate_amount, supplemental, a supplemental source with its own separators, missing file, unreadable file, rule_mode, views}'},
]
TRUSTED_BASE = ['pyvc symbolic executor', 'z3 5.1.0 / cvc5 1.0.3',
                'callees of cmd_run are uninterpreted deterministic functions of their arguments (their own contracts: C05 parse_generic_csv, C06 analyze_transactions, C10 views, C12 renderers)',
                'argparse, YAML parsing, os.path and process start-up are outside the verified text (A10)',
                'list.extend(batch) is viewed as appending one batch object (concatenation abstraction)']
ASSUMPTIONS = ['A10', 'config.get(key, default) is read as "the configured value of key"']
EXPLANATION = ('Loop invariant all_txns == Concat of the included sources\' parse calls on the real cmd_run with symbolic configuration and uninterpreted callees; call-site clauses for '
               'analysis, views and renderers; load_config selection logic; resolve_source_format writes exactly the source\'s own overrides over the parsed FormatSpec; '
               'bounded stand-in (labelled): real runs of `tally up` on generated budget directories.')


def structural(tier, res):
    """each source gets its own settings: resolve_source_format writes only into its private copy of the source entry, into the FormatSpec it has just
    built for this source, and into the caller's warnings list - nothing shared between sources (or between runs) is written"""
    from pyvc import frames
    q = 'tally.config_loader.resolve_source_format'
    fi = find_function(q)
    res.functions[q] = fi.describe()
    body = [st for st in fi.node.body if not (isinstance(st, ast.Expr) and isinstance(st.value, ast.Constant))]
    first = body[0] if body else None
    copied = isinstance(first, ast.Assign) and ast.unparse(first) == 'source = source.copy()'
    out = [frames.Clause(q + '#works_on_a_private_copy_of_the_source_entry', copied, 'first statement is source = source.copy()' if copied else 'the source entry is not copied first', kind='auxiliary')]
    # the FormatSpec that receives this source's delimiter / header / sign settings is built on the spot for this source
    binds = [ast.unparse(n.value) for n in ast.walk(fi.node) if isinstance(n, ast.Assign) and any(isinstance(t, ast.Name) and t.id == 'format_spec' for t in n.targets)]
    built = bool(binds) and all(b == 'None' or b.startswith('parse_format_string(') or b.startswith('FormatSpec(') for b in binds)
    out.append(frames.Clause(q + '#format_spec_is_built_for_this_source', built, 'format_spec bound only from parse_format_string(...)' if built else 'format_spec bound from %s' % binds, kind='auxiliary'))
    # a supplemental source is typed with ITS OWN decimal separator (not the run's, not another source's)
    q2 = 'tally.config_loader.load_supplemental_sources'
    f2 = find_function(q2)
    res.functions[q2] = f2.describe()
    binds2 = [ast.unparse(n.value) for n in ast.walk(f2.node) if isinstance(n, ast.Assign) and any(isinstance(t, ast.Name) and t.id == 'decimal_sep' for t in n.targets)]
    own = bool(binds2) and all(b.startswith("source.get('decimal_separator'") for b in binds2)
    out.append(frames.Clause(q2 + '#decimal_separator_is_the_sources_own', own, 'decimal_sep bound from source.get(...)' if own else 'decimal_sep bound from %s' % binds2, kind='auxiliary'))
    # `source` names the private copy from the first statement on (the alias classification is flow-insensitive, so it is allowed by name here)
    return out + frames.check_assigns(fi, {'warnings', 'source'}, {'parse_format_string', 'FormatSpec'}, cid=q + '#writes_only_per_source_state')


def h_resolve_overrides(ctx):
    """resolve_source_format: the FormatSpec of a source is parse_format_string(source.format, template) with exactly the source's own delimiter /
    has_header / negate_amount written over it, value for value (no trimming, no defaults from elsewhere); everything else is left as parsed"""
    sp = Spec()
    I = Interp(ctx, sp)
    keys = ['delimiter', 'has_header', 'negate_amount']
    present = {k: bool(ctx.choose(2, 'has.' + k)) for k in keys}
    vals = {'delimiter': ctx.fresh('source.delimiter', StrS), 'has_header': ctx.fresh('source.has_header', BoolS), 'negate_amount': ctx.fresh('source.negate_amount', BoolS)}
    fmt, name = ctx.fresh('source.format', StrS), ctx.fresh('source.name', StrS)
    source = {'name': name, 'file': ctx.fresh('source.file', StrS), 'format': fmt}
    for k in keys:
        if present[k]:
            source[k] = vals[k]
    supp = bool(ctx.choose(2, 'supplemental'))
    if supp:
        source['supplemental'] = True
    parsed = {'delimiter': ctx.fresh('parsed.delimiter', StrS), 'has_header': ctx.fresh('parsed.has_header', BoolS), 'negate_amount': ctx.fresh('parsed.negate_amount', BoolS),
              'abs_amount': ctx.fresh('parsed.abs_amount', BoolS), 'date_column': ctx.fresh('parsed.date_column', IntS)}
    spec_rec = Rec('FormatSpec', dict(parsed))
    seen = []

    def m_parse(I_, a, k, n):
        seen.append(a)
        return spec_rec
    sp.models['parse_format_string'] = Func(m_parse)
    fi = find_function('tally.config_loader.resolve_source_format')
    original = dict(source)
    r = I.call_function(fi, [source])
    ctx.check('C11.source.caller_entry_not_modified', source == original, 'property')
    ctx.check('C11.source.format_parsed_from_this_sources_format_string', len(seen) == 1 and to_z3(seen[0][0], StrS) is not None and z3.eq(to_z3(seen[0][0], StrS), fmt), 'property')
    ok = isinstance(r, dict) and r.get('_format_spec') is spec_rec
    ctx.check('C11.source.format_spec_is_the_parsed_one', ok, 'property')
    if not ok:
        return
    ctx.check('C11.source.parser_type_generic', r.get('_parser_type') == 'generic', 'property')
    ctx.check('C11.source.supplemental_flag_is_the_sources', r.get('_supplemental') is supp, 'property')
    for k in keys:
        got = to_z3(spec_rec.fields[k])
        want = vals[k] if present[k] else parsed[k]
        ctx.check('C11.source.%s_is_the_sources_own_value_else_as_parsed' % k, got == want, 'property')
    for k in ('abs_amount', 'date_column'):
        ctx.check('C11.source.%s_left_as_parsed' % k, to_z3(spec_rec.fields[k]) == parsed[k], 'property')
    ctx.cover('resolve_source_format.returns')
