"""C06 - totals conserve money: each transaction counted once, in exactly one bucket.

Functions under contract (real text re-read from /repo every run):
  classification.get_tags_lower, is_income, is_transfer, is_investment, is_excluded_from_spending,
  normalize_amount, categorize_amount, calculate_cash_flow, calculate_transfers_net,
  analyzer.analyze_transactions (the accumulation loop and the derived figures).
"""
import z3

from pyvc.core import Unsupported
from pyvc.extract import find_function
from pyvc.ghost import Ghost
from pyvc.interp import Interp, Spec, LoopSpec, PyRaise
from pyvc.runner import Harness
from pyvc.values import (SymSeq, SymSet, Func, UF, StrS, IntS, RealS, BoolS, ObjS, Obj, to_z3,
                         set_expr)

LEVEL = 'proof'
MIN_OBLIGATIONS = 60
SeqStr = z3.SeqSort(StrS)
SetStr = z3.SetSort(StrS)
lower = UF('str.lower', StrS, StrS)

# ghost: LowerSet(tags, k) = { lower(tags[i]) | i < k }
LowerSet = Ghost('LowerSet', [SeqStr], SetStr,
                 base=lambda s: z3.EmptySet(StrS),
                 step=lambda s, k, acc: z3.SetAdd(acc, lower(s[k])))

C = 'tally.classification.'


def tags_lower_of(seq):
    return LowerSet(seq, z3.Length(seq))


def I_(seq):
    return z3.IsMember(z3.StringVal('income'), tags_lower_of(seq))


def V_(seq):
    return z3.IsMember(z3.StringVal('investment'), tags_lower_of(seq))


def X_(seq):
    return z3.IsMember(z3.StringVal('transfer'), tags_lower_of(seq))


# ------------------------------------------------------------------ contracts of callees

def m_get_tags_lower(I, args, kwargs, node):
    (tags,) = args
    if tags is None or (isinstance(tags, list) and not tags):
        return SymSet(z3.EmptySet(StrS))
    if not isinstance(tags, SymSeq):
        raise Unsupported('get_tags_lower contract: tags must be a list of str')
    for f in LowerSet.unfold(tags.cols[0], z3.IntVal(-1)):
        I.ctx.assume(f)
    return SymSet(tags_lower_of(tags.cols[0]))


def base_spec():
    sp = Spec()
    return sp


def spec_with_gtl():
    sp = base_spec()
    sp.models['get_tags_lower'] = Func(m_get_tags_lower, 'get_tags_lower')
    return sp


def comp_loop_spec():
    """Loop contract of the set comprehension in get_tags_lower."""
    def inv(I, env, k, it):
        acc = env['$acc0']
        return {'acc_is_LowerSet': set_expr(acc, StrS) == LowerSet(it.cols[0], k)}

    def unfold(I, env, k, it):
        return LowerSet.unfold(it.cols[0], k)
    return LoopSpec(inv, {'$acc0': lambda I: SymSet(I.fresh('acc', SetStr))}, kind='auxiliary', unfold=unfold)


# ------------------------------------------------------------------ harnesses

def h_get_tags_lower(ctx):
    sp = base_spec()
    sp.loops[(C + 'get_tags_lower', 0)] = comp_loop_spec()
    I = Interp(ctx, sp)
    which = ctx.choose(2, 'tags_is_none')
    fi = find_function(C + 'get_tags_lower')
    if which == 1:
        r = I.call_function(fi, [None])
        ctx.check('post.none_gives_empty', set_expr(r, StrS) == z3.EmptySet(StrS), 'property')
        ctx.cover('none_path')
        return
    seq = ctx.fresh('tags', SeqStr)
    r = I.call_function(fi, [SymSeq([seq])])
    for f in LowerSet.unfold(seq, z3.IntVal(-1)):
        ctx.assume(f)
    ctx.check('post.result_is_LowerSet', set_expr(r, StrS) == tags_lower_of(seq), 'property',
              witness={'tags': seq})
    ctx.cover('list_path')


def h_lowerset_reading(ctx):
    """Declarative reading of the ghost (code independent, induction on k):
       x in LowerSet(s,k)  <=>  exists i<k. lower(s[i]) = x."""
    s = ctx.fresh('s', SeqStr)
    k = ctx.fresh('k', IntS)
    x = ctx.fresh('x', StrS)
    i = z3.Int('i')

    def R(kk):
        return z3.IsMember(x, LowerSet(s, kk)) == z3.Exists([i], z3.And(i >= 0, i < kk, lower(s[i]) == x))
    for f in LowerSet.unfold(s, k):
        ctx.assume(f)
    ctx.check('lemma.base', R(z3.IntVal(0)), 'auxiliary')
    ctx.assume(k >= 0)
    ctx.assume(R(k))
    ctx.check('lemma.step', R(k + 1), 'auxiliary')


def _sym_tags(ctx):
    seq = ctx.fresh('tags', SeqStr)
    return seq, SymSeq([seq])


def h_predicates(ctx):
    sp = spec_with_gtl()
    sp.inline |= set()
    I = Interp(ctx, sp)
    seq, tags = _sym_tags(ctx)
    which = ctx.choose(4, 'fn')
    name = ['is_income', 'is_investment', 'is_transfer', 'is_excluded_from_spending'][which]
    r = I.call_function(find_function(C + name), [tags])
    r = to_z3(I.truthy(r))
    expect = [I_(seq), V_(seq), X_(seq), z3.Or(I_(seq), V_(seq), X_(seq))][which]
    ctx.check('post.%s' % name, r == expect, 'property', witness={'tags': seq})
    ctx.cover('pred.%s' % name)


def _inline_preds(sp):
    sp.inline |= {C + 'is_income', C + 'is_investment', C + 'is_transfer'}


def h_normalize_amount(ctx):
    sp = spec_with_gtl()
    _inline_preds(sp)
    I = Interp(ctx, sp)
    seq, tags = _sym_tags(ctx)
    amount = ctx.fresh('amount', RealS)
    r = I.call_function(find_function(C + 'normalize_amount'), [amount, tags])
    absa = z3.If(amount >= 0, amount, -amount)
    ctx.check('post.normalize', to_z3(r, RealS) == z3.If(z3.Or(I_(seq), V_(seq)), absa, amount), 'property',
              witness={'amount': amount, 'tags': seq})
    ctx.cover('normalize_path')


BUCKETS = ['income', 'investment', 'transfer_in', 'transfer_out', 'spending', 'credits']


def bucket_spec(seq, amount):
    """The bucket the statement prescribes (index into BUCKETS)."""
    return z3.If(I_(seq), 0, z3.If(V_(seq), 1, z3.If(X_(seq), z3.If(amount > 0, 2, 3), z3.If(amount > 0, 4, 5))))


def h_categorize_amount(ctx):
    sp = spec_with_gtl()
    I = Interp(ctx, sp)
    seq, tags = _sym_tags(ctx)
    amount = ctx.fresh('amount', RealS)
    r = I.call_function(find_function(C + 'categorize_amount'), [amount, tags])
    if not isinstance(r, dict):
        raise Unsupported('categorize_amount must return a dict display')
    wit = {'amount': amount, 'tags': seq}
    ctx.check('post.keys', sorted(r.keys()) == sorted(BUCKETS), 'property')
    vals = [to_z3(r[b], RealS) for b in BUCKETS if b in r]
    if len(vals) != 6:
        return
    absa = z3.If(amount >= 0, amount, -amount)
    want = bucket_spec(seq, amount)
    for j, b in enumerate(BUCKETS):
        ctx.check('post.bucket.%s' % b, vals[j] == z3.If(want == j, absa, 0), 'property', witness=wit)
    ctx.check('post.sum_is_abs', z3.Sum(vals) == absa, 'property', witness=wit)
    ctx.cover('categorize_path')


def h_formulas(ctx):
    sp = base_spec()
    I = Interp(ctx, sp)
    a, b, c = [ctx.fresh(n, RealS) for n in ('x', 'y', 'z')]
    r = I.call_function(find_function(C + 'calculate_cash_flow'), [a, b, c])
    ctx.check('post.cash_flow', to_z3(r, RealS) == a - b + c, 'property', witness={'income': a, 'spending': b, 'credits': c})
    r2 = I.call_function(find_function(C + 'calculate_transfers_net'), [a, b])
    ctx.check('post.transfers_net', to_z3(r2, RealS) == a - b, 'property', witness={'in': a, 'out': b})
    ctx.cover('formulas_path')


def harnesses(tier):
    from props import C06_analyze
    hs = [
        Harness('get_tags_lower', h_get_tags_lower, [C + 'get_tags_lower']),
        Harness('LowerSet.reading', h_lowerset_reading, []),
        Harness('tag_predicates', h_predicates, [C + n for n in ('is_income', 'is_investment', 'is_transfer', 'is_excluded_from_spending')]),
        Harness('normalize_amount', h_normalize_amount, [C + 'normalize_amount']),
        Harness('categorize_amount', h_categorize_amount, [C + 'categorize_amount']),
        Harness('formulas', h_formulas, [C + 'calculate_cash_flow', C + 'calculate_transfers_net']),
    ]
    hs += C06_analyze.harnesses(tier)
    return hs


ORACLES = [
    {'name': 'small-scope conservation/partition/permutation check of analyze_transactions and categorize_amount',
     'script': 'C06.py', 'bound': 'quick: all tag subsets of 7 tags x 5 amounts; lists of <= 3 txns from a pool of 8, all permutations and 2-way splits; thorough: lists <= 4 from a pool of 10'},
]

TRUSTED_BASE = [
    'pyvc symbolic executor (encoding of the accepted Python subset into SMT)',
    'z3 5.1.0 / cvc5 1.0.3',
    'floats treated as mathematical reals (A1)',
    'str.lower is an uninterpreted function shared by code and spec (A5)',
    'MapSum axiom: MapSum(Store(m,x,m[x]+v)) = MapSum(m)+v (exchange of summation over a finite partition)',
]
ASSUMPTIONS = [
    'A1 floats are reals: order independence of totals is claimed up to rounding',
    'transactions are dicts with amount (number), tags (list of str), category/subcategory/merchant (str), date (datetime), source',
    'untracked per-merchant fields (months, payments, transactions, raw_descriptions, max_payment, match_info) are abstracted (havocked); they never flow into the tracked totals (checked: such a flow is Unsupported)',
]
EXPLANATION = ('Deductive: VCs generated by symbolic execution of the real source text of the listed functions, '
               'callers checked against callee contracts, loops cut at invariants over ghost sums; discharged by z3/cvc5. '
               'Bounded stand-in (labelled, not counted): exhaustive small-scope differential run of the real functions.')
