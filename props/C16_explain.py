"""C16 - a raw description with its amount: explain_description reports what normalize_merchant (what `tally up` applies) assigns.
With a rules file loaded both functions ask the same engine the same question - MerchantEngine.match on a transaction with the same description (after
the same transforms), amount, date and field, with the same supplemental rows - and both report the merchant / category / subcategory of its answer, or
Unknown with the name extracted from the transformed description.  MerchantEngine.match itself is C01/C02/C09; apply_transforms is C08."""
import z3

from pyvc.extract import find_function
from pyvc.interp import Interp, Spec, PyRaise
from pyvc.runner import Harness
from pyvc.values import Rec, Obj, Func, Untracked, UF, StrS, RealS, BoolS, ObjS, to_z3, SymSeq

MU = 'tally.merchant_utils.'
Transformed = UF('apply_transforms.description', StrS, ObjS, StrS)       # description after the transforms (function of the description and the transform list)
ExtractName = UF('extract_merchant_name', StrS, StrS)


def run(ctx, which):
    sp = Spec()
    sp.exc_table.update({'ExpressionError': 'Exception'})
    I = Interp(ctx, sp)
    engine = Obj(ctx.fresh('cached_engine', ObjS), 'Engine')
    sp.globals['_cached_engine'] = engine
    ctx.assume(z3.Not(UF('is_none', ObjS, BoolS)(engine.expr)))        # precondition of this contract: a rules file is loaded
    desc, amount = ctx.fresh('description', StrS), ctx.fresh('amount', RealS)
    transforms = Obj(ctx.fresh('transforms', ObjS), 'transforms')
    sp.truthy_classes.add('transforms')
    rows = Obj(ctx.fresh('supplemental_rows', ObjS), 'rows')
    asked = []

    def m_transforms(I_, a, k, n):
        txn = a[0]
        if isinstance(txn, dict):
            txn['description'] = Transformed(to_z3(txn['description'], StrS), to_z3(a[1]))
        return txn
    sp.models['apply_transforms'] = Func(m_transforms)
    sp.models['extract_merchant_name'] = Func(lambda I_, a, k, n: ExtractName(to_z3(a[0], StrS)))
    matched = ctx.fresh('engine.matched', BoolS)
    triple = [ctx.fresh('engine.' + x, StrS) for x in ('merchant', 'category', 'subcategory')]

    def m_match(I_, a, k, n):
        asked.append((a[1] if len(a) > 1 else None, k))
        rule = Rec('MerchantRule', {'match_expr': I_.ctx.fresh('rule.match_expr', StrS), 'tags': Untracked()})
        return Rec('MatchResult', {'matched': matched, 'matched_rule': rule, 'tags': Untracked(), 'tag_sources': Untracked(), 'extra_fields': Untracked(),
                                   'merchant': triple[0], 'category': triple[1], 'subcategory': triple[2]})
    sp.models['method:Obj:Engine.match'] = Func(m_match)
    sp.models['sorted'] = Func(lambda I_, a, k, n: Untracked())
    sp.models['list'] = Func(lambda I_, a, k, n: Untracked())
    if which == 'explain':
        r = I.call_function(find_function(MU + 'explain_description'), [desc, Untracked()], {'amount': amount, 'transforms': transforms, 'data_sources': rows})
        got = [r['merchant'], r['category'], r['subcategory']] if isinstance(r, dict) else None
    else:
        r = I.call_function(find_function(MU + 'normalize_merchant'), [desc, Untracked()], {'amount': amount, 'transforms': transforms, 'data_sources': rows})
        got = list(r[:3]) if isinstance(r, tuple) else None
    tdesc = Transformed(desc, transforms.expr)
    ctx.check('C16.%s.asks_the_loaded_engine_once' % which, len(asked) == 1, 'property')
    if len(asked) != 1 or got is None:
        return
    txn, kw = asked[0]
    ok_txn = isinstance(txn, dict) and z3.is_expr(txn.get('description')) and z3.is_expr(txn.get('amount') if not isinstance(txn.get('amount'), (int, float)) else None)
    ctx.check('C16.%s.question_is_the_transformed_description_with_its_amount' % which,
              z3.And(to_z3(txn['description'], StrS) == tdesc, to_z3(txn['amount'], RealS) == z3.If(amount != 0, amount, 0)) if isinstance(txn, dict) else False, 'property')
    ctx.check('C16.%s.supplemental_rows_are_passed' % which, isinstance(kw.get('data_sources'), Obj) and kw['data_sources'].expr is rows.expr, 'property')
    want = [z3.If(matched, triple[0], ExtractName(tdesc)), z3.If(matched, triple[1], z3.StringVal('Unknown')), z3.If(matched, triple[2], z3.StringVal('Unknown'))]
    for name, g, w in zip(('merchant', 'category', 'subcategory'), got, want):
        ctx.check('C16.%s.reports_the_engines_%s_or_unknown' % (which, name), to_z3(g, StrS) == w, 'property')
    ctx.cover('%s.returns' % which)


def harnesses(tier):
    return [Harness('explain_description[engine]', lambda ctx: run(ctx, 'explain'), [MU + 'explain_description'], prune=True),
            Harness('normalize_merchant[engine]', lambda ctx: run(ctx, 'normalize'), [MU + 'normalize_merchant'], prune=True)]
