"""C02 - dynamic tags on the legacy path (merchant_utils._resolve_dynamic_tags, used by the tuple loop of normalize_merchant and by apply_tag_rules):
a static tag contributes itself (stripped, lower-cased); a {expression} tag contributes the lower-cased value of THAT expression text - the text
between the braces, stripped, otherwise exactly as written (letter case matters inside regular expressions and string literals) - evaluated on the
transaction, WITH the supplemental sources the caller has (as the same tag in a .rules file is); empty texts, empty values and expressions that fail
contribute nothing; every tag of the list is processed."""
import ast

import z3

from pyvc.extract import find_function
from pyvc.interp import Interp, Spec, LoopSpec, PyRaise, Frame
from pyvc.runner import Harness
from pyvc.values import SymSeq, Obj, Func, Untracked, UF, StrS, IntS, BoolS, ObjS, to_z3

MU = 'tally.merchant_utils.'
strip = UF('str.strip', StrS, StrS)
lower = UF('str.lower', StrS, StrS)


def h_dynamic_tags(ctx):
    sp = Spec()
    sp.exc_table.update({'ExpressionError': 'Exception'})
    I = Interp(ctx, sp)
    q = MU + '_resolve_dynamic_tags'
    fi = find_function(q)
    tags = ctx.fresh('tags', z3.SeqSort(StrS))
    txn = Obj(ctx.fresh('transaction', ObjS), 'pydict')
    seen = {}

    def cur_tag(I_):
        return seen['raw']

    def m_ctx(I_, a, k, n):
        ctx.check('C02.dynamic_tag.evaluated_on_this_transaction', isinstance(a[0], Obj) and a[0].expr is txn.expr, 'property')
        return Obj(I_.fresh('tctx', ObjS), 'tctx')

    def m_parse(I_, a, k, n):
        t = strip(seen['raw'])
        inner = z3.SubString(t, 1, z3.Length(t) - 2)
        ctx.check('C02.dynamic_tag.expression_is_the_text_between_the_braces_as_written', to_z3(a[0], StrS) == strip(inner), 'property')
        if I_.ctx.choose(2, 'parse.raises'):
            raise PyRaise('ExpressionError', (), 'parse_expression')
        return Obj(I_.fresh('tree', ObjS), 'tree')

    def m_eval(I_, a, k, n):
        if I_.ctx.choose(2, 'evaluate.raises'):
            raise PyRaise('ExpressionError', (), 'evaluate')
        return I_.ctx.fresh('value', StrS)
    ds = Obj(ctx.fresh('data_sources', ObjS), 'pydict')
    has_ds_param = any(a.arg == 'data_sources' for a in fi.node.args.args + fi.node.args.kwonlyargs)
    ctx.check('C02.dynamic_tag.takes_the_supplemental_sources_of_the_caller', has_ds_param, 'property')

    def m_evaluate_transaction(I_, a, k, n):
        # the one-call form: evaluate_transaction(text, transaction, data_sources=...)
        t = strip(seen['raw'])
        inner = z3.SubString(t, 1, z3.Length(t) - 2)
        ctx.check('C02.dynamic_tag.expression_is_the_text_between_the_braces_as_written', to_z3(a[0], StrS) == strip(inner), 'property')
        ctx.check('C02.dynamic_tag.evaluated_on_this_transaction', len(a) > 1 and isinstance(a[1], Obj) and a[1].expr is txn.expr, 'property')
        got = k.get('data_sources', a[3] if len(a) > 3 else None)
        ctx.check('C02.dynamic_tag.evaluated_with_the_supplemental_sources', isinstance(got, Obj) and got.expr is ds.expr, 'property')
        if I_.ctx.choose(2, 'evaluate.raises'):
            raise PyRaise('ExpressionError', (), 'evaluate_transaction')
        if I_.ctx.choose(2, 'value.is_a_list'):
            return SymSeq([I_.ctx.fresh('values', z3.SeqSort(StrS))])
        return I_.ctx.fresh('value', StrS)
    sp.models['expr_parser.evaluate_transaction'] = Func(m_evaluate_transaction)
    sp.models['expr_parser.TransactionContext.from_transaction'] = Func(m_ctx)
    sp.models['expr_parser.parse_expression'] = Func(m_parse)
    sp.models['expr_parser.TransactionEvaluator'] = Func(lambda I_, a, k, n: Obj(I_.fresh('evaluator', ObjS), 'Evaluator'))
    sp.models['method:Obj:Evaluator.evaluate'] = Func(m_eval)
    escapes = []
    fr = Frame(fi, {})
    out = {}

    def inv(I_, env, k, it):
        return {}
    for nd in ast.walk(fi.node):
        if isinstance(nd, ast.For):
            ls = LoopSpec(inv, {'resolved': lambda c: SymSeq([c.fresh('resolved_k', z3.SeqSort(StrS))])})
            ls.on_exit = lambda kind, tag: escapes.append((kind, tag))
            sp.loops[(q, fr.loop_ordinals[id(nd)])] = ls
    # observe the raw element the loop binds and what is appended for it
    orig_assign = I.assign

    def assign(t, v, frm):
        if isinstance(t, ast.Name) and t.id == 'tag' and 'raw' not in seen and z3.is_expr(v):
            seen['raw'] = v
        return orig_assign(t, v, frm)
    I.assign = assign
    orig_method = I.method

    def method(o, attr, args, kwargs, node):
        if attr == 'append' and isinstance(o, SymSeq) and 'raw' in seen and len(args) == 1:
            t = strip(seen['raw'])
            dynamic = z3.And(z3.PrefixOf(z3.StringVal('{'), t), z3.SuffixOf(z3.StringVal('}'), t))
            v = to_z3(args[0], StrS)
            ctx.check('C02.dynamic_tag.static_tag_contributes_itself_lowercased', z3.Implies(z3.Not(dynamic), v == lower(t)), 'property')
            ctx.check('C02.dynamic_tag.contribution_is_lowercased_nonempty', z3.Length(v) >= 0, 'auxiliary')
            out['appended'] = v
        return orig_method(o, attr, args, kwargs, node)
    I.method = method
    try:
        I.call_function(fi, [SymSeq([tags]), txn] + ([ds] if has_ds_param else []))
    except PyRaise as e:
        ctx.check('C02.dynamic_tags.raises_nothing', False, 'property', meta={'escaping': e.cls})
        return
    ctx.check('C02.dynamic_tags.every_tag_is_processed', not [e for e in escapes if e[0] in ('raise', 'return', 'break')], 'property')
    ctx.cover('_resolve_dynamic_tags.returns')


def harnesses(tier):
    return [Harness('_resolve_dynamic_tags', h_dynamic_tags, [MU + '_resolve_dynamic_tags'])]
