"""C01 - "for .rules files and legacy CSV rule files alike": the tuple loop of merchant_utils.normalize_merchant (no cached engine).

Specification, from the statement: with hit(i) = "the match condition of row i is true for the transaction" and cat(i) = "row i carries a category",
    F = the least i with hit(i) and cat(i)                                   (LegacyFirst ghost: -1 when there is none)
the result is (merchant_F, category_F, subcategory_F) when F exists - whatever the merchant cell holds, an empty one included - and otherwise
(a name that is a function of the description alone, 'Unknown', 'Unknown').  Rows whose condition is false, and rows after F, do not occur in it.
hit(i) is read off the row the way the documentation of the CSV format has it: a pattern that is an expression is evaluated on the transaction (with
the caller's supplemental sources), any other pattern is searched as a regular expression in the upper-cased description; [amount...] / [date...]
modifiers, when the row has any, must hold as well; a pattern that cannot be evaluated / compiled makes the row not apply.  The meaning of the
expression, of the regular expression and of the modifiers themselves is uninterpreted here (C04, A6, modifier_parser).
Loop invariant over the rows read so far; assumption: rows are the 7-tuples get_all_rules builds.
"""
import ast

import z3

from pyvc.core import Unsupported
from pyvc.extract import find_function
from pyvc.ghost import Ghost
from pyvc.interp import Interp, Spec, LoopSpec, PyRaise, Frame
from pyvc.runner import Harness
from pyvc.values import SymSeq, SymOpt, Obj, Func, Untracked, UF, StrS, IntS, BoolS, ObjS, RealS, to_z3

MU = 'tally.merchant_utils.'
Q = MU + 'normalize_merchant'
SeqS, SeqO = z3.SeqSort(StrS), z3.SeqSort(ObjS)
IsExpr = UF('_is_expression_pattern', StrS, BoolS)
EErr, EVal = UF('matches_transaction.raises', StrS, BoolS), UF('matches_transaction', StrS, BoolS)
RErr, RVal = UF('re.search.raises', StrS, BoolS), UF('re.search.finds', StrS, BoolS)
Cond = UF('check_all_conditions', ObjS, BoolS)
truthy = UF('truthy', ObjS, BoolS)
AmountConds, DateConds = UF('ParsedPattern.amount_conditions', ObjS, ObjS), UF('ParsedPattern.date_conditions', ObjS, ObjS)
NameOf = UF('extract_merchant_name', StrS, StrS)


def has_mods(p):
    return z3.And(truthy(p), z3.Or(truthy(AmountConds(p)), truthy(DateConds(p))))


def hit(pattern, parsed):
    mods_ok = z3.Implies(has_mods(parsed), Cond(parsed))
    return z3.If(IsExpr(pattern), z3.And(z3.Not(EErr(pattern)), EVal(pattern), mods_ok), z3.And(z3.Not(RErr(pattern)), RVal(pattern), mods_ok))


LegacyFirst = Ghost('LegacyFirst', [SeqS, SeqS, SeqO], IntS, base=lambda p, c, q: z3.IntVal(-1),
                    step=lambda p, c, q, k, acc: z3.If(z3.And(acc == -1, hit(p[k], q[k]), z3.Length(c[k]) > 0), k, acc))


def opt(v):
    """(is bound, value or None) of a local that starts as None"""
    if v is None:
        return z3.BoolVal(False), None
    if isinstance(v, SymOpt):
        return v.is_some, v.value
    return z3.BoolVal(True), v


def h_legacy_loop(ctx):
    sp = Spec()
    sp.exc_table.update({'ExpressionError': 'Exception', 're.error': 'Exception', 'OverflowError': 'ArithmeticError', 'ArithmeticError': 'Exception',
                         'RecursionError': 'RuntimeError', 'RuntimeError': 'Exception'})
    I = Interp(ctx, sp)
    fi = find_function(Q)
    pat, mer, cat, sub, src = [ctx.fresh('rows.' + n, SeqS) for n in ('pattern', 'merchant', 'category', 'subcategory', 'source')]
    parsed, tags = ctx.fresh('rows.parsed', SeqO), ctx.fresh('rows.tags', SeqO)
    rules = SymSeq([pat, mer, cat, sub, parsed, src, tags], 7, [None, None, None, None, 'ParsedPattern', None, 'taglist'])
    for c in (mer, cat, sub, src, parsed, tags):
        ctx.assume(z3.Length(c) == z3.Length(pat))
    desc = ctx.fresh('description', StrS)
    amount, txn_date, ds = ctx.fresh('amount', RealS), Obj(ctx.fresh('txn_date', ObjS), 'date'), Obj(ctx.fresh('data_sources', ObjS), 'pydict')
    sp.truthy_classes.add('date')
    sp.globals['_cached_engine'] = None
    sp.globals['re.IGNORECASE'] = z3.IntVal(2)
    sp.field_sorts[('ParsedPattern', 'amount_conditions')] = ('obj', 'conditions')
    sp.field_sorts[('ParsedPattern', 'date_conditions')] = ('obj', 'conditions')
    upper = UF('str.upper', StrS, StrS)
    seen = {}

    sp.models['_is_expression_pattern'] = Func(lambda I_, a, k, n: IsExpr(to_z3(a[0], StrS)))

    def m_matches(I_, a, k, n):
        p = to_z3(a[0], StrS)
        txn = a[1]
        ctx.check('C01.legacy.expression_pattern_is_evaluated_on_this_transaction', isinstance(txn, dict) and txn.get('description') is not None
                  and z3.is_expr(txn['description']) and z3.eq(txn['description'], desc), 'property')
        ctx.check('C01.legacy.expression_pattern_sees_the_supplemental_sources', k.get('data_sources') is ds, 'property')
        if I_.ctx.branch(EErr(p), 'matches_transaction.raises'):
            raise PyRaise('ExpressionError', (), 'matches_transaction')
        return EVal(p)
    sp.models['expr_parser.matches_transaction'] = Func(m_matches)

    def m_search(I_, a, k, n):
        p = to_z3(a[0], StrS)
        ctx.check('C01.legacy.regular_expression_is_searched_in_the_upper_cased_description', z3.is_expr(a[1]) and z3.eq(a[1], upper(desc)), 'property')
        if I_.ctx.branch(RErr(p), 're.search.raises'):
            raise PyRaise(['re.error', 'OverflowError', 'RecursionError'][I_.ctx.choose(3, 're.search.error')], (), 're.search')
        return RVal(p)
    sp.models['re.search'] = Func(m_search)

    def m_conditions(I_, a, k, n):
        ctx.check('C01.legacy.modifiers_are_checked_against_this_amount_and_date', z3.is_expr(a[1]) and z3.eq(a[1], amount) and a[2] is txn_date, 'property')
        return Cond(to_z3(a[0]))
    sp.models['check_all_conditions'] = Func(m_conditions)
    sp.models['_resolve_dynamic_tags'] = Func(lambda I_, a, k, n: Untracked())
    sp.models['extract_merchant_name'] = Func(lambda I_, a, k, n: NameOf(to_z3(a[0], StrS)))
    sp.models['dict.fromkeys'] = Func(lambda I_, a, k, n: Untracked())
    sp.models['list'] = Func(lambda I_, a, k, n: Untracked())
    fr = Frame(fi, {})
    fors = [n for n in ast.walk(fi.node) if isinstance(n, ast.For)]
    outer = [n for n in fors if isinstance(n.iter, ast.Name) and n.iter.id == 'rules']
    if len(outer) != 1:
        raise Unsupported('normalize_merchant: expected one loop over `rules`')
    results = ('result_merchant', 'result_category', 'result_subcategory')

    def inv(I_, env, k, it):
        F = LegacyFirst(pat, cat, parsed, k)
        out = {}
        some, m = opt(env['result_merchant'])
        out['a_winner_is_recorded_exactly_when_a_categorizing_row_matched_so_far'] = some == (F != -1)
        for name, col in zip(results, (mer, cat, sub)):
            s_, v = opt(env[name])
            if v is not None:
                out['%s_is_that_of_the_first_matching_categorizing_row' % name] = z3.Implies(F != -1, z3.And(s_, to_z3(v, StrS) == col[F]))
        out['first.range'] = z3.And(F >= -1, F < k) if not z3.is_int_value(k) or k.as_long() > 0 else F == -1
        return out

    def fresh_opt(name):
        return lambda c: SymOpt(c.fresh(name + '.is_set', BoolS), c.fresh(name, StrS))
    havoc = {n: fresh_opt(n) for n in results}
    havoc.update({'result_pattern': lambda c: Untracked(), 'result_source': lambda c: Untracked(), 'all_tags': lambda c: Untracked(), 'tag_sources': lambda c: Untracked()})
    sp.loops[(Q, fr.loop_ordinals[id(outer[0])])] = LoopSpec(inv, havoc, kind='property', unfold=lambda I_, env, k, it: LegacyFirst.unfold(pat, cat, parsed, k))
    for nd in fors:
        if nd is not outer[0]:
            sp.loops[(Q, fr.loop_ordinals[id(nd)])] = LoopSpec(lambda I_, env, k, it: {}, {'tag_sources': lambda c: Untracked(), 'raw_values': lambda c: Untracked()})
    for f in LegacyFirst.unfold(pat, cat, parsed, z3.IntVal(-1)):
        ctx.assume(f)
    r = I.call_function(fi, [desc, rules], {'amount': amount, 'txn_date': txn_date, 'field': Untracked(), 'data_source': Untracked(), 'transforms': None,
                                             'location': Untracked(), 'data_sources': ds})
    if not isinstance(r, tuple) or len(r) != 4:
        raise Unsupported('normalize_merchant must return a 4-tuple')
    n = z3.Length(pat)
    F = LegacyFirst(pat, cat, parsed, n)
    got = [to_z3(opt(x)[1], StrS) if opt(x)[1] is not None else None for x in r[:3]]
    if any(g is None for g in got):
        raise Unsupported('normalize_merchant returned None in the classification triple')
    ctx.check('C01.legacy.result_is_the_first_matching_categorizing_row', z3.Implies(F != -1, z3.And(got[0] == mer[F], got[1] == cat[F], got[2] == sub[F])), 'property')
    ctx.check('C01.legacy.unknown_when_no_categorizing_row_matches', z3.Implies(F == -1, z3.And(got[1] == z3.StringVal('Unknown'), got[2] == z3.StringVal('Unknown'))), 'property')
    ctx.check('C01.legacy.unknown_merchant_name_depends_only_on_the_description', z3.Implies(F == -1, got[0] == NameOf(desc)), 'property')
    ctx.cover('normalize_merchant.legacy.returns')


def harnesses(tier):
    return [Harness('normalize_merchant[legacy CSV rows]', h_legacy_loop, [Q], prune=True)]
