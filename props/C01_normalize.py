def harnesses(tier):
    return []
