"""Bounded stand-in / replay oracle for C11: generated budget directories through the real `tally up --format json -v`
(cmd_run in process) against an independent report; one-setting-at-a-time perturbations; missing / unreadable sources."""
import copy
import os

from oracle_lib import Oracle
from cmd_lib import Budget, run_cmd, up_args, last_json

from tally.commands.run import cmd_run

O = Oracle()

RULES = '''big = amount > 500
field.description = regex_replace(field.description, "^POS ", "")

[Coffee]
match: contains("COFFEE")
category: Food
subcategory: Coffee
tags: daily

[Order]
match: contains("ORDER") and any(r.id == extract("ORDER (\\\\d+)") for r in orders)
category: Shopping
subcategory: Online
tags: matched

[Large]
match: big
category: Large
subcategory: L

[Cart]
match: startswith("CART")
category: Food
subcategory: Street

[Pay]
match: contains("PAYROLL")
category: Income
subcategory: Job
tags: income

[Priced]
match: any(r.amount == amount for r in prices)
category: Priced
subcategory: P

[Sku]
match: contains("MUSEUM") and any(r.sku == "Z9" and r.amount == 1234.56 for r in skus)
category: SkuCat
subcategory: S

[Dated]
match: contains("MUSEUM") and any(r.date == date for r in dated)
category: DatedCat
subcategory: D
'''
RULES_SPECIFIC = RULES.replace('[Large]\nmatch: big', '[Large]\nmatch: big or contains("COFFEE ROASTERS WHOLESALE")')

# source -> rows (date, description, amount as number) ; the file text is generated per source settings
ROWS = {
    'Card': [('01/05/2025', 'COFFEE SHOP', 4.5), ('01/06/2025', 'ORDER 77 STORE', 30.0), ('02/07/2025', 'BIG TV', 900.0), ('02/08/2025', 'UNKNOWN PLACE', 12.25), ('02/09/2025', 'POS CART 5', 7.0)],
    'Bank': [('01/31/2025', 'PAYROLL ACME', -3000.0), ('02/01/2025', 'COFFEE ROASTERS WHOLESALE', 650.0), ('02/02/2025', 'ORDER 99 STORE', 15.0)],
    'Euro': [('03/01/2025', 'COFFEE PARIS', 1234.5), ('03/02/2025', 'MUSEUM', 20.0)],
}
ORDERS = [('77', 'Cable'), ('78', 'Mouse')]


def base_setup():
    return {
        'Card': {'delimiter': None, 'has_header': True, 'decimal_separator': '.', 'negate': False, 'present': True, 'readable': True},
        'Bank': {'delimiter': 'tab', 'has_header': False, 'decimal_separator': '.', 'negate': True, 'present': True, 'readable': True},
        'Euro': {'delimiter': ';', 'has_header': True, 'decimal_separator': ',', 'negate': False, 'present': True, 'readable': True},
        'rule_mode': 'first_match', 'views': False, 'supplemental': True,
    }


def fmt_amount(x, sep):
    s = '%.2f' % x
    return s.replace('.', ',') if sep == ',' else s


def build(setup):
    b = Budget()
    sources = []
    for name in ('Card', 'Bank', 'Euro'):
        st = setup[name]
        d = {None: ',', 'tab': '\t', ';': ';', '\t': '\t', '|': '|'}[st['delimiter']]
        lines = (['Date%sDescription%sAmount' % (d, d)] if st['has_header'] else [])
        for date, desc, amt in ROWS[name]:
            written = -amt if st['negate'] else amt      # the file holds the bank's sign convention; {-amount} flips it back
            lines.append(d.join([date, desc, fmt_amount(written, st['decimal_separator'])]))
        rel = 'data/%s.csv' % name.lower()
        if st['present']:
            if st['readable']:
                b.write(rel, '\n'.join(lines) + '\n')
            else:
                os.makedirs(os.path.join(b.root, rel))          # unreadable: a directory where the statement file should be (open() fails)
        src = {'name': name, 'file': rel, 'format': '{date:%%m/%%d/%%Y}, {description}, {%samount}' % ('-' if st['negate'] else '')}
        if st['delimiter']:
            src['delimiter'] = st['delimiter']
        if not st['has_header']:
            src['has_header'] = False
        if st['decimal_separator'] != '.':
            src['decimal_separator'] = st['decimal_separator']
        sources.append(src)
    if setup['supplemental'] and setup.get('supp_missing'):
        sources.append({'name': 'orders', 'file': 'data/orders.csv', 'format': '{date:%m/%d/%Y}, {id}, {item}, {amount}',
                        'columns': {'description': '{item}'}, 'supplemental': True})            # configured, but the file is not there
    elif setup['supplemental'] and setup.get('supp_regex'):
        b.write('data/orders.csv', '\n'.join('01/01/2025 %s %s 5.00' % o for o in ORDERS) + '\n')
        sources.append({'name': 'orders', 'file': 'data/orders.csv', 'format': '{date:%m/%d/%Y}, {id}, {item}, {amount}', 'delimiter': 'regex:^(\\S+) (\\S+) (\\S+) (\\S+)$',
                        'has_header': False, 'columns': {'description': '{item}'}, 'supplemental': True})
    elif setup['supplemental']:
        b.write('data/orders.csv', 'Date,Id,Item,Amount\n' + '\n'.join('01/01/2025,%s,%s,5.00' % o for o in ORDERS) + '\n')
        sources.append({'name': 'orders', 'file': 'data/orders.csv', 'format': '{date:%m/%d/%Y}, {id}, {item}, {amount}',
                        'columns': {'description': '{item}'}, 'supplemental': True})
    if setup.get('supp_named'):
        # a supplemental source in "{description} + named column" mode, European amounts with a thousands separator
        b.write('data/skus.csv', 'Date;Text;Sku;Amount\n01/01/2025;Big thing;Z9;1.234,56\n01/02/2025;Other;Y8;7,50\n')
        sources.append({'name': 'skus', 'file': 'data/skus.csv', 'format': '{date:%m/%d/%Y}, {description}, {sku}, {amount}', 'delimiter': ';', 'decimal_separator': ',',
                        'supplemental': True})
    if setup.get('supp_day_suffix'):
        # dates written with a day name after them, as some banks do ("01/05/2025  Sun"): read like in a transaction source
        b.write('data/dated.csv', 'Date,Ref,Amount\n03/02/2025  Sun,R1,20.00\n')
        sources.append({'name': 'dated', 'file': 'data/dated.csv', 'format': '{date:%m/%d/%Y}, {ref}, {amount}', 'columns': {'description': '{ref}'}, 'supplemental': True})
    if setup.get('supp_euro'):
        # a second supplemental source with its OWN delimiter and decimal separator
        b.write('data/prices.csv', 'Date;Sku;Amount\n01/01/2025;A1;12,25\n01/02/2025;B2;7,50\n')
        sources.append({'name': 'prices', 'file': 'data/prices.csv', 'format': '{date:%m/%d/%Y}, {sku}, {amount}', 'delimiter': ';', 'decimal_separator': ',',
                        'columns': {'description': '{sku}'}, 'supplemental': True})
    b.write('config/merchants.rules', RULES_SPECIFIC if setup.get('specific_rules') else RULES)
    s = {'year': 2025, 'data_sources': sources, 'merchants_file': 'config/merchants.rules', 'rule_mode': setup['rule_mode']}
    if setup['views']:
        b.write('config/views.rules', '[Big]\nfilter: total > 500\n\n[Food]\nfilter: category == "Food"\n')
        s['views_file'] = 'config/views.rules'
    b.settings(s)
    return b


def classify(desc, amount, setup):
    cand = []
    if desc.startswith('POS '):
        desc = desc[4:]            # the file's field transform
    if desc.startswith('CART'):
        cand.append(('Cart', 'Food', 'Street', [], (50, 1, 0, 4)))
    if 'COFFEE' in desc:
        cand.append(('Coffee', 'Food', 'Coffee', ['daily'], (50, 1, 0, 6)))
    if 'ORDER' in desc and setup['supplemental'] and not setup.get('supp_missing') and any(('ORDER %s' % i) in desc for i, _ in ORDERS):
        cand.append(('Order', 'Shopping', 'Online', ['matched'], (50, 1, 0, 5)))
    large = amount > 500 or (setup.get('specific_rules') and 'COFFEE ROASTERS WHOLESALE' in desc)
    if large:
        cand.append(('Large', 'Large', 'L', [], (50, 1 if setup.get('specific_rules') else 0, 0, 25 if setup.get('specific_rules') else 0)))
    if 'PAYROLL' in desc:
        cand.append(('Pay', 'Income', 'Job', ['income'], (50, 1, 0, 7)))
    if setup.get('supp_euro') and abs(amount - 12.25) < 1e-9:
        cand.append(('Priced', 'Priced', 'P', [], (50, 0, 0, 0)))
    if setup.get('supp_named') and 'MUSEUM' in desc:
        cand.append(('Sku', 'SkuCat', 'S', [], (50, 1, 0, 6)))
    if setup.get('supp_day_suffix') and 'MUSEUM' in desc:
        cand.append(('Dated', 'DatedCat', 'D', [], (50, 1, 1, 6)))
    tags = sorted({t for c in cand for t in c[3]})
    if not cand:
        return None, tags
    if setup['rule_mode'] == 'first_match':
        return cand[0], tags
    best = cand[0]
    for c in cand[1:]:
        if c[4] > best[4]:
            best = c
    return best, tags


def expected(setup):
    """merchant -> (total of effective amounts, count, category) over all included sources"""
    out = {}
    for name in ('Card', 'Bank', 'Euro'):
        st = setup[name]
        if not st['present'] or not st['readable']:
            continue
        for date, desc, amt in ROWS[name]:
            win, tags = classify(desc, amt, setup)
            if win is None:
                merchant, cat = None, 'Unknown'
            else:
                merchant, cat = win[0], win[1]
            eff = abs(amt) if 'income' in tags else amt
            key = merchant or ('?' + desc)
            t, c, _ = out.get(key, (0.0, 0, cat))
            out[key] = (round(t + eff, 2), c + 1, cat)
    return out


def observed(setup, quiet=False):
    b = build(setup)
    try:
        out, err, code = run_cmd(cmd_run, **up_args(b, quiet=quiet))
        doc = last_json(out)
        if doc is None:
            return None, 'exit=%r stdout=%s stderr=%s' % (code, out[-300:], err[-300:])
        got = {}
        for m in doc['merchants']:
            key = m['name'] if m['category'] != 'Unknown' else '?'
            got[m['name']] = (round(m['total'], 2), m['count'], m['category'])
        return got, out
    finally:
        b.close()


def norm(d):
    """unknown merchants are keyed by '?'+description in the spec and by an extracted name in tally: compare them by their aggregate (total, count): tally groups unknown rows under a name extracted from the description"""
    known = {k: v for k, v in d.items() if v[2] != 'Unknown'}
    unknown = (round(sum(v[0] for v in d.values() if v[2] == 'Unknown'), 2), sum(v[1] for v in d.values() if v[2] == 'Unknown'))
    return known, unknown


def check(setup, label):
    O.case(label)
    w = {'setup': {k: v for k, v in setup.items()}, 'label': label}
    for quiet in (False, True):
        got, info = observed(setup, quiet)
        want = expected(setup)
        if got is None:
            if want:
                O.fail('C11.no_report.%s' % label.split(':')[0], dict(w, quiet=quiet), norm(want), info)
            continue
        if norm(got) != norm(want) and setup.get('supp_regex'):
            O.fail('C11.supplemental_regex_delimiter_not_supported', dict(w, quiet=quiet), norm(want), norm(got), 'tally up --format json -v')
        elif norm(got) != norm(want):
            O.fail('C11.report_differs.%s%s' % (label.split(':')[0], '.quiet' if quiet else ''), dict(w, quiet=quiet), norm(want), norm(got), 'tally up --format json -v')
        if not quiet:
            # "a source that is missing or unreadable is reported": its name is on a progress line that does not announce transactions
            gone = [n for n in ('Card', 'Bank', 'Euro') if not setup[n]['present'] or not setup[n]['readable']] + (['orders'] if setup.get('supp_missing') else [])
            for name in gone:
                lines = [l for l in info.split('\n') if l.strip().startswith(name + ':')]
                if not lines or any(l.strip().endswith('transactions') for l in lines):
                    O.fail('C11.unusable_source_not_reported', dict(w, source=name), 'a line naming the source and what is wrong with it', lines or 'no line for it',
                           'progress output of tally up (not --quiet)')
    return True


def check_deprecated_parsers():
    """sources declared with type: amex / type: boa (deprecated, still accepted) are transformed and classified by the configured rules file, with the
    supplemental sources available, like a format: source holding the same rows"""
    b = Budget()
    try:
        b.write('config/merchants.rules', 'field.description = regex_replace(field.description, "^APLPAY ", "")\n\n[Coffee]\nmatch: startswith("STARBUCKS")\ncategory: Food\nsubcategory: Coffee\n\n'
                                          '[Verified Order]\nmatch: contains("AMZN") and any(r.amount == amount for r in orders)\ncategory: Shopping\nsubcategory: Online\n\n'
                                          '[By Source]\nmatch: source == "Gold Card" or source == "Checking" or source == "Generic"\ntags: src-ok\n')
        b.write('data/amex.csv', 'Date,Description,Amount\n01/05/2025,APLPAY STARBUCKS 123,5.00\n01/06/2025,AMZN MKTP,20.00\n')
        b.write('data/boa.txt', '01/05/2025  APLPAY STARBUCKS 123  5.00  100.00\n01/06/2025  AMZN MKTP  20.00  80.00\n')
        b.write('data/generic.csv', 'Date,Description,Amount\n01/05/2025,APLPAY STARBUCKS 123,5.00\n01/06/2025,AMZN MKTP,20.00\n')
        b.write('data/orders.csv', 'Date,Item,Amount\n01/06/2025,Book,20.00\n')
        b.settings({'year': 2025, 'merchants_file': 'config/merchants.rules', 'data_sources': [
            {'name': 'Gold Card', 'file': 'data/amex.csv', 'type': 'amex'}, {'name': 'Checking', 'file': 'data/boa.txt', 'type': 'boa'},
            {'name': 'Generic', 'file': 'data/generic.csv', 'format': '{date:%m/%d/%Y}, {description}, {amount}'},
            {'name': 'orders', 'file': 'data/orders.csv', 'format': '{date:%m/%d/%Y}, {item}, {amount}', 'columns': {'description': '{item}'}, 'supplemental': True}]})
        O.case(('deprecated_parsers',))
        out, err, code = run_cmd(cmd_run, **up_args(b, quiet=True, verbose=2))
        doc = last_json(out)
        w = {'deprecated_parsers': True}
        if doc is None:
            O.fail('C11.no_report.deprecated_parsers', w, 'a report', (out + err)[-300:])
            return
        got = sorted((m['name'], m['category'], m['count']) for m in doc['merchants'])
        want = [('Coffee', 'Food', 3), ('Verified Order', 'Shopping', 3)]
        if got != want:
            O.fail('C11.deprecated_parser_sources_classified_differently', w, want, got, 'tally up --format json: three sources with the same two rows')
    finally:
        b.close()


def main():
    if O.witness and 'deprecated_parsers' in O.witness:
        check_deprecated_parsers()
        O.finish()
    if O.witness:
        check(O.witness['setup'], O.witness.get('label', 'witness'))
        O.finish()
    base = base_setup()
    check(base, 'base')
    for src in ('Card', 'Bank', 'Euro'):
        for key, vals in (('delimiter', [None, 'tab', ';', '\t', '|']), ('has_header', [True, False]), ('decimal_separator', ['.', ',']), ('negate', [False, True]),
                          ('present', [False]), ('readable', [False])):
            for v in vals:
                if base[src][key] == v:
                    continue
                if key == 'delimiter' and v is None and base[src]['decimal_separator'] == ',':
                    continue       # comma delimiter with comma decimals is not a meaningful file
                s = copy.deepcopy(base)
                s[src][key] = v
                if key == 'decimal_separator' and v == ',' and s[src]['delimiter'] is None:
                    s[src]['delimiter'] = ';'
                check(s, '%s.%s:%r' % (src, key, v))
    for key, v in (('rule_mode', 'most_specific'), ('views', True), ('supplemental', False), ('specific_rules', True), ('supp_euro', True), ('supp_named', True), ('supp_missing', True), ('supp_regex', True), ('supp_day_suffix', True)):
        s = copy.deepcopy(base)
        s[key] = v
        check(s, '%s:%r' % (key, v))
    s = copy.deepcopy(base)
    s['specific_rules'], s['rule_mode'] = True, 'most_specific'
    check(s, 'specific_rules+most_specific')
    # two sources unusable at once; first source unreadable
    s = copy.deepcopy(base)
    s['Card']['readable'], s['Euro']['present'] = False, False
    check(s, 'Card.unreadable+Euro.missing')
    check_deprecated_parsers()
    O.sample({'label': 'Bank.negate:False'})
    O.finish()


O.guard(main)
