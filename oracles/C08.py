"""Bounded stand-in / replay oracle for C08: expressions that cannot be evaluated, in every expression position,
must make just that rule / binding / field / tag / transform / view inapplicable."""
import os
import shutil
import tempfile
from datetime import date, datetime

from oracle_lib import Oracle

from tally.merchant_engine import parse_merchants
from tally import merchant_utils as mu
from tally import section_engine
from tally.analyzer import analyze_transactions, classify_by_sections
from tally.format_parser import parse_format_string
from tally.parsers import parse_generic_csv

O = Oracle()

FAILING = [
    # exceptions outside the usual TypeError / ValueError family: OverflowError (float -> int, regex repeat count), KeyError (%-formatting with a mapping key)
    'amount' + ' + amount' * 3000, 'not ' * 3000 + 'true',
    'round(amount * 1e308 * 1e308) == 1', 'regex("A{1,4294967296}")', '"%(nosuch)s" % description == "x"',
    '(r + 1 for r in description)', '(r for r in amount)', 'amount > "x"', 'contains(5)', 'description + 1', 'amount.foo == 1', 'next(r for r in description if r == "~")',
    'min(c for c in "") > 1', 'regex_replace(description, "(", "") == ""', 'substring("a", "b") == ""', 'split(5, 0) == ""',
    'field.missing == "x"', 'unknown_var', 'description[99] == "a"', 'len(5) > 0', 'sum(description) > 0', '-description == 1',
    'not_a_func(1)', 'startswith(1)', 'fuzzy(1)', 'extract("(") == ""', 'any(5)', 'uppercase() == ""', 'date > 5',
    'date >= "not-a-date"', '"a" < 1', 'amount in 5', 'txn.nope == 1', 'regex("(")', 'normalized(7)', 'anyof(1, 2)',
    'max(1, "a") == 1', 'abs("x") > 1', 'round("x") == 1', 'amount % "a" == 0', 'lowercase(1, 2) == ""', 'strip_prefix(1) == ""',
    'all(1)', 'next(5)', 'exists(1, 2)', 'field.kind.nope == 1',
]
if O.tier == 'quick':
    FAILING = FAILING[:33]

VIEW_FAILING = ['round(total * 1e308 * 1e308) > 1', 'max(sum(by(months))) > 50', 'period(months) > 1', 'sum(by(5)) > 1', 'period(1) > 1', 'sum(by("nope")) > 1', 'avg("x") > 1', 'stddev(1) > 0',
                'max_val("a", 1) > 0', 'min_val(total, "b") > 0', 'count(5) > 0', 'sum(total) > 0', 'max(by) > 1', 'cv > "a"', 'months + "x" > 1', 'total / "2" > 1']

TXNS = [
    {'description': 'GOOD STORE', 'amount': 10.0, 'date': date(2025, 1, 5), 'field': {'kind': 'Wire'}, 'source': 'S'},
    {'description': 'OTHER', 'amount': 700.0, 'date': date(2025, 2, 9), 'field': None, 'source': None},
    {'description': 'GOOD', 'amount': -3.0, 'date': None, 'field': {}, 'source': 'S'},
]
GOOD = '[Good]\nmatch: contains("GOOD")\ncategory: CatGood\nsubcategory: SubGood\ntags: g\n'
AFTER = '[After]\nmatch: amount > 500\ncategory: CatAfter\nsubcategory: SubAfter\n'


def rule_with(position, fe):
    if position == 'match':
        return '[Failing]\nmatch: %s\ncategory: CatFail\nsubcategory: SubFail\ntags: failtag\n' % fe
    if position == 'let':
        return '[Failing]\nlet: v = %s\nmatch: contains("ZZZ") or v == 12345\ncategory: CatFail\nsubcategory: SubFail\n' % fe
    if position == 'let_read_under_not':
        # the binding cannot be made, so a condition that reads it cannot be evaluated: read as None it would be TRUE here
        return '[Failing]\nlet: v = %s\nmatch: not v\ncategory: CatFail\nsubcategory: SubFail\ntags: failtag\n' % fe
    if position == 'let_shadows_variable':
        # the binding that cannot be made has the name of a variable of the file: the rules after this one still see that variable
        return '[Failing]\nlet: g = %s\nmatch: contains("ZZZ")\ncategory: CatFail\nsubcategory: SubFail\n' % fe
    if position == 'field':
        return '[Failing]\nmatch: contains("GOOD")\ncategory: CatGoodF\nsubcategory: SubGoodF\nfield: extra = %s\n' % fe
    if position == 'tag':
        return '[Failing]\nmatch: contains("GOOD")\ntags: keep, {%s}\n' % fe
    raise ValueError(position)


def txn_dict(t):
    d = {'description': t['description'], 'amount': t['amount'], 'field': t['field'], 'source': t['source']}
    if t['date']:
        d['date'] = t['date']
    return d


def summarize(res):
    return [res.merchant, res.category, res.subcategory, sorted(res.tags)]


def check_engine(position, fe, order):
    w = {'position': position, 'expr': fe, 'order': order}
    failing = rule_with(position, fe)
    parts = {'F': failing, 'G': GOOD, 'A': AFTER}
    head = ''
    if position == 'let_shadows_variable':
        head = 'g = amount > 500\n\n'
        parts['A'] = AFTER.replace('match: amount > 500', 'match: g')
    text = head + '\n'.join(parts[c] for c in order)
    text_without = head + '\n'.join(parts[c] for c in order if c != 'F')
    try:
        eng = parse_merchants(text)
    except Exception as e:
        return   # rejected at load: allowed by the statement ("for every rules file the loader accepts")
    ref = parse_merchants(text_without)
    for ti, t in enumerate(TXNS):
        O.case((position, fe, order, ti))
        for mode in ('first_match', 'most_specific'):
            eng.match_mode = mode
            ref.match_mode = mode
            try:
                got = summarize(eng.match(txn_dict(t)))
            except BaseException as e:
                O.fail('C08.match_aborts.%s' % position, dict(w, txn=ti, mode=mode), 'classification completes; failing %s skipped' % position,
                       '%s: %s' % (type(e).__name__, e), 'parse_merchants(text).match(txn)')
                continue
            if position in ('match', 'let_read_under_not', 'let_shadows_variable'):
                want = summarize(ref.match(txn_dict(t)))
                if got != want:
                    O.fail('C08.failing_rule_influences_result', dict(w, txn=ti, mode=mode), want, got)


def check_normalize_and_csv(position, fe):
    """through get_all_rules + transforms + normalize_merchant and through the CSV row loop"""
    w = {'position': position, 'expr': fe, 'via': 'file'}
    tmp = tempfile.mkdtemp(prefix='c08-')
    try:
        head = ''
        if position == 'transform':
            head = 'field.description = %s\nfield.memo = %s\n\n' % (fe, fe)
            body = GOOD + '\n' + AFTER
        elif position == 'transform_then_good':
            # a failing transform followed by a good one: only the failing one is skipped
            head = 'field.memo = %s\nfield.description = strip_prefix(description, "GOOD ")\n\n' % fe
            body = '[Stripped]\nmatch: startswith("STORE")\ncategory: CatStripped\nsubcategory: S\n\n' + GOOD + '\n' + AFTER
        elif position == 'variable':
            head = 'v = %s\n\n' % fe
            body = '[UsesVar]\nmatch: v\ncategory: CatVar\nsubcategory: S\n\n' + GOOD + '\n' + AFTER
        else:
            body = rule_with(position, fe) + '\n' + GOOD + '\n' + AFTER
        path = os.path.join(tmp, 'm.rules')
        open(path, 'w').write(head + body)
        try:
            parse_merchants(head + body)
        except Exception:
            return
        mu.clear_engine_cache()
        rules = mu.get_all_rules(path)
        transforms = mu.get_transforms(path)
        for ti, t in enumerate(TXNS):
            O.case((position, fe, 'normalize', ti))
            try:
                m, c, s, info = mu.normalize_merchant(t['description'], rules, amount=t['amount'], txn_date=t['date'], field=t['field'],
                                                      data_source=t['source'], transforms=transforms)
            except BaseException as e:
                O.fail('C08.normalize_merchant_aborts.%s' % position, dict(w, txn=ti), 'classification completes',
                       '%s: %s' % (type(e).__name__, e), 'get_all_rules(file)+normalize_merchant')
                continue
            if position in ('transform', 'variable', 'match', 'let') and 'GOOD' in t['description'] and c != 'CatGood' \
                    and fe != 'uppercase(description)':
                O.fail('C08.other_rules_affected.%s' % position, dict(w, txn=ti), 'CatGood', c)
            if position == 'transform_then_good' and t['description'] == 'GOOD STORE' and c != 'CatStripped':
                O.fail('C08.transform_after_a_failing_one_not_applied', dict(w, txn=ti), 'CatStripped', c, 'apply_transforms: later transforms still run')
        csv_path = os.path.join(tmp, 'data.csv')
        open(csv_path, 'w').write('Date,Desc,Amount,Kind\n01/05/2025,GOOD STORE,10.00,Wire\n01/06/2025,OTHER,700.00,ACH\n01/07/2025,GOOD,3.50,\n')
        spec = parse_format_string('{date:%m/%d/%Y}, {description}, {amount}, {kind}')
        O.case((position, fe, 'csv'))
        try:
            txns = parse_generic_csv(csv_path, spec, rules, source_name='S', transforms=transforms)
        except BaseException as e:
            O.fail('C08.data_source_lost.%s' % position, w, '3 transactions', '%s: %s' % (type(e).__name__, e), 'parse_generic_csv')
            txns = None
        if txns is not None and len(txns) != 3:
            O.fail('C08.rows_lost.%s' % position, w, 3, len(txns), 'parse_generic_csv')
        mu.clear_engine_cache()
    finally:
        shutil.rmtree(tmp, ignore_errors=True)


def check_legacy_csv():
    """legacy merchant_categories.csv: a pattern that is not a valid regular expression (the loader does not compile patterns) makes just that
    rule inapplicable"""
    # (the last two do not fail with re.error: a repeat count >= 2**32 raises OverflowError, deeply nested groups RecursionError)
    bad_patterns = ['*TST COFFEE', '(UNCLOSED', 'A[', 'X{2,1}', '(?P<n>a)(?P<n>b)', '\\', 'COSTCO #\\d{4294967296}', '(' * 400 + 'A' + ')' * 400]
    tmp = tempfile.mkdtemp(prefix='c08csv-')
    try:
        good = 'GOOD,Good Merchant,CatGood,SubGood,g\nOTHER,Other Merchant,CatOther,SubOther,\n'
        for bp in bad_patterns:
            for pos in ('first', 'middle', 'last'):
                body = {'first': '%s,Bad,CatBad,SubBad,bad\n' % bp + good, 'last': good + '%s,Bad,CatBad,SubBad,bad\n' % bp,
                        'middle': good.split('\n')[0] + '\n%s,Bad,CatBad,SubBad,bad\n' % bp + good.split('\n')[1] + '\n'}[pos]
                path = os.path.join(tmp, 'merchant_categories.csv')
                open(path, 'w').write('Pattern,Merchant,Category,Subcategory,Tags\n' + body)
                mu.clear_engine_cache()
                try:
                    rules = mu.get_all_rules(path)
                except Exception:
                    continue          # rejected at load: allowed
                w = {'position': 'csv_pattern', 'expr': bp, 'via': 'legacy_csv', 'where': pos}
                for ti, t in enumerate(TXNS):
                    O.case(('csv', bp, pos, ti))
                    try:
                        m, c, s, info = mu.normalize_merchant(t['description'], rules, amount=t['amount'], txn_date=t['date'], field=t['field'], data_source=t['source'])
                    except BaseException as e:
                        O.fail('C08.normalize_merchant_aborts.legacy_csv_pattern', dict(w, txn=ti), 'classification completes; the rule with the bad pattern is skipped',
                               '%s: %s' % (type(e).__name__, e), 'get_all_rules(csv)+normalize_merchant')
                        break
                    want = 'CatGood' if 'GOOD' in t['description'] else ('CatOther' if 'OTHER' in t['description'] else 'Unknown')
                    if c != want:
                        O.fail('C08.other_rules_affected.legacy_csv_pattern', dict(w, txn=ti), want, c)
        mu.clear_engine_cache()
    finally:
        shutil.rmtree(tmp, ignore_errors=True)


def check_views(fe):
    w = {'position': 'view', 'expr': fe}
    text = ('gv = %s\n\n[Failing View]\nfilter: %s\n\n[Var View]\nv = %s\nfilter: v\n\n[Uses Global]\nfilter: gv\n\n[Good View]\nfilter: total > 5\n' % (fe, fe, fe))
    try:
        cfg = section_engine.parse_sections(text)
    except Exception:
        return
    txns = [{'merchant': 'M1', 'category': 'C', 'subcategory': 'S', 'amount': 10.0, 'date': datetime(2025, 1, 5), 'description': 'd', 'source': 's', 'tags': ['a']},
            {'merchant': 'M2', 'category': 'C', 'subcategory': 'S', 'amount': 1.0, 'date': datetime(2025, 2, 5), 'description': 'd', 'source': 's', 'tags': []}]
    stats = analyze_transactions(txns)
    O.case(('view', fe))
    try:
        res = classify_by_sections(stats['by_merchant'], cfg, stats['num_months'])
    except BaseException as e:
        O.fail('C08.view_classification_aborts', w, 'run completes; merchant excluded from the failing view', '%s: %s' % (type(e).__name__, e),
               'classify_by_sections')
        return
    good = sorted(m for m, _ in res.get('Good View', []))
    if good != ['M1']:
        O.fail('C08.other_views_affected', w, ['M1'], good)
    if res.get('Failing View'):
        O.fail('C08.failing_filter_includes_merchant', w, [], [m for m, _ in res['Failing View']])


SHORT_CIRCUITED = ['contains("GOOD") or startswith(5)', 'anyof("GOOD", 711)', 'fuzzy("GOOD STORE", 0.8)', 'contains("GOOD") or regex(None)', 'contains("GOOD") or contains(true)',
                   'contains("GOOD") or "x" in [r.a for r in nosuch]', 'not contains("ZZZ") or normalized(1.5)']


def check_matching_rule_with_unevaluated_parts():
    """a rule that MATCHES although part of its expression could not be evaluated (short-circuited away, or a non-string literal a function accepts): whatever
    the engine does with a matching rule besides evaluating it (ranking in most_specific mode, tags, fields) must not fail either"""
    for fe in SHORT_CIRCUITED:
        for mode in ('first_match', 'most_specific'):
            for order in ('FG', 'GF'):
                w = {'position': 'matching_rule', 'expr': fe, 'mode': mode, 'order': order}
                O.case(('matching', fe, mode, order))
                parts = {'F': '[Failing]\nmatch: %s\ncategory: CatF\nsubcategory: SubF\n' % fe, 'G': GOOD}
                text = '\n'.join(parts[c] for c in order)
                try:
                    eng = parse_merchants(text, mode)
                except Exception:
                    continue            # rejected at load: allowed
                for ti, t in enumerate(TXNS):
                    try:
                        r = eng.match(txn_dict(t))
                    except BaseException as e:
                        O.fail('C08.match_aborts.matching_rule_with_unevaluated_part', dict(w, txn=ti), 'classification completes', '%s: %s' % (type(e).__name__, e), 'parse_merchants(text, mode).match(txn)')
                        break
                    if 'GOOD' in t['description'] and not r.matched:
                        O.fail('C08.other_rules_affected.matching_rule_with_unevaluated_part', dict(w, txn=ti), 'a rule matches', summarize(r))


def main():
    if O.witness:
        w = O.witness
        if w.get('position') == 'matching_rule':
            check_matching_rule_with_unevaluated_parts()
            O.finish()
        if w.get('position') == 'view':
            check_views(w['expr'])
        elif w.get('via') == 'legacy_csv':
            check_legacy_csv()
        elif w.get('via') == 'file':
            check_normalize_and_csv(w['position'], w['expr'])
        else:
            check_engine(w['position'], w['expr'], w.get('order', 'FGA'))
        O.finish()
    for fe in FAILING:
        for position in ('match', 'let', 'let_read_under_not', 'let_shadows_variable', 'field', 'tag'):
            for order in ('FGA', 'GFA', 'AGF'):
                check_engine(position, fe, order)
        for position in ('match', 'let', 'field', 'tag', 'transform', 'transform_then_good', 'variable'):
            check_normalize_and_csv(position, fe)
        check_views(fe)
    check_legacy_csv()
    check_matching_rule_with_unevaluated_parts()
    # view filters / variables that misuse the aggregate primitives (arguments of the wrong type, unknown periods)
    for fe in VIEW_FAILING:
        check_views(fe)
    # a transform on a custom field evaluates fine but cannot be stored when the row has no custom fields
    check_normalize_and_csv('transform', 'uppercase(description)')
    O.sample({'position': 'match', 'expr': 'amount > "x"', 'order': 'FGA'})
    O.finish()


O.guard(main)
