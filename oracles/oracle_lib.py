"""Shared plumbing for bounded stand-ins / replay oracles.  Runs under /venv/bin/python with
PYTHONPATH=<repo>/src, i.e. against the real code of the tree under check."""
import argparse
import json
import sys
import traceback


class Oracle:
    def __init__(self):
        ap = argparse.ArgumentParser()
        ap.add_argument('--tier', default='quick')
        ap.add_argument('--seed', type=int, default=0)
        ap.add_argument('--hints', default=None)
        ap.add_argument('--witness', default=None)
        a = ap.parse_args()
        self.tier = a.tier
        self.seed = a.seed
        self.hints = json.loads(a.hints) if a.hints else []
        self.witness = json.loads(a.witness) if a.witness else None
        self.cases = 0
        self.distinct = set()
        self.failures = []
        self.samples = []
        self.max_failures = 5
        self.keys_seen = set()

    def case(self, witness_key=None):
        self.cases += 1
        if witness_key is not None:
            self.distinct.add(witness_key)

    def sample(self, s):
        if len(self.samples) < 3:
            self.samples.append(s)

    def fail(self, key, witness, expected, observed, call=''):
        """key identifies the class of failure (used to match known findings); one failure is kept
        per key so that a different violation of the same property is still reported."""
        if key in self.keys_seen:
            return
        self.keys_seen.add(key)
        self.failures.append({'key': key, 'witness': witness, 'expected': _j(expected), 'observed': _j(observed), 'call': call})

    def finish(self):
        out = {'cases': self.cases, 'distinct': len(self.distinct) or self.cases,
               'failures': self.failures, 'samples': self.samples}
        print(json.dumps(out, default=str))
        sys.exit(0)

    def guard(self, fn):
        try:
            fn()
        except SystemExit:
            raise
        except Exception:
            print(json.dumps({'cases': self.cases, 'failures': self.failures,
                              'error': 'oracle crashed: ' + traceback.format_exc()[-1500:]}))
            sys.exit(0)


def _j(x):
    try:
        json.dumps(x)
        return x
    except Exception:
        return repr(x)
