"""Bounded stand-in / replay oracle for C10: view membership on the real analyzer / section engine against an independent
specification of the documented primitives (months, total, cv, category, subcategory, tags, payments, by(), aggregates)."""
import itertools
import math
from datetime import datetime

from oracle_lib import Oracle

from tally.analyzer import analyze_transactions, classify_by_sections, compute_section_totals
from tally.section_engine import parse_sections

O = Oracle()


def T(merchant, cat, sub, amount, y, m, d, tags=()):
    return {'merchant': merchant, 'category': cat, 'subcategory': sub, 'amount': amount, 'date': datetime(y, m, d), 'description': merchant.upper(),
            'source': 'S', 'tags': list(tags)}


TXNS = [
    T('Rent', 'Bills', 'Housing', 1000.0, 2025, 1, 1), T('Rent', 'Bills', 'Housing', 1000.0, 2025, 2, 1), T('Rent', 'Bills', 'Housing', 1000.0, 2025, 3, 1),
    T('Hardware', 'Shop', 'Tools', 100.0, 2025, 1, 2), T('Hardware', 'Shop', 'Tools', 200.0, 2025, 2, 20),
    T('Cafe', 'Food', 'Coffee', 4.0, 2025, 1, 2, ['Daily']), T('Cafe', 'Food', 'Coffee', 6.0, 2025, 1, 20, ['daily']), T('Cafe', 'Food', 'Coffee', 5.0, 2025, 1, 21),
    T('Gym', 'Health', 'Fit', 30.0, 2025, 1, 5), T('Gym', 'Health', 'Fit', 30.0, 2025, 2, 5), T('Gym', 'Health', 'Fit', 45.0, 2025, 3, 5),
    T('Salary', 'Pay', 'Job', -3000.0, 2025, 1, 31, ['income']), T('Broker', 'Save', 'IRA', 500.0, 2025, 2, 3, ['Investment']),
    T('Move', 'X', 'Y', 250.0, 2025, 3, 3, ['transfer']), T('Refunds', 'Shop', 'Ret', -20.0, 2025, 3, 9), T('Refunds', 'Shop', 'Ret', 60.0, 2025, 3, 10),
    T('OneOff', 'Shop', 'Big', 1500.0, 2024, 12, 30, ['gift']),
    # the same calendar month in two years: month buckets are year-months
    T('Insurance', 'Bills', 'Ins', 100.0, 2024, 3, 4), T('Insurance', 'Bills', 'Ins', 100.0, 2025, 3, 4), T('Insurance', 'Bills', 'Ins', 200.0, 2025, 4, 4),
    # a payment on 29 February: day and week buckets are real calendar dates
    T('LeapGym', 'Health', 'Fit', 40.0, 2024, 2, 15), T('LeapGym', 'Health', 'Fit', 40.0, 2024, 2, 29), T('LeapGym', 'Health', 'Fit', 10.0, 2024, 12, 31), T('LeapGym', 'Health', 'Fit', 10.0, 2025, 1, 1),
]


PERIOD_MONTHS = len({t['date'].strftime('%Y-%m') for t in TXNS})      # the analysis period: distinct year-months over all transactions


def merchants_spec():
    """merchant -> documented primitives, computed independently"""
    groups = {}
    for t in TXNS:
        groups.setdefault(t['merchant'], []).append(t)
    out = {}
    for m, ts in groups.items():
        tags = {x.lower() for t in ts for x in t['tags']}
        if tags & {'income', 'transfer', 'investment'}:
            continue
        pays = [abs(t['amount']) if False else t['amount'] for t in ts]
        months = sorted({t['date'].strftime('%Y-%m') for t in ts})
        monthly = [sum(t['amount'] for t in ts if t['date'].strftime('%Y-%m') == mo) for mo in months]
        if len(monthly) < 2:
            cv = 0.0
        else:
            avg = sum(monthly) / len(monthly)
            cv = 0.0 if avg == 0 else math.sqrt(sum((x - avg) ** 2 for x in monthly) / len(monthly)) / avg

        def by(field, ts=ts):
            key = {'month': '%Y-%m', 'year': '%Y', 'day': '%Y-%m-%d', 'week': '%Y-W%W'}[field]
            g = {}
            for t in ts:
                g.setdefault(t['date'].strftime(key), []).append(t['amount'])
            return [g[k] for k in sorted(g)]
        out[m] = {'months': len(months), 'total': sum(pays), 'cv': cv, 'category': ts[0]['category'], 'subcategory': ts[0]['subcategory'], 'tags': tags,
                  'payments': pays, 'by': by, 'merchant': m}
    return out


def stdev(v):
    n = len(v)
    mu = sum(v) / n
    return math.sqrt(sum((x - mu) ** 2 for x in v) / (n - 1))


# (view text, python predicate over the spec record)
VIEWS = [
    ('total > 100', lambda s: s['total'] > 100),
    ('months >= 3', lambda s: s['months'] >= 3),
    ('months >= 2 and cv < 0.3', lambda s: s['months'] >= 2 and s['cv'] < 0.3),
    ('cv >= 0.3', lambda s: s['cv'] >= 0.3),
    ('cv < 0.4', lambda s: s['cv'] < 0.4),
    ('category == "shop"', lambda s: s['category'].lower() == 'shop'),
    ('subcategory == "Coffee" or category == "Health"', lambda s: s['subcategory'] == 'Coffee' or s['category'] == 'Health'),
    ('"daily" in tags', lambda s: 'daily' in s['tags']),
    ('"DAILY" in tags', lambda s: 'daily' in s['tags']),
    ('sum(payments) == total', lambda s: True),
    ('count(payments) >= 3', lambda s: len(s['payments']) >= 3),
    ('avg(payments) > 50', lambda s: sum(s['payments']) / len(s['payments']) > 50),
    ('max(payments) - min(payments) > 50', lambda s: max(s['payments']) - min(s['payments']) > 50),
    ('max(sum(by("month"))) > 150', lambda s: max(sum(g) for g in s['by']('month')) > 150),
    ('max(count(by("day"))) >= 2', lambda s: max(len(g) for g in s['by']('day')) >= 2),
    ('count(by("day")) == count(payments)', None),      # auto-mapped count returns a list: compared with a number -> False for everyone
    ('max(count(by("week"))) >= 2', lambda s: max(len(g) for g in s['by']('week')) >= 2),
    ('max(sum(by("day"))) > 50', lambda s: max(sum(g) for g in s['by']('day')) > 50),
    ('count(sum(by("week"))) >= 4', lambda s: len(s['by']('week')) >= 4),
    ('min(sum(by("year"))) < 0', lambda s: min(sum(g) for g in s['by']('year')) < 0),
    ('stddev(payments) > 10', lambda s: len(s['payments']) >= 2 and stdev(s['payments']) > 10),
    ('total > lim', lambda s: s['total'] > 900),         # lim is a view-local variable
    ('total > glob', lambda s: s['total'] > 40),         # glob is a global variable
    ('total / 0 == 0', lambda s: True),
    ('merchant == "gym"', lambda s: s['merchant'].lower() == 'gym'),
    ('unknown_name > 1', lambda s: False),
    ('total > "x"', lambda s: False),
    ('months >= max_val(2, period("month") * 0.5)', lambda s: s['months'] >= max(2, PERIOD_MONTHS * 0.5)),
    ('total > 0 and total < 0', lambda s: False),
    # comparison chains: every link counts, and each compares two adjacent operands
    ('1 <= months <= 2', lambda s: 1 <= s['months'] <= 2),
    ('40 < total <= 120', lambda s: 40 < s['total'] <= 120),
    ('0 <= cv < 0.3', lambda s: 0 <= s['cv'] < 0.3),
    ('glob < total < lim', lambda s: 40 < s['total'] < 900),
    ('round(total) == 15', lambda s: round(s['total']) == 15),
    ('abs(total) > 35 and total < 45', lambda s: abs(s['total']) > 35 and s['total'] < 45),
    # a view-local variable that shadows a primitive, inside this view only
    ('total < 50', lambda s: s['total'] / s['months'] < 50, ['total = sum(payments) / months']),
    ('months == 1', lambda s: len(s['payments']) == 1, ['months = count(payments)']),
    # names are case-insensitive in the language: a variable may be written (and referred to) with capitals
    ('total > Limit', lambda s: s['total'] > 900, ['Limit = 900']),
    ('total > GLOB', lambda s: s['total'] > 40),
    ('total > CapGlob', lambda s: s['total'] > 40),
    ('total > capglob + low', lambda s: s['total'] > 140, ['Low = 100']),
    # a variable that cannot be evaluated makes every filter that uses it unevaluable - also under `not` / `or` - and so excludes the merchant
    ('not is_big', lambda s: False, ['is_big = total > "x"']),
    ('is_big or total > 0', lambda s: False, ['is_big = total > "x"']),
    ('total > 0 or is_big', lambda s: True, ['is_big = total > "x"']),          # short-circuit: the variable is never looked at
    ('not (total > "x")', lambda s: False),
    ('total > glob', lambda s: False, ['glob = total > "x"']),                   # an unevaluable local does not fall back to the global of that name
    # a later variable of the view uses an earlier one
    ('total > lim2', lambda s: s['total'] > 900, ['base = 100', 'lim2 = base * 9']),
    ('total > step3', lambda s: s['total'] > 41, ['step1 = glob', 'Step2 = step1 + 1', 'step3 = STEP2']),
]


def views_text(idxs):
    lines = ['glob = 40', 'CapGlob = 40', '']
    for i in idxs:
        lines.append('[V%d]' % i)
        if 'lim' in VIEWS[i][0]:
            lines.append('lim = 900')
        if len(VIEWS[i]) > 2:
            lines.extend(VIEWS[i][2])
        lines.append('filter: %s' % VIEWS[i][0])
        lines.append('')
    return '\n'.join(lines)


def run(idxs):
    stats = analyze_transactions([dict(t, tags=list(t['tags'])) for t in TXNS])
    cfg = parse_sections(views_text(idxs))
    res = classify_by_sections(stats['by_merchant'], cfg, stats['num_months'])
    return stats, {name: sorted(m for m, _ in ms) for name, ms in res.items()}, res


def check(idxs, spec):
    O.case(tuple(idxs))
    w = {'views': list(idxs), 'filters': [VIEWS[i][0] for i in idxs]}
    try:
        stats, got, raw = run(idxs)
    except Exception as e:
        O.fail('C10.classification_aborts', w, 'completes', '%s: %s' % (type(e).__name__, e))
        return None
    for i in idxs:
        pred = VIEWS[i][1]
        want = sorted(m for m, s in spec.items() if pred is not None and _safe(pred, s))
        g = got.get('V%d' % i)
        if g != want:
            O.fail('C10.membership.%s' % _k(VIEWS[i][0]), dict(w, view=VIEWS[i][0]), want, g, 'classify_by_sections')
        tot = compute_section_totals(raw.get('V%d' % i, []))
        wt = sum(spec[m]['total'] for m in want)
        if g == want and abs(tot['total'] - wt) > 1e-9:
            O.fail('C10.view_total', dict(w, view=VIEWS[i][0]), wt, tot['total'])
    for name, ms in got.items():
        bad = [m for m in ms if m not in spec]
        if bad:
            O.fail('C10.excluded_merchant_listed', w, 'income/transfer/investment merchants never listed', bad)
    return got


def check_duplicate_names(spec):
    """two views with one name: the file is rejected, or the first view keeps exactly the membership it has alone (views are independent)"""
    from tally.section_engine import SectionParseError
    for i, j in ((0, 5), (5, 0), (1, 1)):
        text = 'glob = 40\n\n[Same]\nfilter: %s\n\n[Other]\nfilter: total > 0\n\n[Same]\nfilter: %s\n' % (VIEWS[i][0], VIEWS[j][0])
        w = {'duplicate_names': [i, j], 'filters': [VIEWS[i][0], VIEWS[j][0]]}
        O.case(('dup', i, j))
        try:
            cfg = parse_sections(text)
        except SectionParseError:
            continue
        stats = analyze_transactions([dict(t, tags=list(t['tags'])) for t in TXNS])
        res = classify_by_sections(stats['by_merchant'], cfg, stats['num_months'])
        got = [m for m, _ in res.get('Same', [])]
        want = sorted(m for m, s in spec.items() if _safe(VIEWS[i][1], s))
        if got != want:
            O.fail('C10.duplicate_view_names_merged', w, {'first view alone': want}, {'listed under the name': got}, 'parse_sections accepts the file; classify_by_sections')


def check_reference_examples():
    """every filter printed by `tally reference views` parses and can be evaluated over a merchant (it does not fail for every merchant whatsoever)"""
    import ref_examples
    from datetime import date
    from tally import expr_parser as ep
    txns = [{'amount': 10.0 * (i + 1), 'date': date(2025, 1 + i % 6, 3), 'category': 'Food', 'subcategory': 'X', 'tags': ['business'], 'merchant': 'M'} for i in range(14)]
    for kind, expr in ref_examples.examples(('filter',)):
        O.case(('reference', expr))
        try:
            tree = ep.parse(expr)
            ep.evaluate_ast(tree, ep.create_context(transactions=txns, num_months=6, variables={}))
        except ep.ExpressionError as e:
            O.fail('C10.reference_filter_example_cannot_be_evaluated', {'reference_example': expr}, 'evaluates to a truth value over a merchant with 14 payments in 6 months', str(e)[:140],
                   'expr_parser.parse + evaluate_ast on the example text from commands/reference.py')


def _safe(pred, s):
    try:
        return bool(pred(s))
    except Exception:
        return False


def _k(text):
    return ''.join(c if c.isalnum() else '_' for c in text)[:40]


def main():
    spec = merchants_spec()
    if O.witness:
        if 'duplicate_names' in O.witness:
            check_duplicate_names(spec)
        elif 'reference_example' in O.witness:
            check_reference_examples()
        else:
            check(O.witness['views'], spec)
        O.finish()
    n = len(VIEWS)
    singles = {}
    for i in range(n):
        g = check([i], spec)
        if g is not None:
            singles[i] = g.get('V%d' % i)
    # independence: membership of a view does not depend on which other views exist or on their order
    pairs = list(itertools.permutations(range(n), 2))
    for k, (i, j) in enumerate(pairs):
        if O.tier == 'quick' and (k + O.seed) % 6:
            continue
        g = check([i, j], spec)
        if g is not None and i in singles and g.get('V%d' % i) != singles[i]:
            O.fail('C10.views_not_independent', {'views': [i, j], 'filters': [VIEWS[i][0], VIEWS[j][0]]}, singles[i], g.get('V%d' % i))
    # views with local variables next to every other view, in both orders (a local must not be visible in another view)
    for i in [x for x in range(n) if len(VIEWS[x]) > 2 or 'lim' in VIEWS[x][0]]:
        for j in range(n):
            if i == j:
                continue
            for order in ([i, j], [j, i]):
                g = check(order, spec)
                for v in order:
                    if g is not None and v in singles and g.get('V%d' % v) != singles[v]:
                        O.fail('C10.views_not_independent', {'views': order, 'filters': [VIEWS[x][0] for x in order]}, singles[v], g.get('V%d' % v))
    check(list(range(n)), spec)
    check_duplicate_names(spec)
    check_reference_examples()
    check(list(reversed(range(n))), spec)
    O.sample({'views': [2, 14], 'filters': [VIEWS[2][0], VIEWS[14][0]]})
    O.finish()


O.guard(main)
