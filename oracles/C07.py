"""Bounded stand-in / replay oracle for C07: operation histories on the real code versus a cold evaluation
of the final request in a fresh interpreter (no caches, no earlier loads)."""
import itertools
import json
import os
import shutil
import subprocess
import sys
import tempfile
import copy
from datetime import date

from oracle_lib import Oracle

O = Oracle()
TMP = tempfile.mkdtemp(prefix='c07-')

RULES_A = '''is_big = amount > 100
field.description = regex_replace(field.description, "^PFX\\\\s+", "")

[Net]
match: regex("NET.LIX") and ref == "1"
let: ref = extract("REF(\\\\d)")
category: Subs
subcategory: Stream
tags: {ref2 := lowercase(field.kind)}, a

[Big]
match: is_big
category: Large
subcategory: L
'''
RULES_B = '''[PfxB]
match: startswith("PFX")
category: Prefixed
subcategory: P

[NetB]
match: regex("net.lix") or contains("ORD") and any(r.id == extract("ORD(\\\\d+)") for r in orders)
let: ref = "zz"
category: OtherSubs
subcategory: B
tags: {ref}

[Walrus]
match: ref2 == "wire"
category: Leak
subcategory: L
'''
CSV_C = 'Pattern,Merchant,Category,Subcategory,Tags\nNETFLIX,Netflix CSV,CsvCat,CsvSub,c\n'
BROKEN = '[Broken\nmatch: contains(\n'
# the same rule texts with and without an explicit priority (most_specific mode): nothing about a rule may be remembered under its expression text or its name
RULES_D = '[Costco Gas]\nmatch: contains("COSTCO GAS")\ncategory: Transport\nsubcategory: Fuel\n\n[Costco]\nmatch: contains("COSTCO")\ncategory: Food\nsubcategory: Groceries\n'
RULES_E = RULES_D + 'priority: 90\n'
RULES_LITERAL = '[Lit]\nmatch: contains("NETFLIX") or ...\ncategory: Lit\nsubcategory: L\n'
FILES = {'literal.rules': RULES_LITERAL, 'a.rules': RULES_A, 'b.rules': RULES_B, 'c.csv': CSV_C, 'broken.rules': BROKEN, 'd.rules': RULES_D, 'e.rules': RULES_E}
for n, t in FILES.items():
    open(os.path.join(TMP, n), 'w').write(t)

TXNS = [
    {'description': 'PFX NETFLIX REF1', 'amount': 20.0, 'date': [2025, 1, 5], 'field': {'kind': 'Wire'}, 'source': 'S'},
    {'description': 'ORD77 SHOP', 'amount': 500.0, 'date': [2025, 2, 5], 'field': {'kind': 'ach'}, 'source': 'S'},
    {'description': 'netflix', 'amount': 5.0, 'date': [2025, 3, 5], 'field': None, 'source': None},
    {'description': 'ZZZ PLAIN', 'amount': 1.0, 'date': [2025, 4, 5], 'field': {'kind': 'none'}, 'source': 'S'},
    {'description': 'COSTCO GAS #1023', 'amount': 40.0, 'date': [2025, 4, 6], 'field': None, 'source': 'S'},
]
ROWS = {'orders': [{'id': '77', 'item': 'x'}, {'id': '78', 'item': 'y'}]}

# operations: ('load', file) | ('classify', txn index) | ('eval', expression, txn index)
OPS = [('load', 'a.rules'), ('load', 'b.rules'), ('load', 'c.csv'), ('load', 'broken.rules'), ('load', None),
       ('classify', 0), ('classify', 1), ('classify', 2), ('classify', 3), ('eval', 'regex("^\\\\D+$")', 2), ('eval', 'regex("^\\\\d+$")', 2),
       ('eval', '(ref2 := "wire") == "wire"', 0)]

DIRECTED = [
    [('load', 'a.rules'), ('classify', 0), ('rewrite', 'a.rules', 'b.rules'), ('load', 'a.rules'), ('classify', 0), ('classify', 2)],
    [('eval', '(ref2 := "wire") == "wire"', 0), ('load', 'b.rules'), ('classify', 3), ('classify', 1)],
    # the order the explain / discover / diag commands load in: transforms first, then the rules
    [('load', 'a.rules'), ('classify', 0), ('rewrite', 'a.rules', 'b.rules'), ('load_transforms_first', 'a.rules'), ('classify', 0), ('classify', 2)],
    [('load', 'a.rules'), ('load_transforms_first', 'b.rules'), ('classify', 0)],
    [('load', 'b.rules'), ('load_transforms_first', 'a.rules'), ('classify', 0)],
    [('load', 'a.rules'), ('classify', 0), ('load', 'b.rules'), ('classify', 3)],
    [('load', 'a.rules'), ('classify', 0), ('load', 'b.rules'), ('classify', 0), ('classify', 1)],
    [('eval', 'regex("^\\D+$")', 2), ('eval', 'regex("^\\d+$")', 2), ('eval', 'regex("^\\D+$")', 2)],
    [('load', 'a.rules'), ('load', 'broken.rules'), ('classify', 0)],
    [('load', 'a.rules'), ('load', 'c.csv'), ('classify', 0), ('classify', 2)],
    [('load', 'b.rules'), ('classify', 1), ('classify', 0), ('classify', 1)],
    [('load_ms', 'd.rules'), ('classify', 4), ('load_ms', 'e.rules'), ('classify', 4)],
    [('load_ms', 'e.rules'), ('classify', 4), ('load_ms', 'd.rules'), ('classify', 4)],
    [('load_ms', 'd.rules'), ('classify', 4), ('rewrite', 'd.rules', 'e.rules'), ('load_ms', 'd.rules'), ('classify', 4)],
    # an expression that is refused is refused every time it is read (a rules file is loaded several times in one run of `tally up`)
    [('eval', 'amount > 1 or ...', 0), ('eval', 'amount > 1 or ...', 0)],
    [('eval', 'description == b"x" or amount > 1', 0), ('eval', 'description == b"x" or amount > 1', 0), ('eval', 'amount + 2j', 0), ('eval', 'amount + 2j', 0)],
    [('load', 'literal.rules'), ('classify', 0), ('load', 'literal.rules'), ('classify', 0)],
]

DRIVER = r'''
import json, sys, os, copy
from datetime import date
from tally import merchant_utils as mu, expr_parser as ep
ops, tmp, txns, rows = json.load(sys.stdin)
state = {'rules': [], 'transforms': []}
out = []
def classify(i):
    t = txns[i]
    d = date(*t['date'])
    fld = copy.deepcopy(t['field'])
    r = mu.normalize_merchant(t['description'], state['rules'], amount=t['amount'], txn_date=d, field=fld, data_source=t['source'],
                              transforms=state['transforms'], data_sources=copy.deepcopy(rows))
    m, c, s, info = r
    return [m, c, s, sorted((info or {}).get('tags', []))]
for op in ops:
    if op[0] == 'rewrite':
        # replace the content of a rules file in place, keeping its modification time
        p = os.path.join(tmp, op[1])
        st = os.stat(p)
        open(p, 'w').write(open(os.path.join(tmp, op[2])).read())
        os.utime(p, ns=(st.st_atime_ns, st.st_mtime_ns))
        out.append(['rewritten'])
    elif op[0] == 'load_transforms_first':
        p = os.path.join(tmp, op[1]) if op[1] else None
        state['transforms'] = mu.get_transforms(p)
        state['rules'] = mu.get_all_rules(p)
        out.append(['loaded', len(state['rules'])])
    elif op[0] in ('load', 'load_ms'):
        p = os.path.join(tmp, op[1]) if op[1] else None
        mode = 'most_specific' if op[0] == 'load_ms' else 'first_match'
        state['rules'] = mu.get_all_rules(p, match_mode=mode)
        state['transforms'] = mu.get_transforms(p, match_mode=mode)
        out.append(['loaded', len(state['rules'])])
    elif op[0] == 'classify':
        out.append(classify(op[1]))
    else:
        t = txns[op[2]]
        try:
            v = ep.evaluate_transaction(op[1], {'description': t['description'], 'amount': t['amount'], 'date': date(*t['date']),
                                               'field': t['field'], 'source': t['source']}, data_sources=rows)
            out.append(['value', repr(v)])
        except ep.ExpressionError as e:
            out.append(['ExpressionError'])
print(json.dumps(out))
'''


def run_in_fresh_process(ops):
    env = dict(os.environ)
    for n, t in FILES.items():          # every history starts from the same files
        open(os.path.join(TMP, n), 'w').write(t)
    p = subprocess.run([sys.executable, '-c', DRIVER], input=json.dumps([ops, TMP, TXNS, ROWS]), capture_output=True, text=True, env=env, timeout=120)
    if p.returncode != 0:
        return ['CRASH', p.stderr.strip().splitlines()[-1][:300] if p.stderr.strip() else '']
    return json.loads(p.stdout.strip().splitlines()[-1])


_cold = {}


def cold(last_load, op):
    """what a fresh process answers for `op` after loading only the most recent rule file"""
    key = json.dumps([last_load, op])
    if key not in _cold:
        ops = ([last_load] if last_load else []) + [op]
        _cold[key] = run_in_fresh_process(ops)[-1]
    return _cold[key]


def check_history(hist):
    O.case(tuple(map(json.dumps, hist)))
    got = run_in_fresh_process(hist)
    if got and got[0] == 'CRASH':
        O.fail('C07.history_crashes', {'history': hist}, 'completes', got)
        return
    last_load = None
    content = {}
    for i, op in enumerate(hist):
        if op[0] == 'rewrite':
            content[op[1]] = op[2]
            continue
        if op[0] in ('load', 'load_transforms_first', 'load_ms'):
            kind = 'load_ms' if op[0] == 'load_ms' else 'load'
            last_load = [kind, content.get(op[1], op[1])] if op[1] else [kind, None]
            continue
        want = cold(last_load, op)
        if got[i] != want:
            O.fail('C07.%s_depends_on_history' % op[0], {'history': hist[:i + 1]}, want, got[i],
                   'same request in a fresh interpreter after loading only %r' % (last_load,))
            return


def check_inputs_unchanged():
    """Classifying never alters the rule set, the rows or the transaction (except what transforms assign)."""
    from tally import merchant_utils as mu
    from tally.merchant_engine import parse_merchants
    eng = parse_merchants(RULES_B)
    before = repr([(r.name, r.match_expr, sorted(r.tags), r.let_bindings, r.fields) for r in eng.rules])
    rows = copy.deepcopy(ROWS)
    for t in TXNS:
        O.case(('frame', t['description']))
        txn = {'description': t['description'], 'amount': t['amount'], 'date': date(*t['date']), 'field': copy.deepcopy(t['field']), 'source': t['source']}
        snap = copy.deepcopy(txn)
        eng.match(txn, data_sources=rows)
        if txn != snap:
            O.fail('C07.match_mutates_transaction', {'txn': t['description']}, snap, txn)
        if rows != ROWS:
            O.fail('C07.match_mutates_rows', {'txn': t['description']}, ROWS, rows)
    after = repr([(r.name, r.match_expr, sorted(r.tags), r.let_bindings, r.fields) for r in eng.rules])
    if before != after:
        O.fail('C07.match_mutates_rules', {}, before, after)
    # a field: directive may evaluate to a supplemental row (or a list of rows): what is exported for the transaction must not be the caller's
    # row rewritten in place - the next transaction is classified against the same rows
    path = os.path.join(TMP, 'f.rules')
    open(path, 'w').write('[Ord]\nmatch: contains("ORD") and any(r.date > "2025-01-01" for r in orders)\ncategory: Shop\nsubcategory: Online\n'
                          'field: order = next(r for r in orders if r.id == extract("ORD(\\\\d+)"))\nfield: all_orders = [r for r in orders]\n')
    rows2 = {'orders': [{'id': '77', 'item': 'x', 'date': date(2025, 2, 3)}, {'id': '78', 'item': 'y', 'date': date(2025, 2, 4)}]}
    snap = copy.deepcopy(rows2)
    rules = mu.get_all_rules(path)
    first = None
    for k in range(2):
        O.case(('frame', 'field_is_a_row', k))
        r = mu.normalize_merchant('ORD77 SHOP', rules, amount=500.0, txn_date=date(2025, 2, 5), field=None, data_source='S', transforms=[], data_sources=rows2)
        if r[1] != 'Shop' or not (r[3] or {}).get('extra_fields'):
            raise RuntimeError('oracle self-check: the rule with the row-valued field: did not apply (%r)' % (r,))     # a vacuous case must not pass silently
        if rows2 != snap:
            O.fail('C07.classification_rewrites_supplemental_rows', {'call': k}, repr(snap), repr(rows2), 'normalize_merchant with a field: that evaluates to a supplemental row')
            break
        if first is None:
            first = r[:3]
        elif r[:3] != first:
            O.fail('C07.history_dependent_classification', {'history': 'the same transaction classified twice against the same rows'}, first, r[:3])
    mu.clear_engine_cache() if hasattr(mu, 'clear_engine_cache') else None


def main():
    try:
        if O.witness:
            if 'history' in O.witness:
                check_history(O.witness['history'])
            else:
                check_inputs_unchanged()
            O.finish()
        for hist in DIRECTED:
            check_history([list(o) for o in hist])
        maxlen = 3 if O.tier == 'quick' else 4
        loads = [o for o in OPS if o[0] == 'load']
        others = [o for o in OPS if o[0] != 'load']
        n = 0
        for L in range(2, maxlen + 1):
            for hist in itertools.product(OPS, repeat=L):
                if hist[-1][0] == 'load':
                    continue
                if not any(o[0] != 'load' for o in hist):
                    continue
                n += 1
                # quick tier: a deterministic 1-in-k sample of the length-3 histories plus all of length 2
                if O.tier == 'quick' and L == 3 and (n + O.seed) % 7 != 0:
                    continue
                if O.tier != 'quick' and L == 4 and (n + O.seed) % 23 != 0:
                    continue
                check_history([list(o) for o in hist])
        check_inputs_unchanged()
        O.sample({'history': [['load', 'a.rules'], ['load', 'c.csv'], ['classify', 0]]})
    finally:
        shutil.rmtree(TMP, ignore_errors=True)
    O.finish()


O.guard(main)
