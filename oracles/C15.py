"""Bounded stand-in / replay oracle for C15: the real migration functions on real temporary directories, with the
file-system primitives patched to stop (crash) or raise OSError at the k-th primitive call."""
import builtins
import os
import shutil
import tempfile

from oracle_lib import Oracle
from cmd_lib import Budget, run_cmd, up_args, last_json

from tally import cli
from tally.commands.run import cmd_run

O = Oracle()
CSV_RULES = 'Pattern,Merchant,Category,Subcategory,Tags\nCOFFEE,Coffee,Food,Coffee,daily\nNETFLIX,Netflix,Subs,Stream,\n'
DATA = 'Date,Description,Amount\n01/05/2025,COFFEE SHOP,4.50\n01/06/2025,NETFLIX.COM,15.99\n01/07/2025,UNKNOWN PLACE,9.99\n'


class Crash(BaseException):
    pass


class Injector:
    """counts file-system primitives (open for writing/appending and each write on such handles, shutil.move, os.makedirs) and fires at index k"""

    def __init__(self, k, kind):
        self.k, self.kind, self.n, self.fired, self.names = k, kind, 0, None, []

    def tick(self, name):
        self.names.append(name)
        i = self.n
        self.n += 1
        if i == self.k and self.fired is None:
            self.fired = name
            if self.kind == 'crash_before':
                raise Crash()
            if self.kind == 'oserror':
                raise OSError(28, 'injected fault at ' + name)
            return 'crash_after'
        return None

    def __enter__(self):
        inj = self
        self.o_open, self.o_move, self.o_mk = builtins.open, shutil.move, os.makedirs

        class W:
            def __init__(s, f, name):
                s.f, s.name = f, name

            def write(s, data):
                act = inj.tick('write:' + s.name)
                if act == 'crash_after':
                    s.f.write(data[:max(1, len(data) // 2)])       # a torn write: a prefix reaches the disk
                    s.f.flush()
                    raise Crash()
                return s.f.write(data)

            def __enter__(s):
                return s

            def __exit__(s, *a):
                s.f.close()
                return False

            def __getattr__(s, a):
                return getattr(s.f, a)

        def p_open(path, mode='r', *a, **k):
            if any(c in mode for c in 'wa') and '/budget-' in str(path) or (any(c in mode for c in 'wa') and 'layout-' in str(path)):
                act = inj.tick('open(%s):%s' % (mode, os.path.basename(str(path))))
                f = inj.o_open(path, mode, *a, **k)
                if act == 'crash_after':
                    f.close()
                    raise Crash()
                return W(f, os.path.basename(str(path)))
            return inj.o_open(path, mode, *a, **k)

        def p_move(src, dst, *a, **k):
            act = inj.tick('move:' + os.path.basename(str(src)))
            r = inj.o_move(src, dst, *a, **k)
            if act == 'crash_after':
                raise Crash()
            return r

        def p_mk(path, *a, **k):
            act = inj.tick('makedirs:' + os.path.basename(str(path)))
            r = inj.o_mk(path, *a, **k)
            if act == 'crash_after':
                raise Crash()
            return r
        builtins.open, shutil.move, os.makedirs = p_open, p_move, p_mk
        return self

    def __exit__(self, *a):
        builtins.open, shutil.move, os.makedirs = self.o_open, self.o_move, self.o_mk
        return False


SETTINGS = 'year: 2025\ndata_sources:\n  - name: Card\n    file: data/card.csv\n    format: "{date:%m/%d/%Y}, {description}, {amount}"\n'
SETTINGS_VARIANTS = {'newline_terminated': SETTINGS, 'no_final_newline': SETTINGS.rstrip('\n'), 'ends_with_comment_no_newline': SETTINGS + '# my notes'}


def make_budget(settings=SETTINGS):
    b = Budget()
    b.write('data/card.csv', DATA)
    b.write('config/merchant_categories.csv', CSV_RULES)
    b.write('config/settings.yaml', settings)
    return b


def classification(b, migrate=False):
    out, err, code = run_cmd(cmd_run, **up_args(b, format='json', migrate=migrate, quiet=True))
    doc = last_json(out)
    if doc is None:
        return None
    return sorted((m['name'], m['category']) for m in doc['merchants'])


def check_csv_migration(variant='newline_terminated'):
    b0 = make_budget(SETTINGS_VARIANTS[variant])
    want = classification(b0)
    b0.close()
    k = 0
    while k < 20:
        progressed = False
        for kind in ('crash_after', 'oserror'):
            b = make_budget(SETTINGS_VARIANTS[variant])
            try:
                csv0 = open(os.path.join(b.config, 'merchant_categories.csv'), 'rb').read()
                set0 = open(os.path.join(b.config, 'settings.yaml'), 'rb').read()
                inj = Injector(k, kind)
                try:
                    with inj:
                        cli._migrate_csv_to_rules(os.path.join(b.config, 'merchant_categories.csv'), b.config, backup=True)
                except Crash:
                    pass
                if inj.fired is None:
                    continue
                progressed = True
                w = {'function': '_migrate_csv_to_rules', 'settings': variant, 'event': 'crash' if kind == 'crash_after' else 'oserror', 'primitive_index': k, 'primitive': inj.fired}
                O.case(('csv', variant, k, kind))
                files = {f: open(os.path.join(b.config, f), 'rb').read() for f in os.listdir(b.config)}
                if csv0 not in (files.get('merchant_categories.csv'), files.get('merchant_categories.csv.bak')):
                    O.fail('C15.csv_migration.%s.rules_content_lost' % w['event'], w, 'CSV content kept in place or as .bak', sorted(files))
                if not files.get('settings.yaml', b'').startswith(set0):
                    O.fail('C15.csv_migration.%s.settings_content_lost' % w['event'], w, 'settings.yaml keeps its content', files.get('settings.yaml', b'')[:120])
                now = classification(b)
                if now == want:
                    # still fine now: re-running the command from this interrupted state must not make it worse ("at no point")
                    again = classification(b, migrate=True)
                    if again != want:
                        O.fail('C15.csv_migration.%s.rerun_from_a_working_state_loses_the_rules' % w['event'], w, want, {'now': now, 'after_rerun': again},
                               'tally up --migrate re-run after the event')
                if now != want:
                    after = classification(b, migrate=True)
                    if after != want:
                        torn_key = inj.fired.startswith('write:settings') and b'merchants_file: config/merchants.rules\n' not in files.get('settings.yaml', b'') \
                            and b'merchants_file' in files.get('settings.yaml', b'')
                        key = 'C15.csv_migration.crash.partial_key_line' if (torn_key and kind == 'crash_after') else 'C15.csv_migration.%s.rules_not_in_force' % w['event']
                        O.fail(key, w, want, {'now': now, 'after_rerun': after}, 'tally up / tally up --migrate after the event')
            finally:
                b.close()
        if not progressed:
            break
        k += 1


def check_existing_targets():
    """budgets that already have a merchants.rules (hand-written, not yet named in settings) and / or an older .bak: a completed migration keeps the
    content of every file that was there (in place or under a backup name)"""
    for have_rules, have_bak in ((True, False), (False, True), (True, True)):
        b = make_budget()
        try:
            mine = '# my own rules\n[Mine]\nmatch: contains("MINE")\ncategory: Own\nsubcategory: Rules\n'
            old = 'Pattern,Merchant,Category,Subcategory\nOLDBACKUP,Old,Old,Old\n'
            if have_rules:
                b.write('config/merchants.rules', mine)
            if have_bak:
                b.write('config/merchant_categories.csv.bak', old)
            before = {f: open(os.path.join(b.config, f), 'rb').read() for f in os.listdir(b.config)}
            O.case(('existing', have_rules, have_bak))
            import contextlib
            import io
            with contextlib.redirect_stdout(io.StringIO()):
                cli._migrate_csv_to_rules(os.path.join(b.config, 'merchant_categories.csv'), b.config, backup=True)
            after = [open(os.path.join(b.config, f), 'rb').read() for f in os.listdir(b.config)]
            for name, content in before.items():
                if name == 'settings.yaml':
                    continue
                if content not in after:
                    O.fail('C15.csv_migration.completed.existing_file_content_lost', {'function': '_migrate_csv_to_rules', 'existing': name, 'had_rules_file': have_rules, 'had_bak': have_bak},
                           'content of %s kept in place or under a backup name' % name, sorted(os.listdir(b.config)), 'cli._migrate_csv_to_rules on a budget that already has this file')
        finally:
            b.close()


COMMAND_SETTINGS = {
    'key_only_mentioned_in_a_comment': SETTINGS + '# merchants_file: config/merchants.rules   <- enable after upgrading\n',
    'longer_key_name': SETTINGS + 'old_merchants_file: config/old.rules\n',
    'key_with_empty_value': SETTINGS + 'merchants_file:\n',
    'key_inside_a_quoted_value': SETTINGS + 'title: "see merchants_file: in the docs"\n',
    'plain': SETTINGS,
}


def check_completed_command():
    """the whole command (tally up --migrate), no faults: settings texts that merely mention the key, and a budget run with --settings <other file>;
    the budget classifies as before straight after the command and after running it again"""
    for variant, text in sorted(COMMAND_SETTINGS.items()):
        for settings_name in ('settings.yaml', 'settings-2024.yaml'):
            for default_also in ((False,) if settings_name == 'settings.yaml' else (False, True)):
                b = make_budget(text)
                try:
                    if settings_name != 'settings.yaml':
                        b.write('config/' + settings_name, text)
                        if not default_also:
                            os.remove(os.path.join(b.config, 'settings.yaml'))

                    def cls(migrate=False):
                        out, err, code = run_cmd(cmd_run, **up_args(b, format='json', migrate=migrate, quiet=True, settings=settings_name))
                        doc = last_json(out)
                        return None if doc is None else sorted((m['name'], m['category']) for m in doc['merchants'])
                    want = cls()
                    O.case(('command', variant, settings_name, default_also))
                    first = cls(migrate=True)
                    after = cls()
                    again = cls(migrate=True)
                    if not (want == first == after == again):
                        O.fail('C15.csv_migration.completed.rules_not_in_force', {'function': 'tally up --migrate', 'command_settings': variant, 'settings_file': settings_name,
                                                                                  'config_settings_yaml_also_present': default_also},
                               want, {'during_migrating_run': first, 'next_run': after, 'after_rerun_with_migrate': again, 'config': sorted(os.listdir(b.config))},
                               'tally up [--settings F] --migrate, then tally up, then the same command again')
                finally:
                    b.close()


def check_config_dir_name():
    """the whole command on a budget whose config directory is not called `config` (tally up <dir> takes any directory): after the migration the settings
    must name the rules file where it was written"""
    b = make_budget(SETTINGS)
    try:
        other = os.path.join(b.root, 'settings')
        shutil.move(b.config, other)
        b.config = other

        def cls(migrate=False):
            out, err, code = run_cmd(cmd_run, **up_args(b, format='json', migrate=migrate, quiet=True))
            doc = last_json(out)
            return None if doc is None else sorted((m['name'], m['category']) for m in doc['merchants'])
        want = cls()
        O.case(('config_dir_name',))
        first = cls(migrate=True)
        after = cls()
        again = cls(migrate=True)
        if not (want == first == after == again):
            O.fail('C15.csv_migration.completed.rules_not_in_force.config_dir_not_named_config', {'function': 'tally up <dir> --migrate', 'config_dir_name': 'settings'}, want,
                   {'during_migrating_run': first, 'next_run': after, 'after_rerun_with_migrate': again, 'dir': sorted(os.listdir(b.config))},
                   'tally up settings --migrate, then tally up settings, then the same command again')
    finally:
        b.close()


def check_layout_migration():
    k = 0
    while k < 10:
        progressed = False
        for kind in ('crash_after', 'oserror'):
            root = tempfile.mkdtemp(prefix='layout-')
            cwd = os.getcwd()
            try:
                for d in ('config', 'data', 'output'):
                    os.makedirs(os.path.join(root, d))
                open(os.path.join(root, 'config', 'settings.yaml'), 'w').write('year: 2025\n')
                open(os.path.join(root, 'data', 'card.csv'), 'w').write(DATA)
                os.chdir(root)
                inj = Injector(k, kind)
                try:
                    with inj:
                        cli.migrate_v0_to_v1(os.path.join(root, 'config'), skip_confirm=True)
                except Crash:
                    pass
                if inj.fired is None:
                    continue
                progressed = True
                w = {'function': 'migrate_v0_to_v1', 'event': 'crash' if kind == 'crash_after' else 'oserror', 'primitive_index': k, 'primitive': inj.fired}
                O.case(('layout', k, kind))

                def state():
                    for base in (root, os.path.join(root, 'tally')):
                        if os.path.isdir(os.path.join(base, 'config')):
                            return os.path.isfile(os.path.join(base, 'config', 'settings.yaml')) and os.path.isfile(os.path.join(base, 'data', 'card.csv'))
                    return False
                ok = state()
                if not ok:
                    cfg = cli.find_config_dir()
                    if cfg:
                        cli.run_migrations(cfg, skip_confirm=True)
                    ok = state()
                if not ok:
                    tree = sorted(os.path.relpath(os.path.join(dp, f), root) for dp, dn, fn in os.walk(root) for f in fn)
                    O.fail('C15.layout_migration.%s.stranded' % w['event'], w, 'config/ and data/ side by side now or after re-running the migration', tree)
            finally:
                os.chdir(cwd)
                shutil.rmtree(root, ignore_errors=True)
        if not progressed:
            break
        k += 1


def check_layout_existing_target():
    """folder-layout migration when ./tally/ is already there with sub-directories of the same names (say from an earlier `tally init`): afterwards the budget is
    usable (config/ and data/ with the user's files side by side), now or after running the migration again - never nested where no command finds it"""
    for with_data in (False, True):
        root = tempfile.mkdtemp(prefix='layout2-')
        cwd = os.getcwd()
        try:
            for d in ('config', 'data', 'tally/config') + (('tally/data',) if with_data else ()):
                os.makedirs(os.path.join(root, d))
            open(os.path.join(root, 'config', 'settings.yaml'), 'w').write('year: 2025\n# mine\n')
            open(os.path.join(root, 'data', 'card.csv'), 'w').write(DATA)
            open(os.path.join(root, 'tally', 'config', 'settings.yaml'), 'w').write('year: 2025\n# starter\n')
            os.chdir(root)
            O.case(('layout_existing', with_data))
            import contextlib
            import io
            with contextlib.redirect_stdout(io.StringIO()), contextlib.redirect_stderr(io.StringIO()):
                cli.migrate_v0_to_v1(os.path.join(root, 'config'), skip_confirm=True)

            def state():
                for base in (root, os.path.join(root, 'tally')):
                    s_ = os.path.join(base, 'config', 'settings.yaml')
                    if os.path.isfile(s_):
                        return '# mine' in open(s_).read() and os.path.isfile(os.path.join(base, 'data', 'card.csv'))
                return False
            ok = state()
            if not ok:
                with contextlib.redirect_stdout(io.StringIO()), contextlib.redirect_stderr(io.StringIO()):
                    cfg = cli.find_config_dir()
                    if cfg:
                        cli.run_migrations(cfg, skip_confirm=True)
                ok = state()
            if not ok:
                tree = sorted(os.path.relpath(os.path.join(dp, f), root) for dp, dn, fn in os.walk(root) for f in fn)
                O.fail('C15.layout_migration.existing_target.stranded', {'function': 'migrate_v0_to_v1', 'existing_tally_dir': True, 'tally_data_exists': with_data},
                       "the user's config/ and data/ side by side now or after re-running the migration", tree, 'cli.migrate_v0_to_v1 with ./tally/config already present')
        finally:
            os.chdir(cwd)
            shutil.rmtree(root, ignore_errors=True)


def main():
    if O.witness:
        if 'existing' in O.witness:
            check_existing_targets()
        elif 'config_dir_name' in O.witness:
            check_config_dir_name()
        elif 'command_settings' in O.witness:
            check_completed_command()
        elif O.witness.get('existing_tally_dir'):
            check_layout_existing_target()
        elif O.witness.get('function') == 'migrate_v0_to_v1':
            check_layout_migration()
        else:
            check_csv_migration(O.witness.get('settings', 'newline_terminated'))
        O.finish()
    for variant in SETTINGS_VARIANTS:
        check_csv_migration(variant)
    check_existing_targets()
    check_completed_command()
    check_config_dir_name()
    check_layout_migration()
    check_layout_existing_target()
    O.sample({'function': '_migrate_csv_to_rules', 'event': 'crash', 'primitive_index': 3})
    O.finish()


O.guard(main)
