"""Bounded stand-in / replay oracle for C12: every output format renders, reports the same figures, and the data embedded in the HTML
report decodes (html.parser, then json) to exactly what was analysed."""
import contextlib
import io
import itertools
import json
import os
import re
import shutil
import tempfile
from datetime import datetime
from html.parser import HTMLParser

from oracle_lib import Oracle

from tally.analyzer import (analyze_transactions, classify_by_sections, compute_section_totals, export_json, export_markdown, print_summary,
                            print_sections_summary, write_summary_file_vue)
from tally.section_engine import parse_sections

O = Oracle()
ALPHABET = ['A', ' ', '_', "'", '"', '<', '/', '&', '\\', 'é', '>', '-']
HOSTILE = ['EVIL </script><b>x', 'X /* JS_PLACEHOLDER */ Y', 'A /* DATA_PLACEHOLDER */ B', '<!-- c --> <script>', 'a b', '</SCRIPT >', 'Tom & "Jerry" \\ <i>', '/* CSS_PLACEHOLDER */']


def T(merchant, cat, sub, amount, m, d, tags=(), desc=None, extra=None):
    t = {'merchant': merchant, 'category': cat, 'subcategory': sub, 'amount': amount, 'date': datetime(2025, m, d), 'description': merchant,
         'raw_description': desc or merchant.upper(), 'source': 'Card', 'tags': list(tags), 'location': None}
    if extra:
        t['extra_fields'] = extra
    return t


def base_txns():
    return [T('Grocer', 'Food', 'Grocery', 100.0, 1, 5), T('Grocer', 'Food', 'Grocery', -30.0, 2, 6, extra={'discount': 0.0}),      # field values that are zero / false / empty are values all the same
             T('Employer', 'Pay', 'Salary', -2000.0, 1, 31, ['income']),
            T('Employer', 'Pay', 'Salary', 50.0, 2, 1), T('Broker', 'Save', 'IRA', 500.0, 2, 3, ['investment']), T('Bank', 'Move', 'X', -250.0, 3, 3, ['transfer']),
            T('Bank', 'Move', 'X', 80.0, 3, 4, ['Transfer']), T('Returns', 'Shop', 'Ret', -20.0, 3, 9, extra={'qty': 0, 'flagged': False, 'memo': '', 'rows': [], 'ok': 1}), T('Cafe', 'Food', 'Coffee', 4.5, 1, 2, ['daily'], extra={'note': 'n<1>'})]


class DataScript(HTMLParser):
    def __init__(self):
        super().__init__()
        self.in_script, self.scripts = False, []

    def handle_starttag(self, tag, attrs):
        if tag == 'script':
            self.in_script = True
            self.scripts.append('')

    def handle_endtag(self, tag):
        if tag == 'script':
            self.in_script = False

    def handle_data(self, data):
        if self.in_script:
            self.scripts[-1] += data


def decode_html(path):
    p = DataScript()
    p.feed(open(path, encoding='utf-8').read())
    for s in p.scripts:
        s = s.strip()
        if s.startswith('window.spendingData = '):
            body = s[len('window.spendingData = '):]
            if body.endswith(';'):
                body = body[:-1]
            return json.loads(body), len(p.scripts)
    return None, len(p.scripts)


def render_all(txns, w, views=False):
    stats = analyze_transactions([dict(t, tags=list(t['tags'])) for t in txns])
    if views:
        cfg = parse_sections(views if isinstance(views, str) else '[Big]\nfilter: total > 50\n\n[Food]\nfilter: category == "Food"\n')
        res = classify_by_sections(stats['by_merchant'], cfg, stats['num_months'])
        stats['sections'] = {n: compute_section_totals(ms) for n, ms in res.items()}
        stats['_sections_config'] = cfg
    figures = {k: stats[k] for k in ('income_total', 'spending_total', 'credits_total', 'transfers_in', 'transfers_out', 'cash_flow', 'transfers_net')}
    tmp = tempfile.mkdtemp(prefix='c12-')
    try:
        outs = {}
        for name, fn in (('json', lambda: export_json(stats, verbose=2)), ('markdown', lambda: export_markdown(stats, verbose=2)),
                         ('text', lambda: _capture(print_summary, stats)), ('text_sections', (lambda: _capture(print_sections_summary, stats)) if views else None),
                         ('html', lambda: write_summary_file_vue(stats, os.path.join(tmp, 'r.html'), sources=['Card'], embedded_html=True)),
                         ('html_split', lambda: write_summary_file_vue(stats, os.path.join(tmp, 'split', 'r.html'), sources=['Card'], embedded_html=False))):
            if fn is None:
                continue
            O.case((name, repr(w)))
            if name == 'html_split':
                os.makedirs(os.path.join(tmp, 'split'))
            try:
                outs[name] = fn()
            except Exception as e:
                O.fail('C12.%s.does_not_render' % name, w, 'renders', '%s: %s' % (type(e).__name__, e), name)
        # ---- figures
        if 'markdown' in outs:
            md = outs['markdown']
            for label, key in (('Income', 'income_total'), ('Spending', 'spending_total'), ('Credits/Refunds', 'credits_total'), ('**Net Cash Flow**', 'cash_flow'),
                               ('In', 'transfers_in'), ('Out', 'transfers_out')):
                m = re.search(r'^\| %s \| \**([+-]?)\$([\d,]+\.\d\d)\** \|' % re.escape(label), md, re.M)
                val = float(m.group(2).replace(',', '')) if m else None
                if val is None or abs(val - abs(figures[key])) > 0.005:
                    O.fail('C12.markdown.figure.%s' % key, w, round(abs(figures[key]), 2), val)
        if 'json' in outs:
            js = json.loads(outs['json'])['summary']
            if abs(js['income_total'] - figures['income_total']) > 0.005:
                O.fail('C12.json.figure.income_total', w, round(figures['income_total'], 2), js['income_total'], 'export_json summary vs analysed stats')
            if abs(js['credits_total'] - figures['credits_total']) > 0.005:
                O.fail('C12.json.figure.credits_total', w, round(figures['credits_total'], 2), js['credits_total'], 'export_json summary vs analysed stats')
            if abs(js['gross_spending'] - figures['spending_total']) > 0.005:
                O.fail('C12.json.figure.spending', w, round(figures['spending_total'], 2), js['gross_spending'], 'export_json summary vs analysed stats')
            if abs(js['total_spending'] - (figures['spending_total'] - figures['credits_total'])) > 0.005:
                O.fail('C12.json.figure.net_spending', w, round(figures['spending_total'] - figures['credits_total'], 2), js['total_spending'], 'export_json summary total_spending vs spending - credits')
            if js['net_cash_flow'] is None or abs(js['net_cash_flow'] - figures['cash_flow']) > 0.005:
                O.fail('C12.json.figure.cash_flow', w, round(figures['cash_flow'], 2), js['net_cash_flow'], 'export_json summary vs analysed stats')
            if abs(js['transfers_total'] - abs(figures['transfers_net'])) > 0.005:
                O.fail('C12.json.figure.transfers', w, round(abs(figures['transfers_net']), 2), js['transfers_total'], 'export_json summary vs analysed stats')
        for name in ('text', 'text_sections'):
            if name not in outs:
                continue
            txt = re.sub(r'\x1b\[[0-9;]*m', '', outs[name])
            m = re.search(r'Cash Flow:\s+([+-]?)\$?\s*(-?)\$?([\d,]+(?:\.\d+)?)', txt)
            val = None
            if m:
                val = float(m.group(3).replace(',', ''))
                if m.group(1) == '-' or m.group(2) == '-':
                    val = -val
            if val is None or abs(val - figures['cash_flow']) > 0.51:
                O.fail('C12.%s.figure.cash_flow' % name, w, figures['cash_flow'], val if m else 'no "Cash Flow:" line', name)
        # ---- embedded data
        for name, path in (('html', os.path.join(tmp, 'r.html')),):
            if name not in outs:
                continue
            try:
                data, nscripts = decode_html(path)
            except Exception as e:
                O.fail('C12.html.data_does_not_decode', w, 'html.parser + json.loads recover the data', '%s: %s' % (type(e).__name__, str(e)[:100]))
                continue
            if data is None:
                O.fail('C12.html.data_does_not_decode', w, 'a window.spendingData element', 'not found among %d script elements' % nscripts)
                continue
            size = os.path.getsize(path)
            if size > 1.5 * O.baseline_size:
                O.fail('C12.html.placeholder_interference', w, 'one copy of the app', 'file is %d bytes (baseline %d)' % (size, O.baseline_size))
            for jk, sk in (('incomeTotal', 'income_total'), ('spendingTotal', 'spending_total'), ('creditsTotal', 'credits_total'), ('cashFlow', 'cash_flow'),
                           ('transfersIn', 'transfers_in'), ('transfersOut', 'transfers_out')):
                if data.get(jk) != figures[sk]:
                    O.fail('C12.html.figure.%s' % sk, w, figures[sk], data.get(jk))
            # the per-category breakdown by kind adds up to the headline figures (each transaction in the bucket the analysis put it in)
            tt = {k: sum(c.get('typeTotals', {}).get(k, 0) for c in data['categoryView'].values()) for k in ('spending', 'income', 'investment', 'transfer')}
            want_tt = {'spending': figures['spending_total'], 'income': figures['income_total'], 'investment': stats.get('investment_total', 0),
                       'transfer': figures['transfers_in'] + figures['transfers_out']}
            if any(abs(tt[k] - want_tt[k]) > 0.005 for k in tt):
                O.fail('C12.html.type_totals_differ_from_figures', w, want_tt, tt, 'sum of categoryView[*].typeTotals vs the analysed figures')
            merchants, txn_seen, cat_total = {}, [], 0.0
            for cat in data['categoryView'].values():
                cat_total += cat['total']
                for sub in cat['subcategories'].values():
                    for mid, m in sub['merchants'].items():
                        merchants.setdefault(m['displayName'], 0)
                        merchants[m['displayName']] += 1
                        for t in m['transactions']:
                            txn_seen.append((m['displayName'], t['description'], t['amount'], t['month'], tuple(t['tags']), t['source'], json.dumps(t.get('extra_fields'), sort_keys=True)))
            want_merchants = sorted(stats['by_merchant'])
            if sorted(merchants) != want_merchants or any(v != 1 for v in merchants.values()):
                O.fail('C12.html.merchants_not_exactly_once', w, want_merchants, sorted(merchants.items()))
            want_txns = sorted((t['merchant'], t['raw_description'], _eff(t), t['date'].strftime('%Y-%m'), tuple(t['tags']), t['source'], json.dumps(t.get('extra_fields'), sort_keys=True, default=str)) for t in txns)
            if sorted(txn_seen) != want_txns:
                O.fail('C12.html.transactions_not_exactly_once', w, want_txns[:4], sorted(txn_seen)[:4])
            if views:
                # every analysed view that has merchants is in the report, under its own name, with exactly its merchants
                want_views = sorted((n, sorted(m for m, _ in sec.get('merchants', []))) for n, sec in stats['sections'].items() if sec.get('merchants'))
                got_views = sorted((sec['title'], sorted(m['displayName'] for m in sec['merchants'].values())) for sec in data.get('sections', {}).values())
                if want_views != got_views:
                    O.fail('C12.html.views_not_exactly_as_analysed', w, want_views, got_views, 'spendingData.sections vs classify_by_sections')
            ids = [t for cat in data['categoryView'].values() for sub in cat['subcategories'].values() for m in sub['merchants'].values() for t in [x['id'] for x in m['transactions']]]
            if len(ids) != len(set(ids)):
                O.fail('C12.html.transaction_ids_not_unique', w, 'unique ids', sorted(ids)[:6])
            if abs(cat_total - stats['total_transactions']) > 1e-6:
                O.fail('C12.html.category_sums', w, stats['total_transactions'], cat_total)
    finally:
        shutil.rmtree(tmp, ignore_errors=True)


def _eff(t):
    low = {x.lower() for x in t['tags']}
    return abs(t['amount']) if ('income' in low or 'investment' in low) else t['amount']


def _capture(fn, stats):
    buf = io.StringIO()
    with contextlib.redirect_stdout(buf):
        fn(stats, year=2025)
    return buf.getvalue()


def main():
    # size of a normal report (for the placeholder check)
    tmp = tempfile.mkdtemp(prefix='c12b-')
    try:
        st = analyze_transactions(base_txns())
        write_summary_file_vue(st, os.path.join(tmp, 'b.html'), sources=['Card'])
        O.baseline_size = os.path.getsize(os.path.join(tmp, 'b.html'))
    finally:
        shutil.rmtree(tmp, ignore_errors=True)
    if O.witness:
        w = O.witness
        tx = base_txns()
        if 'names' in w:
            tx += [T(n, 'Odd', 'Names', 10.0 + i, 4, 1 + i) for i, n in enumerate(w['names'])]
        if 'description' in w:
            tx.append(T('Hostile', 'Odd', 'Text', 7.0, 4, 9, desc=w['description'], tags=w.get('tags', [])))
        if w.get('case') == 'two_special_tags':
            tx += [T('Fidelity', 'Save', 'IRA', 200.0, 4, 2, ['investment', 'transfer']), T('Fidelity', 'Save', 'IRA', -75.0, 4, 3, ['transfer', 'Investment']), T('Acme', 'Pay', 'Bonus', -50.0, 4, 4, ['transfer', 'income'])]
        if w.get('case') == 'extra_field_values':
            tx.append(T('Dated', 'Odd', 'Fields', 9.0, 4, 9, extra=eval(w['extra'], {'datetime': __import__('datetime')})))
        render_all(tx, w, views=w.get('views', False))
        O.finish()
    render_all(base_txns(), {'case': 'base'})
    render_all(base_txns(), {'case': 'base', 'views': True}, views=True)
    # views whose filters compare total / months / cv with a variable, an expression or a function value, not with a number literal
    VARVIEWS = ('big = 50\nsteady = 0.5\n\n[Big]\nfilter: total > big\n\n[Regular]\nmin_months = 1\nfilter: months >= min_months and cv < steady\n\n'
                '[Scaled]\nfilter: total > big * 2 or months >= max_val(1, period("month"))\n')
    render_all(base_txns(), {'case': 'base', 'views': VARVIEWS}, views=VARVIEWS)
    zero = [T('Employer', 'Pay', 'Salary', -1000.0, 1, 31, ['income']), T('Shop', 'S', 'S', 1200.0, 2, 1), T('Shop', 'S', 'S', -200.0, 2, 9)]
    render_all(zero, {'case': 'zero_cash_flow'})
    render_all(zero, {'case': 'zero_cash_flow', 'views': True}, views=True)
    render_all([T('Only', 'C', 'S', 12.5, 1, 1)], {'case': 'single'})
    # transactions carrying two special tags at once: every place that buckets them uses the same precedence (income, investment, transfer)
    render_all(base_txns() + [T('Fidelity', 'Save', 'IRA', 200.0, 4, 2, ['investment', 'transfer']), T('Fidelity', 'Save', 'IRA', -75.0, 4, 3, ['transfer', 'Investment']),
                              T('Acme', 'Pay', 'Bonus', -50.0, 4, 4, ['transfer', 'income'])], {'case': 'two_special_tags'})
    render_all([T('Refund', 'C', 'S', -12.5, 1, 1)], {'case': 'only_credit'})
    for d in HOSTILE:
        render_all(base_txns() + [T('Hostile', 'Odd', 'Text', 7.0, 4, 9, desc=d, tags=[d])], {'description': d, 'tags': [d]})
        render_all(base_txns() + [T(d, 'Odd', d, 7.0, 4, 9)], {'names': [d]})
    # merchant names over a small alphabet: all pairs of distinct names of length <= 2 (quick) / 3 (thorough) must stay distinct merchants
    L = 2 if O.tier == 'quick' else 3
    names = [''.join(p) for n in range(1, L + 1) for p in itertools.product(ALPHABET[:8 if O.tier == 'quick' else 12], repeat=n)]
    names = [n for n in names if n.strip()]
    step = 11 if O.tier == 'quick' else 3
    chunk = names[O.seed % step::step]
    for i in range(0, len(chunk), 12):
        part = chunk[i:i + 12]
        render_all(base_txns()[:2] + [T(n, 'Odd', 'Names', 10.0 + j, 4, 1 + j % 27) for j, n in enumerate(part)], {'names': part})
    # the classic collision pairs
    for a, b in (('A B', 'A_B'), ("O'Neil", 'ONeil'), ('X"Y', 'XY'), ('A  B', 'A__B')):
        render_all(base_txns()[:2] + [T(a, 'Odd', 'Names', 10.0, 4, 1), T(b, 'Odd', 'Names', 20.0, 4, 2)], {'names': [a, b]})
    # zero / negative totals in odd places: a merchant whose categories cancel out, only refunds, a category with a positive total while no merchant nets positive
    render_all([T('Amazon', 'Subs', 'Prime', 14.99, 1, 5), T('Amazon', 'Shop', 'Ret', -89.0, 1, 9)], {'case': 'one_merchant_two_categories_net_negative'})
    render_all([T('Amazon', 'Subs', 'Prime', 50.0, 1, 5), T('Amazon', 'Shop', 'Ret', -50.0, 1, 9)], {'case': 'one_merchant_two_categories_net_zero'})
    render_all([T('Returns', 'Shop', 'Ret', -20.0, 3, 9), T('Returns2', 'Shop', 'Ret', -5.0, 3, 10)], {'case': 'only_refunds'})
    render_all([T('Solo', 'Food', 'One', 10.0, 1, 5)], {'case': 'single_transaction'}, views=True)
    render_all([T('Employer', 'Pay', 'Salary', -2000.0, 1, 31, ['income'])], {'case': 'only_income'})
    # collisions of three and more names, and a real merchant named like a suffixed id
    for group in (('A B', 'A_B', "'A_B'"), ("Joe's Cafe", 'Joes Cafe', 'Joes_Cafe_2'), ('Joes_Cafe_2', "Joe's Cafe", 'Joes Cafe'), ('X Y', 'X_Y', "X'_Y", 'X"_Y', 'X_Y_2', 'X_Y_3')):
        render_all(base_txns()[:2] + [T(n, 'Odd', 'Names', 10.0 * (j + 1), 4, 1 + j) for j, n in enumerate(group)], {'names': list(group)})
    # view names that reduce to the same derived id
    for vt in ('[Big Bills]\nfilter: total > 50\n\n[big_bills]\nfilter: total <= 50\n', '[Food]\nfilter: category == "Food"\n\n[food]\nfilter: category != "Food"\n',
               '[A B]\nfilter: total > 50\n\n[a b]\nfilter: total > 10\n\n[a_b]\nfilter: total > 0\n\n[a_b_2]\nfilter: total > 20\n'):
        render_all(base_txns(), {'case': 'colliding_view_names', 'views': vt}, views=vt)
    # extra fields (field: directives) whose value is not a JSON type: a date, a row of a supplemental source (a dict holding a date), a list of them
    for extra in ({'posted': datetime(2025, 1, 2).date()}, {'order': {'id': 7, 'date': datetime(2025, 1, 2).date()}}, {'orders': [{'date': datetime(2025, 1, 2).date()}]}):
        render_all(base_txns() + [T('Dated', 'Odd', 'Fields', 9.0, 4, 9, extra=extra)], {'case': 'extra_field_values', 'extra': repr(extra)})
    O.sample({'description': HOSTILE[0]})
    O.finish()


O.guard(main)
