"""Bounded stand-in / replay oracle for C14: legacy CSV rule files versus their migrated merchants.rules, on the real loaders and
matcher: the migrated file must load and classify every probe transaction (merchant, category, subcategory, tags) like the CSV did."""
import csv
import io
import itertools
import os
import shutil
import tempfile
from datetime import date, timedelta

from oracle_lib import Oracle

from tally import merchant_utils as mu
from tally.merchant_engine import csv_to_merchants_content, parse_merchants

O = Oracle()
TMP = tempfile.mkdtemp(prefix='c14-')
TODAY = date.today()

# (pattern cell, merchant, category, subcategory, tags cell)
ROWS = [
    ('NETFLIX', 'Netflix', 'Subs', 'Stream', ''),
    ('COSTCO[amount>200]', 'Costco Bulk', 'Shopping', 'Wholesale', 'bulk'),
    ('COSTCO', 'Costco', 'Food', 'Grocery', ''),
    ('UBER\\s*EATS', 'Uber Eats', 'Food', 'Delivery', 'delivery|app'),
    ('UBER(?!.*EATS)', 'Uber', 'Transport', 'Ride', ''),
    ('\\bSHELL\\b', 'Shell', 'Transport', 'Gas', ''),
    ('AMAZON[month=12]', 'Amazon Gifts', 'Shopping', 'Gifts', 'holiday'),
    ('AMAZON[amount:50-199.99]', 'Amazon Mid', 'Shopping', 'Online', ''),
    ('AMAZON', 'Amazon', 'Shopping', 'General', ''),
    ('RENT[amount=1500]', 'Rent', 'Bills', 'Housing', ''),
    ('GYM[amount>=30][amount<=60]', 'Gym', 'Health', 'Fitness', ''),
    ('TAX[date:2025-04-01..2025-04-30]', 'Tax', 'Bills', 'Tax', ''),
    ('BDAY[date=2025-06-15]', 'Birthday', 'Gifts', 'Party', ''),
    ('RECENT[date:last30days]', 'Recent', 'Misc', 'New', ''),
    ('SAY "HI"', 'Quote Shop', 'Shopping', 'Odd', ''),
    ('A\\.B\\\\C', 'Backslash', 'Shopping', 'Odd', ''),
    ('TAGGED', 'Tag Only', '', '', 'flag'),
    ('COFFEE|TEA', 'Drinks', 'Food', 'Drinks', 'a|b|c'),
    ('(?i)mixed', 'Mixed', 'Misc', 'Case', ''),
    ('BIG[amount>12345.67]', 'Big', 'Large', 'L', ''),
    ('WIRE[amount<0]', 'Incoming', 'Income', 'Wire', 'income'),
    ("O'BRIEN", "O'Brien Pub", 'Food', 'Pub', ''),
    ('DUP', 'Dup One', 'Cat1', 'S1', ''),
    ('DUP[amount>5]', 'Dup One', 'Cat1', 'S1', 'big'),
    ('#HASH', 'Hash', 'Misc', 'H', ''),
    ('COMMA', 'Comma, Inc', 'Misc', 'C', 'x'),
    ('BRACKET', 'Name [x]', 'Misc', 'B', ''),
    ('SPACE', '  Padded  ', ' Cat ', ' Sub ', ' t1 | t2 '),
    ('UTIL[month=12]', 'Util', 'Bills', 'U', ''),
    ('UTIL[month=1]', 'Util', 'Bills', 'U', ''),
    ('UTIL[amount=77]', 'Util', 'Bills', 'U', ''),
    ('AUTH[amount<1]', 'Card Auth', 'Fees', 'Auth', ''),
    ('ZERO[amount=0]', 'Zero', 'Fees', 'Zero', ''),
    ('SMALL[amount:0-5]', 'Small', 'Fees', 'Small', ''),
    ('GYMB[amount>5][date:last30days]', 'Gym B', 'Health', 'Fitness', ''),       # 34: relative date next to another modifier
    ('PLACEHOLDER', 'Todo', '', '', ''),                                          # 35: no category, no tags: classifies nothing
    ('NONAME', '', 'Food', 'Snacks', ''),                                         # 36: no merchant name
    ('SHORT', 'Short'),                                                           # 37: short row (missing cells are None for the loader)
    ('BLANKCAT', 'Blank', '  ', 'Sub', ''),                                       # 38: blank category
    ('VENMO.*\U0001F355', 'Pizza Pal', 'Food', 'Pizza', 'pizza'),                   # 39: a character outside the Basic Multilingual Plane in the pattern
    ('CAF\u00c9|CR\u00c8ME', 'Cafe', 'Food', 'Coffee', ''),                          # 40: non-ASCII letters
    ('VENMO', 'Venmo', 'Transfer', 'P2P', ''),                                     # 41
    ('contains("NETFLIX")', 'Netflix Expr', 'Subs', 'Stream', 'x'),                 # 42: a CSV pattern that is an expression
    ('startswith("COSTCO") and amount > 100[month=1]', 'Costco Jan', 'Shopping', 'Bulk', ''),   # 43: an expression pattern with a modifier
    ('SCHOOL', 'School', 'Kids', 'Fees', "kid's|school|recurring"),                # 44: an apostrophe in a tag is a character of the tag, the tags after it are tags of their own
    ('TAILOR', 'Tailor', 'Clothes', 'Repair', 'women\'s|men\'s|say "x"|plain'),     # 45
]
DESCS = ['SCHOOL FEES', 'TAILOR SHOP', 'NETFLIX.COM', 'COSTCO WHOLESALE', 'UBER EATS ORDER', 'UBER TRIP', 'SHELL OIL', 'SHELLFISH BAR', 'AMAZON MKTP', 'RENT PAYMENT', 'GYM CLUB', 'TAX OFFICE',
         'BDAY CAKE', 'RECENT THING', 'SAY "HI" STORE', 'A.B\\C LTD', 'TAGGED ITEM', 'GREEN TEA', 'Mixed Case', 'BIG BUY', 'WIRE IN', "O'BRIEN", 'DUP', '#HASH TAG',
         'COMMA', 'BRACKET', 'SPACE', 'UTIL CO', 'AUTH HOLD', 'ZERO FEE', 'SMALL ITEM', 'GYMB CLUB', 'PLACEHOLDER X', 'NONAME X', 'SHORT X', 'BLANKCAT X', 'VENMO PAYMENT \U0001F355 NIGHT', 'CAF\u00c9 PARIS', 'NOTHING']
AMOUNTS = [-20.0, 0.0, 0.5, 77.0, 5.0, 30.0, 49.99, 50.0, 199.99, 200.0, 200.01, 1499.99, 1499.995, 1500.0, 1500.004, 1500.02, 12345.67, 12345.68]
DATES = [date(2025, 1, 15), date(2025, 4, 1), date(2025, 4, 30), date(2025, 5, 1), date(2025, 6, 15), date(2025, 12, 3), TODAY - timedelta(days=3), TODAY - timedelta(days=400)]


def write_csv(rows):
    path = os.path.join(TMP, 'merchant_categories.csv')
    with open(path, 'w', newline='', encoding='utf-8') as f:
        w = csv.writer(f)
        w.writerow(['Pattern', 'Merchant', 'Category', 'Subcategory', 'Tags'])
        for r in rows:
            w.writerow(r)
    return path


def migrate_entry(rows):
    from tally import cli
    d = tempfile.mkdtemp(prefix='c14m-')
    try:
        cfg = os.path.join(d, 'config')
        os.makedirs(cfg)
        p = os.path.join(cfg, 'merchant_categories.csv')
        with open(p, 'w', newline='', encoding='utf-8') as f:
            wr = csv.writer(f)
            wr.writerow(['Pattern', 'Merchant', 'Category', 'Subcategory', 'Tags'])
            for r in rows:
                wr.writerow(r)
        open(os.path.join(cfg, 'settings.yaml'), 'w').write('year: 2025\n')
        import contextlib
        with contextlib.redirect_stdout(io.StringIO()):
            ok = cli._migrate_csv_to_rules(p, cfg, backup=True)
        out = os.path.join(cfg, 'merchants.rules')
        return open(out, encoding='utf-8').read() if ok and os.path.exists(out) else None
    finally:
        shutil.rmtree(d, ignore_errors=True)


def classify(rules, desc, amount, d):
    m, c, s, info = mu.normalize_merchant(desc, rules, amount=amount, txn_date=d)
    return [m, c, s, sorted((info or {}).get('tags', []))]


def check(rows_idx, probes=None):
    rows = [ROWS[i] for i in rows_idx]
    w = {'rows': list(rows_idx), 'patterns': [r[0] for r in rows]}
    O.case(tuple(rows_idx))
    csv_path = write_csv(rows)
    mu.clear_engine_cache()
    csv_rules = mu.get_all_rules(csv_path)
    if not csv_rules:
        return
    try:
        content = csv_to_merchants_content(mu.load_merchant_rules(csv_path))
    except Exception as e:
        O.fail('C14.conversion_crashes', w, 'rules text', '%s: %s' % (type(e).__name__, e))
        return
    rules_path = os.path.join(TMP, 'merchants.rules')
    open(rules_path, 'w', encoding='utf-8').write(content)
    # the migration entry point (tally up --migrate / tally init) must write that same conversion of the whole CSV
    mig = migrate_entry(rows)
    if mig is not None and mig != content:
        O.fail('C14.migration_entry_writes_something_else_than_the_conversion', w, content[-300:], mig[-300:], 'cli._migrate_csv_to_rules vs csv_to_merchants_content(load_merchant_rules(csv))')
        return
    try:
        parse_merchants(content)
    except Exception as e:
        key = 'C14.migrated_file_does_not_load'
        for i in rows_idx:
            r = tuple(ROWS[i]) + ('',) * (5 - len(ROWS[i]))
            if '"' in r[0]:
                key += '.quote_in_pattern'
            elif not r[2].strip() and not r[4].strip():
                key += '.empty_category'
            elif not r[1].strip():
                key += '.empty_merchant'
            elif '[' in r[1] or ']' in r[1]:
                key += '.bracket_in_merchant'
        O.fail(key, w, 'the generated merchants.rules loads', '%s: %s' % (type(e).__name__, e), 'parse_merchants(csv_to_merchants_content(load_merchant_rules(csv)))')
        return
    for desc, amount, d in (probes or itertools.product(DESCS, AMOUNTS, DATES)):
        mu.clear_engine_cache()
        a = classify(mu.get_all_rules(csv_path), desc, amount, d)
        mu.clear_engine_cache()
        b = classify(mu.get_all_rules(rules_path), desc, amount, d)
        mu.clear_engine_cache()
        if a != b:
            pats = [r[0] for r in rows]
            key = 'C14.classification_differs'
            if any('[amount=' in p for p in pats) and abs(amount - 1500) < 0.011 and amount != 1500.0:
                key += '.amount_equals_tolerance'
            elif any('last' in p and 'days' in p for p in pats) and ('RECENT' in desc or 'GYMB' in desc):
                key += '.relative_date_dropped'
            elif any('\\b' in p for p in pats) and 'SHELL' in desc:
                key += '.backslash_escape_in_pattern'
            elif any('\\\\' in p for p in pats) and 'A.B' in desc:
                key += '.backslash_escape_in_pattern'
            elif any(len(r) > 2 and r[2] and not r[2].strip() for r in rows) and isinstance(a[1], str) and a[1] and not a[1].strip() and b[1] == 'Unknown':
                key += '.blank_only_category'
            elif any(len(r) > 1 and not r[1].strip() for r in rows) and a[0] == '' and a[1:] == b[1:]:
                key += '.row_without_merchant_name'
            elif [x.strip() if isinstance(x, str) else x for x in a] == [x.strip() if isinstance(x, str) else x for x in b]:
                key += '.surrounding_blanks_in_names'
            elif any(p.startswith('(') for p in pats) and a[1] == 'Unknown' and len(pats) == 1:
                key += '.paren_pattern_treated_as_expression_by_csv_path'
            elif a[1] == '' and b[1] != '' or (a[3] != b[3] and a[:3] == b[:3]):
                key += '.tags_or_tag_only'
            O.fail(key, dict(w, description=desc, amount=amount, date=str(d)), a, b, 'normalize_merchant with the CSV rules vs with the migrated .rules')
            return


def check_most_specific_setting():
    """a budget whose settings say rule_mode: most_specific: the CSV rules and the migrated file classify alike in that mode too"""
    rows = [('COSTCO', 'Costco', 'Food', 'Grocery', ''), ('COSTCO GAS', 'Costco Gas', 'Transport', 'Gas', '')]
    O.case(('most_specific',))
    csv_path = write_csv(rows)
    content = csv_to_merchants_content(mu.load_merchant_rules(csv_path))
    rules_path = os.path.join(TMP, 'merchants.rules')
    open(rules_path, 'w', encoding='utf-8').write(content)
    mu.clear_engine_cache()
    a = classify(mu.get_all_rules(csv_path, match_mode='most_specific'), 'COSTCO GAS #123', 30.0, date(2025, 1, 15))
    mu.clear_engine_cache()
    b = classify(mu.get_all_rules(rules_path, match_mode='most_specific'), 'COSTCO GAS #123', 30.0, date(2025, 1, 15))
    mu.clear_engine_cache()
    if a != b:
        O.fail('C14.classification_differs.rule_mode_most_specific', {'most_specific': [r[0] for r in rows], 'description': 'COSTCO GAS #123'}, a, b,
               "normalize_merchant with get_all_rules(csv, 'most_specific') vs with the migrated .rules in the same mode")


def main():
    try:
        if O.witness:
            w = O.witness
            probes = None
            if 'most_specific' in w:
                check_most_specific_setting()
                O.finish()
            if 'description' in w:
                y, m, d = [int(x) for x in w['date'].split('-')]
                probes = [(w['description'], w['amount'], date(y, m, d))]
            check(w['rows'], probes)
            O.finish()
        n = len(ROWS)
        for i in range(n):
            check([i])
        # rule files with several rows (order and interaction: first match, duplicates, tag accumulation)
        groups = [[1, 2], [2, 1], [3, 4], [4, 3], [6, 7, 8], [8, 7, 6], [22, 23], [23, 22], [16, 0], [0, 16, 17], [10, 9, 0], [19, 20, 21], [28, 29, 30], [30, 29, 28], [34, 0], [35, 0], [0, 35, 2], [36, 0], [37, 0], [0, 37], [38, 0], [34, 35, 36, 37, 0], [39, 41], [41, 39], [40, 0], [42, 0], [43, 2], [2, 43],
                  [0, 1, 2, 3, 4, 6, 7, 8, 9, 10, 11, 12, 17, 19, 20, 21, 22, 23, 24]]
        for g in groups:
            check(g)
        check_most_specific_setting()
        O.sample({'rows': [1, 2], 'patterns': [ROWS[1][0], ROWS[2][0]]})
    finally:
        shutil.rmtree(TMP, ignore_errors=True)
    O.finish()


O.guard(main)
