"""Bounded stand-in / replay oracle for C03: an escape corpus evaluated on the real loader and evaluators under a
Python audit hook, with before/after comparison of the inputs and the parsed tree; values must be plain data."""
import ast
import copy
import json
import sys
import types
from datetime import date, datetime

from oracle_lib import Oracle

import difflib  # noqa: F401  (loaded before the audit hook is armed in THIS process; the fresh-process check below runs without such help)
import statistics  # noqa: F401

from tally import expr_parser as ep
from tally.merchant_engine import parse_merchants

O = Oracle()
EVENTS = []
ARMED = [False]
BAD_EVENTS = ('open', 'import', 'exec', 'compile', 'os.', 'subprocess', 'socket', 'ctypes', 'shutil', 'pty', 'code.', 'marshal',
              'pickle', 'builtins.input', 'sys._getframe', 'object.__getattr__', 'object.__setattr__', 'object.__delattr__')


def hook(event, args):
    if ARMED[0] and event.startswith(BAD_EVENTS):
        if event == 'compile' and args and args[1] == '<unknown>':
            return      # ast.parse itself reports a compile event for the expression text
        EVENTS.append(event)


sys.addaudithook(hook)

ESCAPES = [
    '().__class__', '().__class__.__bases__', '"".__class__.__mro__', 'description.__class__', 'amount.__class__', '(1).real', 'amount.real',
    '__import__("os")', '__import__("os").system("true")', 'open("/etc/passwd")', 'eval("1")', 'exec("1")', 'compile("1","","eval")',
    'globals()', 'locals()', 'vars()', 'dir()', 'getattr(description, "upper")', 'type(description)', 'help', 'print', 'print("x")',
    'lambda: 1', '(lambda x: x)(1)', '[x for x in ().__class__.__base__.__subclasses__()]', '"{0.__class__}".format(description)',
    '"%s" % description', 'f"{description.__class__}"', 'description.format', 'description.format(1)', 'description.__len__()',
    'description.upper.__self__', 'field.__class__', 'field.kind.__class__', 'txn.__class__', 'txn.__dict__', 'orders.__class__',
    'orders[0].__class__', '[r.__class__ for r in orders]', 'any(r.__init__ for r in orders)', 'next(r for r in orders).keys',
    'next(r for r in orders).keys()', 'orders.append(1)', 'orders.clear()', 'orders[0].update', 'orders[0].pop("id")', 'field.pop("kind")',
    'self', 'self.ctx', 'ctx', 'node', 'ast', 're', 'statistics', 'warnings', 're.compile("a")', 'ast.dump(1)', 'variables', 'data_sources',
    'get_function', 'get_function("abs")', 'from_transaction', '_fn_regex', '_fn_contains("a")', '__class__', '__init__', '__slots__',
    '__reduce_ex__', '__dict__', '__builtins__', '__name__', '_scope', '_FUNCTION_NAMES', 'evaluate', 'trim(get_function)', 'uppercase(__class__)',
    'exists(from_transaction)', 'str', 'str(1)', 'int("1")', 'float("1")', 'bool(1)', 'list(orders)', 'dict(a=1)', 'set(orders)', 'tuple(orders)',
    'type', 'object', 'object()', 'Exception', 'abs', 'abs.__self__', 'round.__class__', 'abs.__call__(1)', 'contains', 'contains.__func__',
    'regex.__globals__', 'regex.__code__', '[1, 2]', '(1, 2)', '{1: 2}', '{1, 2}', '*orders', 'orders[0:1]', 'orders[::-1]', 'amount ** 2',
    '1 << 2', 'amount // 2', '~1', 'amount is None', 'amount if True else open', '(x := open)', '(x := __import__)', 'yield 1', 'await x',
    '1; import os', 'import os', 'from os import system', 'a = 1', 'del description', 'assert False', 'raise Exception', 'breakpoint()',
    'input()', 'exit()', 'quit', 'copyright', 'license', 'memoryview(b"a")', 'bytes(1)', 'bytearray(1)', 'setattr(txn, "a", 1)',
    'delattr(txn, "a")', 'hasattr(txn, "a")', 'isinstance(1, int)', 'issubclass(int, int)', 'callable(abs)', 'id(1)', 'hash(1)', 'iter(orders)',
    'next(iter(orders))', 'map(abs, orders)', 'filter(None, orders)', 'zip(orders)', 'sorted(orders)', 'reversed(orders)', 'enumerate(orders)',
    'range(3)', 'slice(1)', 'super()', 'classmethod(abs)', 'property(abs)', 'staticmethod(abs)', 'max.__self__', 'sum.__self__.__dict__',
]
BENIGN = [
    # patterns the regular-expression compiler warns about ('possible nested set'): a warning would be printed and the warnings machinery would read a source file
    'regex("[[a]")', 'extract("[[a](b)") == ""', 'regex_replace(description, "[[a]", "") != ""',
    'contains("NETFLIX")', 'amount > 5 and month == 1', 'description', 'amount', 'date', 'field.kind', 'txn.amount', 'source', 'weekday',
    '[r.item for r in orders if r.id == "77"]', 'sum(r.qty for r in orders)', 'len(orders)', 'any(r.id == "1" for r in orders)',
    'next((r.item for r in orders), "none")', 'orders[0].item', 'extract("(\\\\d+)")', 'split(" ", 0)', 'regex_replace(description, "N", "M")',
    'uppercase(field.kind)', '(m := [r for r in orders]) and len(m) > 0', 'max(1, 2)', 'min(r.qty for r in orders)', 'abs(amount)', 'round(amount)',
    'description.lower()', 'description.replace("N", "X")', 'true', 'exists(field.kind)', 'fuzzy("NETFLX")', 'normalized("NETFLIX")',
    # attributes of values (dates, strings, rows): data or ExpressionError, never a method object; comparisons leave the parsed tree alone
    'txn.date.weekday', 'date.weekday', 'txn.date.year', 'date.month', 'date.day', 'txn.date.isoformat', 'date.replace', 'description.upper', 'field.kind.lower',
    'trim(date.weekday)', 'trim(txn.date.year)', '[r.when.weekday for r in orders]', 'orders[0].when.year', 'orders[0].item.upper',
    'date >= "2025-01-01"', '"2025-01-01" <= date', 'date == "2025-01-06"', 'date >= "2025-01-01" and date < "2026-01-01"', 'label >= "2025-01-01"',
    '[r.item for r in orders if r.when >= "2025-01-01"]',
]
SECTION_EXPRS = ['total > 5', 'months', 'tags', 'payments', 'category', 'cv', 'sum(by("month"))', 'max(sum(by("month")))', 'period("month")',
                 'self', 'ctx', 'functions', 'get_function', 'transactions', 'variables', 'period_data', '__class__', 'payments.__class__',
                 'tags.add("x")', 'payments.append(1)', 'by.__self__', 'sum.__self__', 'round.__class__', 'max_val.__func__']


def is_plain(v, depth=0):
    if depth > 6:
        return True
    if v is None or isinstance(v, (bool, int, float, str, date, datetime)):
        return True
    if isinstance(v, (list, tuple, set, frozenset)):
        rs = [is_plain(x, depth + 1) for x in v]
        return 'generator' if 'generator' in rs else all(r is True for r in rs)
    if isinstance(v, dict):
        rs = [is_plain(k, depth + 1) for k in v] + [is_plain(x, depth + 1) for x in v.values()]
        return 'generator' if 'generator' in rs else all(r is True for r in rs)
    if isinstance(v, types.GeneratorType):
        return 'generator'
    return False


def leaky(s):
    s = s.lower()
    return any(tok in s for tok in ('<bound method', '<function', '<class ', '<built-in', '<module', 'object at 0x', '<slot wrapper', '<method',
                                    '<generator object'))


def fresh_inputs():
    txn = {'description': 'NETFLIX.COM 77', 'amount': 15.5, 'date': date(2025, 1, 6), 'field': {'kind': 'Wire'}, 'source': 'Amex', 'location': 'X'}
    rows = {'orders': [{'id': '77', 'item': 'Cable', 'qty': 2, 'when': date(2025, 1, 2)}, {'id': '78', 'item': 'Mouse', 'qty': 1, 'when': date(2024, 12, 30)}]}
    variables = {'big': True, 'label': 'x'}
    return txn, rows, variables


def run_txn(expr):
    txn, rows, variables = fresh_inputs()
    snap = copy.deepcopy((txn, rows, variables))
    w = {'evaluator': 'transaction', 'expr': expr}
    O.case(('txn', expr))
    del EVENTS[:]
    ARMED[0] = True
    try:
        try:
            tree = ep.parse_expression(expr)
        except ep.ExpressionError:
            tree = None
        dump0 = ast.dump(tree) if tree is not None else None
        outcome = None
        if tree is not None:
            try:
                v = ep.evaluate_transaction(expr, txn, variables=variables, data_sources=rows)
                outcome = ('value', v)
            except ep.ExpressionError:
                outcome = ('ExpressionError',)
            except BaseException as e:       # C08's business; not a confinement failure by itself
                outcome = ('other', type(e).__name__)
    finally:
        ARMED[0] = False
    if EVENTS:
        O.fail('C03.audit_event', w, 'no file/process/import/exec/compile activity', sorted(set(EVENTS)))
    if (txn, rows, variables) != snap:
        O.fail('C03.inputs_mutated', w, 'transaction, rows and variables unchanged', repr((txn, rows, variables))[:300])
    if tree is not None and ast.dump(tree) != dump0:
        O.fail('C03.parsed_tree_mutated', w, dump0[:200], ast.dump(tree)[:200])
    if outcome and outcome[0] == 'value':
        p = is_plain(outcome[1])
        if p is False:
            O.fail('C03.non_data_value', w, 'plain data or ExpressionError', repr(outcome[1])[:200])
        elif p == 'generator':
            O.fail('C03.generator_value', w, 'plain data or ExpressionError', repr(outcome[1])[:80].split(' at ')[0])
        elif isinstance(outcome[1], str) and leaky(outcome[1]):
            O.fail('C03.interpreter_repr_in_string', w, 'no interpreter internals inside strings', outcome[1][:200])


def run_positions(expr):
    """the same text as match / let / tag / field / transform / variable of a rules file"""
    txn, rows, variables = fresh_inputs()
    w = {'evaluator': 'rules_file', 'expr': expr}
    text = ('v = %s\nfield.memo = %s\n\n[R]\nlet: x = %s\nmatch: contains("NETFLIX") or (%s)\ncategory: C\nsubcategory: S\n'
            'tags: t, {%s}\nfield: extra = %s\n' % (expr, expr, expr, expr, expr, expr))
    O.case(('file', expr))
    del EVENTS[:]
    ARMED[0] = True
    res = None
    try:
        try:
            eng = parse_merchants(text)
        except Exception:
            eng = None
        if eng is not None:
            try:
                res = eng.match(txn, data_sources=rows)
            except Exception:
                res = None
    finally:
        ARMED[0] = False
    if EVENTS:
        O.fail('C03.audit_event.rules_file', w, 'no file/process/import/exec/compile activity', sorted(set(EVENTS)))
    if res is not None:
        for t in res.tags:
            if leaky(t) or 'generator object' in t:
                key = 'C03.generator_repr_in_tag' if 'generator object' in t else 'C03.interpreter_repr_in_tag'
                O.fail(key, w, 'tags are data values', t.split(' at 0x')[0][:120])
        for k, v in res.extra_fields.items():
            p = is_plain(v)
            if p is False:
                O.fail('C03.non_data_field_value', w, 'plain data', repr(v)[:120])


def run_section(expr):
    txns = [{'amount': 10.0, 'date': datetime(2025, 1, 15), 'category': 'C', 'subcategory': 'S', 'merchant': 'M', 'tags': ['a']}]
    snap = copy.deepcopy(txns)
    w = {'evaluator': 'section', 'expr': expr}
    O.case(('section', expr))
    del EVENTS[:]
    ARMED[0] = True
    outcome = None
    try:
        try:
            ctx = ep.create_context(transactions=txns, num_months=12, variables={'k': 1}, period_data={'month': 3})
            outcome = ('value', ep.evaluate(expr, ctx))
        except ep.ExpressionError:
            outcome = ('ExpressionError',)
        except BaseException as e:
            outcome = ('other', type(e).__name__)
    finally:
        ARMED[0] = False
    if EVENTS:
        O.fail('C03.audit_event.section', w, 'no activity', sorted(set(EVENTS)))
    if txns != snap:
        O.fail('C03.section_inputs_mutated', w, snap, txns)
    if outcome[0] == 'value' and is_plain(outcome[1]) is False:
        O.fail('C03.section_non_data_value', w, 'plain data or ExpressionError', repr(outcome[1])[:200])


FRESH = r"""
import sys, json
from tally import expr_parser as ep, merchant_engine
from datetime import date
exprs = json.loads(sys.argv[1])
trees = [ep.parse_expression(e) for e in exprs]
events = []
def hook(event, args):
    if event in ('import', 'open', 'exec', 'compile', 'os.system', 'subprocess.Popen'):
        events.append([event, str(args[0])[:80] if args else ''])
sys.addaudithook(hook)
txn = {'description': 'STARBUCKS STORE 12', 'amount': 5.0, 'date': date(2025, 1, 2), 'field': {'memo': 'x'}, 'source': 'S'}
for t in trees:
    try:
        ep.evaluate_transaction_ast(t, txn, data_sources={'orders': [{'item': 'a', 'amount': 5.0}]})
    except ep.ExpressionError:
        pass
print(json.dumps(events))
"""


def check_fresh_process():
    """every documented function evaluated in a process that has only imported the package: evaluation itself imports nothing, opens nothing, compiles and
    executes nothing (a module imported lazily inside a function would do all of that on the first transaction)"""
    import subprocess
    import sys as _sys
    exprs = ['fuzzy("STARBUCKS")', 'fuzzy("STARBUX", 0.7)', 'contains("STAR")', 'regex("ST.R")', 'normalized("starbucks")', 'anyof("A", "STARBUCKS")', 'startswith("STAR")',
             'extract("STORE (\\d+)")', 'split(" ", 1)', 'substring(0, 4)', 'trim(field.memo)', 'uppercase(field.memo)', 'regex_replace(description, "\\d+", "#")',
             'strip_prefix(description, "STAR")', 'exists(field.memo)', 'month == 1 and weekday >= 0', 'date >= "2025-01-01"', 'sum(r.amount for r in orders) > 1',
             'round(amount) + abs(amount)', 'len([r for r in orders]) == 1', 'regex("[[b]")', 'extract("[[b](c)")', 'regex_replace(description, "[[c]", "")']
    O.case(('fresh_process',))
    p = subprocess.run([_sys.executable, '-c', FRESH, json.dumps(exprs)], capture_output=True, text=True, timeout=120)
    if p.returncode != 0:
        O.fail('C03.fresh_process_failed', {'evaluator': 'fresh_process'}, 'runs', p.stderr[-300:])
        return
    events = json.loads(p.stdout.strip().splitlines()[-1])
    if events:
        O.fail('C03.audit_event.first_evaluation_in_a_fresh_process', {'evaluator': 'fresh_process', 'expressions': exprs}, 'no import / open / exec / compile while evaluating',
               events[:6], 'python -c: import tally, parse, install sys.addaudithook, evaluate')


def main():
    if O.witness and O.witness.get('evaluator') == 'fresh_process':
        check_fresh_process()
        O.finish()
    if O.witness:
        w = O.witness
        if w['evaluator'] == 'transaction':
            run_txn(w['expr'])
        elif w['evaluator'] == 'section':
            run_section(w['expr'])
        else:
            run_positions(w['expr'])
        O.finish()
    # literals that are not data of the language: the Ellipsis singleton, bytes, complex numbers
    odd = ['...', '"%s" % ...', 'b"x"', '1j', '[... for r in orders]', 'trim(...)', '1j * amount']
    gen = ['(c for c in description)', 'uppercase((x for x in orders))', 'trim((r.item for r in orders))',
           # a generator that is not the direct argument of a consuming function: an element of a comprehension, an operand, the value of :=, inside a list
           '[(r.item for r in orders) for x in orders]', '"%s" % (r.item for r in orders)', 'trim([(r.item for r in orders) for x in orders])',
           '(g := (r.item for r in orders)) and g', '[x for x in [(r.item for r in orders)]]' if False else '((r.item for r in orders) if true else 0)',
           'len([(r.item for r in orders) for x in orders]) == 2 and [(r.item for r in orders) for x in orders][0]', '"a" + str((r.item for r in orders))' if False else 'lowercase((r.item for r in orders))']
    for e in ESCAPES + BENIGN + gen + odd:
        run_txn(e)
        run_positions(e)
    for e in SECTION_EXPRS + ESCAPES[:40]:
        run_section(e)
    check_fresh_process()
    O.sample({'evaluator': 'transaction', 'expr': '().__class__.__bases__'})
    O.finish()


O.guard(main)
