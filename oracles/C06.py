"""Bounded stand-in / replay oracle for C06 (never counted as proved).

Spec (written from the property statement): bucket chosen by lower-cased tag membership in the
precedence income > investment > transfer, then the sign; conservation; group sums; permutation and
partition invariance.  Amounts are multiples of 0.25 so float sums are exact.
"""
import itertools
from datetime import datetime

from oracle_lib import Oracle

from tally import classification as cl
from tally.analyzer import analyze_transactions

O = Oracle()
BUCKETS = ['income', 'investment', 'transfer_in', 'transfer_out', 'spending', 'credits']


def spec_bucket(amount, tags):
    low = {t.lower() for t in (tags or [])}
    if 'income' in low:
        return 'income'
    if 'investment' in low:
        return 'investment'
    if 'transfer' in low:
        return 'transfer_in' if amount > 0 else 'transfer_out'
    return 'spending' if amount > 0 else 'credits'


def spec_effective(amount, tags):
    low = {t.lower() for t in (tags or [])}
    return abs(amount) if ('income' in low or 'investment' in low) else amount


def check_single(amount, tags):
    w = {'fn': 'categorize_amount', 'amount': amount, 'tags': tags}
    O.case(('single', amount, tuple(tags) if tags is not None else None))
    got = cl.categorize_amount(amount, tags)
    want = {b: 0.0 for b in BUCKETS}
    want[spec_bucket(amount, tags)] = abs(amount)
    if got != want:
        O.fail('categorize_amount', w, want, got, 'tally.classification.categorize_amount(amount, tags)')
    if cl.normalize_amount(amount, tags) != spec_effective(amount, tags):
        O.fail('normalize_amount', w, spec_effective(amount, tags), cl.normalize_amount(amount, tags))
    low = {t.lower() for t in (tags or [])}
    for fn, tag in ((cl.is_income, 'income'), (cl.is_investment, 'investment'), (cl.is_transfer, 'transfer')):
        if bool(fn(tags)) != (tag in low):
            O.fail(fn.__name__, w, tag in low, fn(tags))
    exc = bool(low & {'income', 'investment', 'transfer'})
    if bool(cl.is_excluded_from_spending(tags)) != exc:
        O.fail('is_excluded_from_spending', w, exc, cl.is_excluded_from_spending(tags))


def mk(i, merchant, cat, sub, amount, tags, month, day=3, source='S'):
    return {'merchant': merchant, 'category': cat, 'subcategory': sub, 'amount': amount, 'tags': list(tags),
            'date': datetime(2025, month, day), 'description': 'D%d' % i, 'source': source}


POOL = [
    mk(0, 'Venmo', 'Misc', 'P2P', 40.0, [], 1),
    mk(1, 'Venmo', 'Misc', 'P2P', 25.5, ['Transfer'], 1),
    mk(2, 'Acme', 'Pay', 'Salary', -1000.0, ['income'], 2),
    mk(3, 'Acme', 'Shop', 'Tools', 12.25, [], 2),
    mk(4, 'Fidelity', 'Save', 'IRA', -300.0, ['investment', 'transfer'], 3),
    mk(5, 'Store', 'Shop', 'Tools', -7.75, ['refund'], 1),
    mk(6, 'Bank', 'Move', 'X', -60.0, ['TRANSFER'], 3),
    mk(7, 'Store', 'Shop', 'Tools', 0.5, ['INCOME', 'transfer'], 12),
    mk(8, 'Venmo', 'Misc', 'P2P', 5.0, ['transfer', 'income'], 2),
    mk(9, 'Bank', 'Move', 'X', 80.0, ['investment'], 3),
    # one merchant whose money is split EXACTLY evenly between two categories (45 + 15 against 60; a purchase and its refund filed differently):
    # whichever category the merchant is filed under, it is the same one for every order of the transactions (indices 10..13, used by the tie cases only)
    mk(10, 'Tie', 'Shop', 'Tools', 45.0, [], 4),
    mk(11, 'Tie', 'Shop', 'Tools', 15.0, [], 5),
    mk(12, 'Tie', 'Food', 'Out', 60.0, [], 4),
    mk(13, 'Tie', 'Auto', 'Fuel', -60.0, ['refund'], 6),
    # a transaction whose description is blank (a description template filled from blank cells) counts like any other, in every grouping
    dict(mk(14, 'Blank', 'Misc', 'None', 30.0, [], 7), description=' ', raw_description=' '),
    dict(mk(15, 'Blank', 'Misc', 'None', 12.5, [], 8), description='', raw_description=''),
]


def spec_stats(txns):
    s = {b: 0.0 for b in BUCKETS}
    bm, bc, bmo = {}, {}, {}
    for t in txns:
        s[spec_bucket(t['amount'], t['tags'])] += abs(t['amount'])
        e = spec_effective(t['amount'], t['tags'])
        for d, k in ((bm, t['merchant']), (bc, (t['category'], t['subcategory'])), (bmo, t['date'].strftime('%Y-%m'))):
            tot, cnt = d.get(k, (0.0, 0))
            d[k] = (tot + e, cnt + 1)
    return s, bm, bc, bmo


def view(st):
    return {
        'income_total': st['income_total'], 'investment_total': st['investment_total'],
        'transfers_in': st['transfers_in'], 'transfers_out': st['transfers_out'],
        'spending_total': st['spending_total'], 'credits_total': st['credits_total'],
        'cash_flow': st['cash_flow'], 'transfers_net': st['transfers_net'], 'count': st['count'],
        'total_transactions': st['total_transactions'],
        'by_merchant': {k: (v['total'], v['count']) for k, v in st['by_merchant'].items()},
        'by_category': {'|'.join(k): (v['total'], v['count']) for k, v in st['by_category'].items()},
        'by_month': dict(st['by_month']),
    }


def copy_txns(idx):
    return [dict(POOL[i], tags=list(POOL[i]['tags'])) for i in idx]


def check_list(idx):
    O.case(('list',) + tuple(idx))
    txns = copy_txns(idx)
    w = {'fn': 'analyze_transactions', 'pool_indices': list(idx)}
    st = analyze_transactions(txns)
    s, bm, bc, bmo = spec_stats(txns)
    got = view(st)
    names = {'income': 'income_total', 'investment': 'investment_total', 'transfer_in': 'transfers_in',
             'transfer_out': 'transfers_out', 'spending': 'spending_total', 'credits': 'credits_total'}
    for b, f in names.items():
        if got[f] != s[b]:
            O.fail('analyze.total.' + f, w, s[b], got[f], 'analyze_transactions(txns)[%r]' % f)
    if got['cash_flow'] != s['income'] - s['spending'] + s['credits']:
        O.fail('analyze.cash_flow', w, s['income'] - s['spending'] + s['credits'], got['cash_flow'])
    if got['transfers_net'] != s['transfer_in'] - s['transfer_out']:
        O.fail('analyze.transfers_net', w, s['transfer_in'] - s['transfer_out'], got['transfers_net'])
    if got['count'] != len(txns):
        O.fail('analyze.count', w, len(txns), got['count'])
    eff_total = sum(spec_effective(t['amount'], t['tags']) for t in txns)
    if got['total_transactions'] != eff_total:
        O.fail('analyze.total_transactions', w, eff_total, got['total_transactions'])
    if got['by_merchant'] != {k: v for k, v in bm.items()}:
        O.fail('analyze.by_merchant', w, bm, got['by_merchant'])
    if got['by_category'] != {'|'.join(k): v for k, v in bc.items()}:
        O.fail('analyze.by_category', w, {'|'.join(k): v for k, v in bc.items()}, got['by_category'])
    if got['by_month'] != {k: v[0] for k, v in bmo.items()}:
        O.fail('analyze.by_month', w, {k: v[0] for k, v in bmo.items()}, got['by_month'])
    for name, d in (('by_merchant', got['by_merchant']), ('by_category', got['by_category'])):
        if sum(v[0] for v in d.values()) != eff_total or sum(v[1] for v in d.values()) != len(txns):
            O.fail('analyze.groupsum.' + name, w, (eff_total, len(txns)),
                   (sum(v[0] for v in d.values()), sum(v[1] for v in d.values())))
    if sum(got['by_month'].values()) != eff_total:
        O.fail('analyze.groupsum.by_month', w, eff_total, sum(got['by_month'].values()))
    return got


def check_perm_split(idx):
    base = view(analyze_transactions(copy_txns(idx)))
    base_cat = {k: (v['category'], v['subcategory']) for k, v in analyze_transactions(copy_txns(idx))['by_merchant'].items()}
    for perm in itertools.permutations(idx):
        if perm == tuple(idx):
            continue
        O.case(('perm',) + perm)
        g = view(analyze_transactions(copy_txns(perm)))
        if g != base:
            O.fail('analyze.permutation', {'fn': 'analyze_transactions', 'pool_indices': list(idx), 'permuted': list(perm)}, base, g)
        # the category a merchant is filed under (views and the HTML category view attribute the merchant's whole total to it)
        gc = {k: (v['category'], v['subcategory']) for k, v in analyze_transactions(copy_txns(perm))['by_merchant'].items()}
        if gc != base_cat:
            O.fail('C06.merchant_category_depends_on_transaction_order', {'fn': 'analyze_transactions', 'pool_indices': list(idx), 'permuted': list(perm)}, base_cat, gc,
                   "analyze_transactions(txns)['by_merchant'][m]['category'] for two orders of the same transactions")
    flow = ['income_total', 'investment_total', 'transfers_in', 'transfers_out', 'spending_total', 'credits_total', 'count', 'total_transactions']
    for cut in range(1, len(idx)):
        O.case(('split', cut) + tuple(idx))
        a = view(analyze_transactions(copy_txns(idx[:cut])))
        b = view(analyze_transactions(copy_txns(idx[cut:])))
        for f in flow:
            if a[f] + b[f] != base[f]:
                O.fail('analyze.partition.' + f, {'fn': 'analyze_transactions', 'pool_indices': list(idx), 'split_at': cut}, base[f], a[f] + b[f])


def run_witness(w):
    if w.get('fn') == 'categorize_amount':
        check_single(w['amount'], w['tags'])
    else:
        idx = w['pool_indices']
        check_list(idx)
        check_perm_split(idx)


def main():
    if O.witness:
        run_witness(O.witness)
        O.finish()
    tags_pool = ['income', 'Income', 'INVESTMENT', 'investment', 'transfer', 'Transfer', 'groceries']
    amounts = [-5.0, -0.25, 0.0, 2.5, 100.0]
    maxlen = 3 if O.tier == 'quick' else 4
    for n in range(0, maxlen + 1):
        for tags in itertools.permutations(tags_pool, n):
            for a in amounts:
                check_single(a, list(tags))
    check_single(3.0, None)
    O.sample({'categorize_amount': {'amount': 2.5, 'tags': ['Transfer', 'income']}})
    pool_n = 8 if O.tier == 'quick' else 10
    maxl = 3 if O.tier == 'quick' else 4
    for n in range(0, maxl + 1):
        for idx in itertools.product(range(pool_n), repeat=n):
            check_list(list(idx))
            if n >= 2 and list(idx) == sorted(idx):
                check_perm_split(list(idx))
    for idx in ([14], [15], [0, 14, 15], [14, 3, 15, 2]):
        check_list(idx)
    for idx in ([10, 11, 12], [12, 13], [10, 11, 12, 13], [3, 10, 11, 12]):
        check_list(idx)
        check_perm_split(idx)
    O.sample({'analyze_transactions': {'pool_indices': [0, 1, 4]}})
    O.finish()


O.guard(main)
