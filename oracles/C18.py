"""Bounded stand-in / replay oracle for C18: exhaustive small arrangements of format tokens through the real parser
against a positional specification, rejection cases, and the `tally inspect` suggestion round trip."""
import contextlib
import io
import itertools
import os
import re
import shutil
import tempfile
import types

from oracle_lib import Oracle

from tally.format_parser import parse_format_string
from tally.commands.inspect import cmd_inspect

O = Oracle()

# token kind -> spellings (all must mean the same)
KINDS = {
    'date': ['{date:%m/%d/%Y}', '{Date:%Y-%m-%d}', ' { date } '.replace(' ', '') + '', '{date}', '{DATE:%d.%m.%y}'],
    'description': ['{description}', '{Description}', '  {description}  '],
    'amount': ['{amount}', '{-amount}', '{+amount}', '{Amount}', '{-AMOUNT}'],
    'location': ['{location}', '{LOCATION}'],
    'skip': ['{_}', '{*}'],
    'kind': ['{kind}', '{Kind}'],
    'memo': ['{memo}'],
}


def template_fields(t, depth=0):
    """the keys str.format(**captures) looks up for template t, read off its replacement-field grammar ({{ and }} are literal braces; a field is
    name[!conversion][:format spec], the name taken verbatim - blanks, dots and brackets included; a format spec may itself contain replacement
    fields, {name:>{width}}, and those are looked up too); None for a template str.format cannot read"""
    out, i = [], 0
    while i < len(t):
        c = t[i]
        if c == '{':
            if depth == 0 and t[i + 1:i + 2] == '{':
                i += 2
                continue
            level, j = 1, i + 1
            while j < len(t) and level:
                level += {'{': 1, '}': -1}.get(t[j], 0)
                j += 1
            if level:
                return None
            field = t[i + 1:j - 1]
            head = field.split('{')[0]
            name = head.split('!')[0].split(':')[0]
            if '{' in name or '}' in name:
                return None
            before_spec = head.split(':')[0]
            if '!' in before_spec and len(before_spec.split('!', 1)[1]) != 1:
                return None           # a conversion is one character, followed by ':' or the end of the field
            out.append(name)
            if ':' in field:
                inner = template_fields(field.split(':', 1)[1], depth + 1)
                if inner is None:
                    return None
                out.extend(inner)
            elif '{' in field:
                return None
            i = j
        elif c == '}':
            if depth == 0 and t[i + 1:i + 2] == '}':
                i += 2
                continue
            return None
        else:
            i += 1
    return out


def spec(tokens, template):
    """expected FormatSpec fields, or 'error'"""
    pos, caps = {}, {}
    date_format, neg, ab = '%m/%d/%Y', False, False
    for i, t in enumerate(tokens):
        m = re.fullmatch(r'\{([-+]?)(\w+|\*)(?::([^}]+))?\}', t.strip())
        if not m:
            return 'error'
        sign, name, fmt = m.group(1), m.group(2).lower(), m.group(3)
        if name in ('_', '*'):
            continue
        if name in ('date', 'amount', 'location', 'description', 'field'):
            if name in pos:
                return 'error'
            pos[name] = i
            if name == 'date' and fmt:
                date_format = fmt
            if name == 'amount':
                if sign == '-':
                    neg = True
                elif sign == '+':
                    ab = True
        else:
            if name in caps:
                return 'error'
            caps[name] = i
    if 'date' not in pos or 'amount' not in pos:
        return 'error'
    has_desc = 'description' in pos
    if not has_desc and not caps:
        return 'error'
    if not has_desc and caps and not template:
        return 'error'
    extra = caps if (has_desc and caps) else None
    custom = caps if (not has_desc and caps) else None
    if template:
        refs = template_fields(template)
        if refs is None or any(ref not in (custom or {}) for ref in refs):
            return 'error'
    return {'date_column': pos['date'], 'date_format': date_format, 'amount_column': pos['amount'], 'description_column': pos.get('description'),
            'location_column': pos.get('location'), 'custom_captures': custom, 'extra_fields': extra, 'negate_amount': neg, 'abs_amount': ab}


def check(tokens, template):
    fmt = ','.join(tokens)
    w = {'format': fmt, 'template': template}
    O.case((fmt, template))
    want = spec(tokens, template)
    try:
        s = parse_format_string(fmt, template)
        got = {k: getattr(s, k) for k in ('date_column', 'date_format', 'amount_column', 'description_column', 'location_column',
                                          'custom_captures', 'extra_fields', 'negate_amount', 'abs_amount')}
    except ValueError:
        got = 'error'
    except Exception as e:
        O.fail('C18.wrong_exception', w, 'ValueError or a FormatSpec', '%s: %s' % (type(e).__name__, e))
        return
    if got != want:
        key = 'C18.accepts_invalid' if want == 'error' else ('C18.rejects_valid' if got == 'error' else 'C18.positions')
        O.fail(key, w, want, got, 'parse_format_string(format, template)')


def inspect_roundtrip(headers):
    tmp = tempfile.mkdtemp(prefix='c18-')
    try:
        path = os.path.join(tmp, 'x.csv')
        with open(path, 'w') as f:
            f.write(','.join(headers) + '\n')
            f.write(','.join('01/05/2025' if 'ate' in h else ('4.50' if ('mount' in h or 'ebit' in h) else 'v') for h in headers) + '\n')
        w = {'headers': headers}
        O.case(('inspect',) + tuple(headers))
        buf = io.StringIO()
        args = types.SimpleNamespace(file=path, rows=2)
        try:
            with contextlib.redirect_stdout(buf), contextlib.redirect_stderr(io.StringIO()):
                cmd_inspect(args)
        except SystemExit:
            return
        except Exception as e:
            O.fail('C18.inspect_crashes', w, 'report', '%s: %s' % (type(e).__name__, e))
            return
        out = buf.getvalue()
        m = re.search(r'format: "([^"]*)"', out[out.find('Suggested format string'):]) if 'Suggested format string' in out else None
        if not m:
            return      # inspect could not auto-detect: no suggestion to round-trip
        rep = {}
        for key, pat in (('date', r'Date column: (\d+)'), ('description', r'Description column: (\d+)'), ('amount', r'Amount column: (\d+)')):
            mm = re.search(pat, out)
            rep[key] = int(mm.group(1)) if mm else None
        try:
            s = parse_format_string(m.group(1))
        except ValueError as e:
            O.fail('C18.inspect_suggestion_rejected', w, 'accepted by parse_format_string', 'ValueError: %s (suggestion %r)' % (e, m.group(1)))
            return
        got = {'date': s.date_column, 'description': s.description_column, 'amount': s.amount_column}
        if got != rep:
            O.fail('C18.inspect_suggestion_selects_other_columns', w, rep, got)
        # the reported columns are the ones whose header names the role (distinct columns)
        if len(set(rep.values())) != 3:
            O.fail('C18.inspect_roles_share_a_column', w, 'three distinct columns', rep)
    finally:
        shutil.rmtree(tmp, ignore_errors=True)


# spellings of a template reference that str.format accepts: a reference to a column that is not captured must be refused in every one of them
TEMPLATE_SPELLINGS = ('{kind:>8}', '{kind!s}', '{kind!r:>4}', '{memo:>8} {kind}', '{memo!s}', '{ kind }', '{}', '{0}', '{kind} {}', '{kind.upper}', '{kind[0]}',
                      '{kind} {{literal}}', '{kind} {', '{kind} }', 'plain text',
                      # column names are stored in lower case and str.format looks names up as written: a reference in another letter case names no captured column
                      '{Kind}', '{KIND} - {memo}', '{kind} {Memo}',
                      # replacement fields nested in a format spec are looked up too
                      '{kind:{w}}', '{kind:{}}', '{kind:>{memo}}', '{kind:{kind}}', '{kind:{w}} {memo}', '{memo:<{kind}}{kind:^{w}}')


def check_templates_expand():
    """every template parse_format_string accepts can be expanded for every row (reading the file never fails on the template)"""
    for fmt in ('{date},{kind},{amount}', '{date},{kind},{memo},{amount}', '{date},{0},{memo},{amount}', '{date},{1},{amount}'):
        # ({0} names the column called 0 in the format string; in a template str.format reads {0} as its first positional argument, which does not exist)
        for template in ('{kind}', '{kind} - {memo}', '{0}', '{0} {memo}', '{1}') + TEMPLATE_SPELLINGS:
            O.case(('expand', fmt, template))
            try:
                sp_ = parse_format_string(fmt, template)
            except ValueError:
                continue
            err = None
            for val in ('v', '8'):          # a nested format spec takes its value from a cell: whether THAT is a format spec depends on the row, not on the template
                caps = {k: val for k in (sp_.custom_captures or {})}
                try:
                    sp_.description_template.format(**caps)
                    err = None
                    break
                except Exception as e_:
                    err = e_
            if err is not None:
                e = err
                O.fail('C18.accepted_template_cannot_be_expanded', {'format': fmt, 'template': template}, 'template.format(**captures) works for a row', '%s: %s' % (type(e).__name__, e),
                       'parse_format_string accepts the template; parsers.parse_generic_csv expands it with str.format(**captures)')


def main():
    if O.witness:
        w = O.witness
        if 'headers' in w:
            inspect_roundtrip(w['headers'])
        else:
            check(w['format'].split(','), w['template'])
        O.finish()
    kinds = list(KINDS)
    maxlen = 5 if O.tier == 'quick' else 6
    n = 0
    for L in range(1, maxlen + 1):
        for arr in itertools.product(kinds, repeat=L):
            # canonical spelling for every arrangement; spelling variants on a rotating subset
            n += 1
            if L >= 5 and (n + O.seed) % (5 if O.tier == 'quick' else 2):
                continue
            toks = [KINDS[k][0] for k in arr]
            for template in (None, '{kind} - {memo}', '{kind}') + (TEMPLATE_SPELLINGS if L <= 3 else ()):
                if template and L > 4 and n % 3:
                    continue
                check(toks, template)
            var = [KINDS[k][(n + i) % len(KINDS[k])] for i, k in enumerate(arr)]
            check(var, None)
    check_templates_expand()
    for bad in (['{date', '{description}', '{amount}'], ['date', '{description}', '{amount}'], ['{date}', '{description}', '{amount}', ''],
                ['{date}{description}', '{amount}'], ['{da te}', '{description}', '{amount}'], ['{}', '{description}', '{amount}', '{date}'],
                # a token followed by stray text is not a token
                ['{date}junk', '{description}', '{amount}'], ['{date}', '{description} x', '{amount}'], ['{date}', '{description}', '{amount}}']):
        check(bad, None)
    heads = ['Date', 'Description', 'Amount', 'Location', 'Memo', 'Payment Date', 'Payee', 'Charge Amount', 'Transaction Date', 'Merchant Name',
             'Debit', 'Notes', 'Posting Date', 'Payment Description', 'City']
    cnt = 0
    for L in (3, 4):
        for hs in itertools.permutations(heads, L):
            cnt += 1
            if (cnt + O.seed) % (37 if O.tier == 'quick' else 5):
                continue
            inspect_roundtrip(list(hs))
    for hs in (['Payment Date', 'Payee', 'Amount'], ['Date', 'Payment Description', 'Amount'], ['Trans Date', 'Charge Description', 'X', 'Charge Amount']):
        inspect_roundtrip(hs)
    O.sample({'format': '{_},{date:%Y-%m-%d},{kind},{-amount},{description}', 'template': None})
    O.finish()


O.guard(main)
