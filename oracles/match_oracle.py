"""Shared bounded stand-in / replay oracle for C01, C02, C09: small-scope rule files run through the
real loader and matcher, compared with an independent specification written from the property
statements (conditions, specificity keys and tags of the pool rules are given by hand, not computed
by tally)."""
import itertools
import os
import re
import shutil
import tempfile
from datetime import date

from oracle_lib import Oracle

from tally import merchant_utils as mu
from tally.merchant_engine import parse_merchants
from tally.merchant_utils import get_all_rules, get_transforms, normalize_merchant, clear_engine_cache

HEADER = 'is_large = amount > 500\n\n'


class R:
    def __init__(self, name, lines, cond, category='', subcategory='', merchant=None, tags=(), key=None, dyn=None, priority=50):
        self.name = name
        self.lines = lines
        self.cond = cond              # hand-written truth of the match condition; None = cannot be evaluated
        self.category = category
        self.subcategory = subcategory
        self.merchant = merchant or name
        self.tags = tags              # static tags as written
        self.dyn = dyn                # function(txn) -> iterable of dynamic tag values
        self.key = key                # (priority, pattern conditions, constraint kinds, pattern length)

    def text(self):
        return '[%s]\n%s\n' % (self.name, '\n'.join(self.lines))


def has(s):
    return lambda t: s in t['description'].upper()


POOL = [
    R('A', ['match: contains("AAA")', 'category: CatA', 'subcategory: SubA'], has('AAA'), 'CatA', 'SubA', key=(50, 1, 0, 3)),
    R('B', ['match: contains("BBB")', 'category: CatB', 'subcategory: SubB', 'merchant: Bee Merchant', 'tags: Shop, Beta'],
      has('BBB'), 'CatB', 'SubB', 'Bee Merchant', ('Shop', 'Beta'), key=(50, 1, 0, 3)),
    R('T1', ['match: contains("AAA")', 'tags: t1'], has('AAA'), tags=('t1',), key=(50, 1, 0, 3)),
    R('T2', ['match: contains("BBB") and amount > 50', 'subcategory: SubT2', 'tags: T2, {field.kind}'],
      lambda t: 'BBB' in t['description'].upper() and t['amount'] > 50, subcategory='SubT2', tags=('T2',),
      dyn=lambda t: [t['field'].get('kind', '')] if t.get('field') and 'kind' in t['field'] else [], key=(50, 1, 1, 3)),
    R('Bad', ['match: field.missing == "x"', 'category: CatBad', 'subcategory: SubBad', 'tags: bad'], None, 'CatBad', 'SubBad', tags=('bad',), key=(50, 0, 1, 0)),
    R('AB', ['match: contains("AAA") or contains("BBB")', 'category: CatAB', 'tags: ab'],
      lambda t: 'AAA' in t['description'].upper() or 'BBB' in t['description'].upper(), 'CatAB', '', tags=('ab',), key=(50, 2, 0, 6)),
    R('Let', ['let: x = amount * 2', 'match: x > 150', 'category: CatLet', 'subcategory: SubLet'], lambda t: t['amount'] * 2 > 150, 'CatLet', 'SubLet', key=(50, 0, 0, 0)),
    R('Var', ['match: is_large', 'category: CatLarge', 'subcategory: SubLarge', 'tags: large'], lambda t: t['amount'] > 500, 'CatLarge', 'SubLarge', tags=('large',), key=(50, 0, 0, 0)),
    R('Prio', ['match: contains("AAA")', 'category: CatPrio', 'subcategory: SubPrio', 'priority: 70'], has('AAA'), 'CatPrio', 'SubPrio', key=(70, 1, 0, 3)),
    R('Long', ['match: contains("AAA STORE") and amount > 5 and month == 3', 'category: CatLong', 'subcategory: SubLong', 'tags: long'],
      lambda t: 'AAA STORE' in t['description'].upper() and t['amount'] > 5 and t['date'].month == 3, 'CatLong', 'SubLong', tags=('long',), key=(50, 1, 2, 9)),
    R('Zero', ['match: contains("AAA")', 'category: CatZero', 'subcategory: SubZero', 'priority: 0'], has('AAA'), 'CatZero', 'SubZero', key=(0, 1, 0, 3)),
    R('T3', ['let: x = amount > 50', 'match: x and contains("CCC")', 'tags: {source}, t3'], lambda t: t['amount'] > 50 and 'CCC' in t['description'].upper(),
      tags=('t3',), dyn=lambda t: [t.get('source') or ''], key=(50, 1, 0, 3)),
    R('D1', ['let: proj = "Alpha"', 'match: contains("CCC")', 'tags: {proj}, dyn'], has('CCC'), tags=('dyn',), dyn=lambda t: ['Alpha'], key=(50, 1, 0, 3)),
    R('D2', ['let: proj = "Beta"', 'match: contains("CCC") or contains("AAA")', 'category: CatD2', 'subcategory: SubD2', 'tags: {proj}'],
      lambda t: 'CCC' in t['description'].upper() or 'AAA' in t['description'].upper(), 'CatD2', 'SubD2', dyn=lambda t: ['Beta'], key=(50, 2, 0, 6)),
    R('Shadow', ['let: is_large = amount > 5', 'match: is_large and contains("ZZZ")', 'category: CatShadow', 'subcategory: SubShadow'],
      lambda t: t['amount'] > 5 and 'ZZZ' in t['description'].upper(), 'CatShadow', 'SubShadow', key=(50, 1, 0, 3)),
    # a double-quoted pattern containing an apostrophe: its whole text counts for the pattern-length key
    R('Apos', ['match: contains("AAA\'S AUTH")', 'category: CatApos', 'subcategory: SubApos'], has("AAA'S AUTH"), 'CatApos', 'SubApos', key=(50, 1, 0, 10)),
    # the ranking key is read from the expression, not from its text: a keyword inside a pattern ("PAYDAY" holds "day") is no constraint kind,
    # a blank between a function name and its parenthesis does not hide the pattern condition, two apostrophes in two patterns delimit nothing
    R('Payday', ['match: contains("PAYDAY")', 'category: CatPay', 'subcategory: SubPay'], has('PAYDAY'), 'CatPay', 'SubPay', key=(50, 1, 0, 6)),
    R('AaaMon', ['match: contains("AAA MON")', 'category: CatMon', 'subcategory: SubMon'], has('AAA MON'), 'CatMon', 'SubMon', key=(50, 1, 0, 7)),
    R('Spaced', ['match: contains ("AAA") and contains ("STORE")', 'category: CatSp', 'subcategory: SubSp'],
      lambda t: 'AAA' in t['description'].upper() and 'STORE' in t['description'].upper(), 'CatSp', 'SubSp', key=(50, 2, 0, 8)),
    R('Apos2', ['match: contains("AAA\'S") or contains("HOLD\'S")', 'category: CatApos2', 'subcategory: SubApos2'],
      lambda t: "AAA'S" in t['description'].upper() or "HOLD'S" in t['description'].upper(), 'CatApos2', 'SubApos2', key=(50, 2, 0, 11)),
    R('Upper', ['match: CONTAINS("AAA") and Contains("STORE")', 'category: CatUp', 'subcategory: SubUp'],
      lambda t: 'AAA' in t['description'].upper() and 'STORE' in t['description'].upper(), 'CatUp', 'SubUp', key=(50, 2, 0, 8)),
    R('FieldK', ['match: contains("AAA") and Field.kind == "Wire"', 'category: CatFk', 'subcategory: SubFk'],
      lambda t: 'AAA' in t['description'].upper() and bool(t.get('field')) and str(t['field'].get('kind', '')).lower() == 'wire', 'CatFk', 'SubFk', key=(50, 1, 1, 3)),
    # two regular expressions that differ only in the letter case of an escape: they are different conditions (\\W: not a word character, \\w: one)
    R('RxNonWord', ['match: regex("^AAA\\\\W")', 'category: CatRxN', 'subcategory: SubRxN'], lambda t: re.search(r'^AAA\W', t['description'], re.I) is not None, 'CatRxN', 'SubRxN', key=(50, 1, 0, 6)),
    R('RxWord', ['match: regex("^AAA\\\\w")', 'category: CatRxW', 'subcategory: SubRxW'], lambda t: re.search(r'^AAA\w', t['description'], re.I) is not None, 'CatRxW', 'SubRxW', key=(50, 1, 0, 6)),
    # the pattern-length key counts the text of PATTERN arguments only: the literal "Wire" that FieldK compares a field with is no pattern text, so this
    # rule (same priority, one pattern condition, one constraint kind, pattern text of 6) outranks FieldK (pattern text of 3)
    R('AaaSt', ['match: contains("AAA ST") and amount > 5', 'category: CatSt', 'subcategory: SubSt'],
      lambda t: 'AAA ST' in t['description'].upper() and t['amount'] > 5, 'CatSt', 'SubSt', key=(50, 1, 1, 6)),
    R('LongPat', ['match: fuzzy("AAA STORE", 0.9)', 'category: CatLp', 'subcategory: SubLp'], lambda t: 'AAA STORE' in t['description'].upper(), 'CatLp', 'SubLp', key=(50, 1, 0, 9)),
]
BY_NAME = {r.name: r for r in POOL}

TXNS = [
    {'description': 'AAA STORE 123', 'amount': 10.0, 'date': date(2025, 3, 5), 'field': {'kind': 'Wire'}, 'source': 'Amex'},
    {'description': 'bbb shop', 'amount': 100.0, 'date': date(2025, 4, 9), 'field': {'kind': 'ACH'}, 'source': 'Visa'},
    {'description': 'AAA BBB', 'amount': 1000.0, 'date': date(2025, 3, 1), 'field': None, 'source': None},
    {'description': 'CCC OTHER', 'amount': 80.0, 'date': date(2025, 1, 2), 'field': {}, 'source': 'Chk'},
    {'description': 'BBB', 'amount': 20.0, 'date': date(2025, 3, 30), 'field': {'kind': ' '}, 'source': 'Visa'},
    {'description': 'AAA STORE', 'amount': 600.0, 'date': date(2025, 3, 7), 'field': {'kind': 'x'}, 'source': 'Amex'},
    {'description': "AAA'S AUTH HOLD", 'amount': 0.0, 'date': date(2025, 3, 8), 'field': {'kind': 'Hold'}, 'source': 'Visa'},
    {'description': 'PAYDAY AAA MONTHLY', 'amount': 30.0, 'date': date(2025, 5, 8), 'field': {}, 'source': 'Visa'},
]


def matches(r, t):
    if r.cond is None:
        return False
    try:
        return bool(r.cond(t))
    except Exception:
        return False


def spec_tags(rules, t):
    out = set()
    for r in rules:
        if not matches(r, t):
            continue
        for tag in r.tags:
            if tag.strip():
                out.add(tag.strip().lower())
        if r.dyn:
            for v in r.dyn(t):
                v = str(v).strip()
                if v:
                    out.add(v.lower())
    return out


def spec_first(rules, t):
    for r in rules:
        if r.category and matches(r, t):
            return r
    return None


def spec_most_specific(rules, t):
    """(category winner, subcategory winner): highest key among matching categorizing rules (resp. those that
    also set a subcategory); exact ties go to the earlier rule."""
    cand = [r for r in rules if r.category and matches(r, t)]
    win = None
    for r in cand:
        if win is None or r.key > win.key:
            win = r
    sub = None
    for r in cand:
        if r.subcategory and (sub is None or r.key > sub.key):
            sub = r
    return win, sub


def rules_text(rules):
    return HEADER + '\n'.join(r.text() for r in rules)


def txn_dict(t):
    d = {'description': t['description'], 'amount': t['amount'], 'date': t['date'], 'field': t['field'], 'source': t['source']}
    return d


class Runner:
    def __init__(self, O, prop):
        self.O = O
        self.prop = prop
        self.tmp = tempfile.mkdtemp(prefix='match-oracle-')

    def close(self):
        shutil.rmtree(self.tmp, ignore_errors=True)

    # ---- one case -------------------------------------------------------------------
    def check(self, names, ti, mode):
        O = self.O
        rules = [BY_NAME[n] for n in names]
        t = TXNS[ti]
        w = {'rules': list(names), 'txn': ti, 'mode': mode}
        O.case((tuple(names), ti, mode))
        text = rules_text(rules)
        eng = parse_merchants(text, match_mode=mode)
        res = eng.match(txn_dict(t))
        exp_tags = spec_tags(rules, t)
        if mode == 'first_match':
            win = spec_first(rules, t)
            sub = win
        else:
            win, sub = spec_most_specific(rules, t)
        if self.prop in ('C01', 'C09'):
            if mode == 'first_match':
                exp3 = (win.merchant, win.category, win.subcategory) if win else ('', '', '')
                got3 = (res.merchant, res.category, res.subcategory)
                if got3 != exp3 or res.matched != (win is not None):
                    O.fail('%s.engine.%s' % (self.prop, mode), w, {'triple': exp3, 'matched': win is not None}, {'triple': got3, 'matched': res.matched},
                           'parse_merchants(text, %r).match(txn)' % mode)
            else:
                exp2 = (win.category if win else '', sub.subcategory if sub else '')
                got2 = (res.category, res.subcategory)
                if got2 != exp2 or res.matched != (win is not None):
                    O.fail('%s.engine.%s' % (self.prop, mode), w, {'category,subcategory': exp2}, {'category,subcategory': got2},
                           'parse_merchants(text, %r).match(txn)' % mode)
                if win is not None and res.matched_rule is not None and res.matched_rule.name != win.name:
                    O.fail('%s.engine.%s.matched_rule' % (self.prop, mode), w, win.name, res.matched_rule.name)
        if self.prop in ('C02', 'C09'):
            if set(res.tags) != exp_tags:
                O.fail('%s.engine.tags.%s' % (self.prop, mode), w, sorted(exp_tags), sorted(res.tags), 'match(txn).tags')
        if self.prop == 'C02':
            for nm in ('matched_rule', 'merchant_rule', 'subcategory_rule'):
                r = getattr(res, nm)
                if r is not None and not r.category:
                    O.fail('C02.neutral.%s.%s' % (nm, mode), w, 'a rule with a category (or none)', 'tag-only rule %s' % r.name)
        # through the file loader and normalize_merchant (what `tally up` uses)
        if self.prop in ('C01', 'C02', 'C09'):
            path = os.path.join(self.tmp, 'm.rules')
            open(path, 'w').write(text)
            clear_engine_cache()
            tuples = get_all_rules(path, match_mode=mode)
            transforms = get_transforms(path, match_mode=mode)
            m, c, s, info = normalize_merchant(t['description'], tuples, amount=t['amount'], txn_date=t['date'], field=t['field'],
                                               data_source=t['source'], transforms=transforms)
            clear_engine_cache()
            if win is not None:
                expn = (win.merchant, win.category, (sub.subcategory if sub else '')) if mode != 'first_match' else (win.merchant, win.category, win.subcategory)
                gotn = (m, c, s)
                if mode != 'first_match':
                    expn, gotn = expn[1:], gotn[1:]
            else:
                expn, gotn = ('Unknown', 'Unknown'), (c, s)
            if self.prop in ('C01', 'C09') and gotn != expn:
                O.fail('%s.normalize_merchant.%s' % (self.prop, mode), w, expn, gotn, 'get_all_rules(file)+normalize_merchant')
            if self.prop == 'C01' and win is None:
                self.unknown_names.setdefault(t['description'], set()).add(m)
            got_tags = set(info['tags']) if info else set()
            if self.prop in ('C02', 'C09') and got_tags != exp_tags:
                O.fail('%s.normalize_merchant.tags.%s' % (self.prop, mode), w, sorted(exp_tags), sorted(got_tags))

    unknown_names = {}

    def finish_unknown(self):
        for d, names in self.unknown_names.items():
            if len(names) > 1:
                self.O.fail('C01.unknown_name_depends_only_on_description', {'description': d}, 'one name', sorted(names))


# ---- legacy CSV rules -----------------------------------------------------------------
CSV_POOL = [
    ('AAA,Merch A,CatA,SubA,', has('AAA'), ('Merch A', 'CatA', 'SubA'), ()),
    ('BBB[amount>50],Merch B,CatB,SubB,tagb|Beta', lambda t: 'BBB' in t['description'].upper() and t['amount'] > 50, ('Merch B', 'CatB', 'SubB'), ('tagb', 'Beta')),
    ('AAA,Tagger,,,t1', has('AAA'), ('Tagger', '', ''), ('t1',)),
    ('(unclosed,Broken,CatX,SubX,bad', None, ('Broken', 'CatX', 'SubX'), ('bad',)),
    ('BBB|CCC,Merch BC,CatBC,SubBC,', lambda t: 'BBB' in t['description'].upper() or 'CCC' in t['description'].upper(), ('Merch BC', 'CatBC', 'SubBC'), ()),
    ('AAA[month=3][amount:5-700],Merch M,CatM,SubM,march', lambda t: 'AAA' in t['description'].upper() and t['date'].month == 3 and 5 <= t['amount'] <= 700, ('Merch M', 'CatM', 'SubM'), ('march',)),
    ('AAA[amount<1],Merch Z,CatZ,SubZ,zero', lambda t: 'AAA' in t['description'].upper() and t['amount'] < 1, ('Merch Z', 'CatZ', 'SubZ'), ('zero',)),
    ('AAA,Dyn,,,"{split(field.kind, ""W"", 1)}|{source}"', has('AAA'), ('Dyn', '', ''),
     lambda t: ([(t['field'] or {}).get('kind', '').split('W')[1]] if isinstance(t['field'], dict) and 'kind' in t['field'] and len(t['field']['kind'].split('W')) > 1 else []) + [t['source'] or '']),
    ('STORE[date:2025-03-06..2025-03-31],Merch D,CatD,SubD,', lambda t: 'STORE' in t['description'].upper() and date(2025, 3, 6) <= t['date'] <= date(2025, 3, 31), ('Merch D', 'CatD', 'SubD'), ()),
    # a categorizing row whose Merchant cell is blank is the first matching categorizing rule all the same: the rows after it change nothing
    ('AAA S,,CatNoName,SubNoName,', has('AAA S'), ('', 'CatNoName', 'SubNoName'), ()),
]


def check_csv(run, idxs, ti):
    O = run.O
    t = TXNS[ti]
    w = {'csv_rules': list(idxs), 'txn': ti}
    O.case(('csv', tuple(idxs), ti))
    path = os.path.join(run.tmp, 'merchant_categories.csv')
    open(path, 'w').write('Pattern,Merchant,Category,Subcategory,Tags\n' + '\n'.join(CSV_POOL[i][0] for i in idxs) + '\n')
    clear_engine_cache()
    tuples = get_all_rules(path)
    m, c, s, info = normalize_merchant(t['description'], tuples, amount=t['amount'], txn_date=t['date'], field=t['field'], data_source=t['source'])
    win = None
    tags = set()
    for i in idxs:
        _, cond, triple, tg = CSV_POOL[i]
        ok = False
        if cond is not None:
            try:
                ok = bool(cond(t))
            except Exception:
                ok = False
        if ok:
            tags |= {x.strip().lower() for x in (tg(t) if callable(tg) else tg) if x.strip()}
            if win is None and triple[1]:
                win = triple
    if run.prop == 'C01':
        if win is not None:
            if (m, c, s) != win:
                O.fail('C01.legacy_csv', w, win, (m, c, s), 'get_all_rules(csv)+normalize_merchant')
        elif (c, s) != ('Unknown', 'Unknown'):
            O.fail('C01.legacy_csv.unknown', w, ('Unknown', 'Unknown'), (c, s))
        elif win is None:
            run.unknown_names.setdefault(t['description'], set()).add(m)
    if run.prop == 'C02':
        got = set(info['tags']) if info else set()
        if got != tags:
            O.fail('C02.legacy_csv.tags', w, sorted(tags), sorted(got))


def check_csv_regex_shapes(run):
    """legacy CSV patterns that are ordinary regular expressions but look like expressions to the tuple loop's heuristic (_is_expression_pattern): a pattern
    that starts with a parenthesis, or contains ' and ' / ' or '.  They are CSV rules like any other: first match in file order, tags accumulate."""
    O = run.O
    path = os.path.join(run.tmp, 'merchant_categories.csv')
    body = ('(AAA|ZZZ),Grouped,CatG,SubG,grp\nAAA,Plain,CatP,SubP,\n')
    body2 = ('bed bath and beyond,BBB Store,CatB,SubB,home\nBED,Bed,CatBed,SubBed,\n')
    # bare words joined by and / or, or wrapped in parentheses, even PARSE as expressions (over names): they are still the regular expressions they were written as
    body3 = ('AAA and STORE,Anded,CatAnd,SubAnd,anded\nAAA,Plain,CatP,SubP,\n')
    body4 = ('(AAA)[amount>2],Paren,CatPar,SubPar,par\nAAA,Plain,CatP,SubP,\n')
    body5 = ('ZZZ or AAA STORE,Ored,CatOr,SubOr,ored\nAAA,Plain,CatP,SubP,\n')
    for text, desc, win, tags, shape in ((body, 'AAA STORE 123', ('Grouped', 'CatG', 'SubG'), {'grp'}, 'starts_with_parenthesis'),
                                         (body2, 'BED BATH AND BEYOND 12', ('BBB Store', 'CatB', 'SubB'), {'home'}, 'contains_and'),
                                         (body3, 'AAA AND STORE 12', ('Anded', 'CatAnd', 'SubAnd'), {'anded'}, 'bare_words_and'),
                                         (body4, 'AAA STORE 123', ('Paren', 'CatPar', 'SubPar'), {'par'}, 'bare_word_in_parentheses_with_modifier'),
                                         (body5, 'ZZZ OR AAA STORE', ('Ored', 'CatOr', 'SubOr'), {'ored'}, 'bare_words_or')):
        open(path, 'w').write('Pattern,Merchant,Category,Subcategory,Tags\n' + text)
        O.case(('csv_shape', shape))
        clear_engine_cache()
        tuples = get_all_rules(path)
        m, c, s, info = normalize_merchant(desc, tuples, amount=5.0, txn_date=date(2025, 3, 5), field=None, data_source='Amex')
        clear_engine_cache()
        w = {'csv_shape': shape, 'csv_text': text, 'description': desc}
        if run.prop == 'C01' and (m, c, s) != win:
            O.fail('C01.legacy_csv.regex_read_as_expression', w, win, (m, c, s), 'get_all_rules(csv)+normalize_merchant')
        if run.prop == 'C02' and set((info or {}).get('tags', [])) != tags:
            O.fail('C02.legacy_csv.regex_read_as_expression', w, sorted(tags), sorted((info or {}).get('tags', [])), 'get_all_rules(csv)+normalize_merchant')


def check_csv_expression_patterns(run):
    """a legacy CSV pattern may be an expression (contains("X"), amount > 5 and ...) and may carry [amount...] / [date...] modifiers like any CSV pattern: the
    rule applies when the expression AND its modifiers hold"""
    O = run.O
    path = os.path.join(run.tmp, 'merchant_categories.csv')
    text = ('"contains(""AAA"")[amount>200]",Bulk,CatBulk,SubBulk,bulk\n"contains(""AAA"")",Plain,CatP,SubP,\n'
            '"startswith(""BBB"") and amount > 50[month=4]",April,CatApr,SubApr,apr\n')
    open(path, 'w').write('Pattern,Merchant,Category,Subcategory,Tags\n' + text)
    for desc, amount, d, win, tags in (('AAA STORE 123', 20.0, date(2025, 3, 5), ('Plain', 'CatP', 'SubP'), set()),
                                       ('AAA STORE 123', 300.0, date(2025, 3, 5), ('Bulk', 'CatBulk', 'SubBulk'), {'bulk'}),
                                       ('bbb shop', 100.0, date(2025, 4, 9), ('April', 'CatApr', 'SubApr'), {'apr'}),
                                       ('bbb shop', 100.0, date(2025, 5, 9), None, set())):
        O.case(('csv_expression', desc, amount, str(d)))
        clear_engine_cache()
        tuples = get_all_rules(path)
        m, c, s, info = normalize_merchant(desc, tuples, amount=amount, txn_date=d, field=None, data_source='Amex')
        clear_engine_cache()
        w = {'csv_expression': True, 'csv_text': text, 'description': desc, 'amount': amount, 'date': str(d)}
        if run.prop == 'C01' and ((m, c, s) != win if win else (c, s) != ('Unknown', 'Unknown')):
            O.fail('C01.legacy_csv.expression_pattern_with_modifier', w, win or ('?', 'Unknown', 'Unknown'), (m, c, s), 'get_all_rules(csv)+normalize_merchant')
        if run.prop == 'C02' and set((info or {}).get('tags', [])) != tags:
            O.fail('C02.legacy_csv.expression_pattern_with_modifier', w, sorted(tags), sorted((info or {}).get('tags', [])), 'get_all_rules(csv)+normalize_merchant')


def check_csv_most_specific(run):
    """rule_mode most_specific with a legacy CSV rule file: the highest-ranked matching rule wins, whatever the order of the rows (C09)"""
    O = run.O
    path = os.path.join(run.tmp, 'merchant_categories.csv')
    rows = ['AAA,Short,CatShort,SubShort,', 'AAA.*STORE,Longer,CatLong,SubLong,']
    for order in ((0, 1), (1, 0)):
        open(path, 'w').write('Pattern,Merchant,Category,Subcategory,Tags\n' + '\n'.join(rows[i] for i in order) + '\n')
        O.case(('csv_most_specific', order))
        clear_engine_cache()
        tuples = get_all_rules(path, match_mode='most_specific')
        m, c, s, info = normalize_merchant('AAA STORE 123', tuples, amount=5.0, txn_date=date(2025, 3, 5), field=None, data_source='Amex')
        clear_engine_cache()
        if (c, s) != ('CatLong', 'SubLong'):
            O.fail('C09.legacy_csv_ignores_most_specific', {'csv_most_specific': [rows[i] for i in order]}, ('CatLong', 'SubLong'), (c, s),
                   "get_all_rules(csv, match_mode='most_specific') + normalize_merchant")


def check_same_named_rules(run):
    """two rules may carry the same [Name] (a tag-only rule next to a categorizing one; an override with another priority): each ranks by its OWN key, and a
    rule without category never changes merchant / category / subcategory - wherever it sits (C02, C09)"""
    O = run.O
    tag_only = '[Amazon]\nmatch: contains("AAA") and contains("STORE") and amount < 20\ntags: cheap\n'
    cat_rules = ['[Prime]\nmatch: contains("AAA") and contains("STORE")\ncategory: CatPrime\nsubcategory: SubPrime\n',
                 '[Amazon]\nmatch: contains("AAA")\ncategory: CatAmazon\nsubcategory: SubAmazon\n']
    override = ['[Costco]\nmatch: contains("AAA")\ncategory: CatPlain\nsubcategory: SubPlain\n',
                '[Costco]\nmatch: contains("AAA")\ncategory: CatOver\nsubcategory: SubOver\npriority: 90\n',
                '[Two]\nmatch: contains("AAA") and contains("STORE")\ncategory: CatTwo\nsubcategory: SubTwo\n']
    txns = [{'description': 'AAA STORE 123', 'amount': 10.0, 'date': date(2025, 3, 5), 'field': None, 'source': 'Amex'},
            {'description': 'AAA STORE 999', 'amount': 139.0, 'date': date(2025, 3, 6), 'field': None, 'source': 'Amex'}]
    for mode in ('most_specific', 'first_match'):
        for order in itertools.permutations(range(2)):
            base = [cat_rules[i] for i in order]
            want = [(r.category, r.subcategory) for r in [parse_merchants(HEADER + '\n'.join(base), mode).match(dict(t)) for t in txns]]
            for pos in range(3):
                rules = base[:pos] + [tag_only] + base[pos:]
                O.case(('same_name', mode, order, pos))
                eng = parse_merchants(HEADER + '\n'.join(rules), mode)      # one engine for both transactions, like a run
                got = [(r.category, r.subcategory) for r in [eng.match(dict(t)) for t in txns]]
                if got != want:
                    O.fail('%s.same_named_rules.tag_only_rule_changes_classification' % run.prop, {'same_named': 'tag_only', 'mode': mode, 'rules_text': HEADER + '\n'.join(rules)}, want, got,
                           'parse_merchants(text, mode).match(txn) with and without the tag-only rule')
    for order in itertools.permutations(range(3)):
        rules = [override[i] for i in order]
        O.case(('same_name', 'override', order))
        r = parse_merchants(HEADER + '\n'.join(rules), 'most_specific').match(dict(txns[0]))
        if (r.category, r.subcategory) != ('CatOver', 'SubOver'):
            O.fail('%s.same_named_rules.override_priority_not_its_own' % run.prop, {'same_named': 'override', 'rules_text': HEADER + '\n'.join(rules)}, ('CatOver', 'SubOver'), (r.category, r.subcategory),
                   "parse_merchants(text, 'most_specific').match(txn): the rule with priority 90 ranks highest in every order")


def check_transforms(run):
    """Field transforms are applied before matching (C01)."""
    O = run.O
    text = ('field.memo = uppercase(field.memo)\n'
            'field.description = regex_replace(field.description, "^PFX\\\\s+", "")\n\n'
            '[Pfx]\nmatch: startswith("PFX")\ncategory: CatPfx\nsubcategory: S\n\n'
            '[Memo]\nmatch: field.memo == "REF" and startswith("AAA")\ncategory: CatMemo\nsubcategory: S\n\n'
            '[A]\nmatch: startswith("AAA")\ncategory: CatA\nsubcategory: SubA\n')
    path = os.path.join(run.tmp, 't.rules')
    open(path, 'w').write(text)
    for desc, fld, exp in (('PFX AAA STORE', {'memo': 'ref'}, 'CatMemo'), ('PFX AAA STORE', {'memo': 'zzz'}, 'CatA'),
                           ('PFX AAA STORE', None, 'CatA'), ('PFX  BBB', {'memo': 'ref'}, 'Unknown'), ('AAA PFX', {}, 'CatA')):
        O.case(('transform', desc, str(fld)))
        clear_engine_cache()
        tuples = get_all_rules(path)
        tr = get_transforms(path)
        m, c, s, info = normalize_merchant(desc, tuples, amount=5.0, txn_date=date(2025, 1, 1), field=fld, transforms=tr)
        clear_engine_cache()
        if c != exp:
            O.fail('C01.transforms_before_matching', {'transform_case': [desc, fld]}, exp, c, 'normalize_merchant(..., transforms=...)')
    # transform targets written with capitals (names are case-insensitive), and a transform that creates a custom field on a transaction whose source has
    # no custom captures (field is None there)
    text2 = ('field.Description = regex_replace(field.Description, "^PFX\\\\s+", "")\n'
             'field.MEMO = uppercase(trim(field.memo))\n'
             'field.kind = "card"\n\n'
             '[Memo]\nmatch: field.memo == "REF" and startswith("AAA")\ncategory: CatMemo\nsubcategory: S\n\n'
             '[Kind]\nmatch: startswith("AAA") and exists(field.kind) and field.kind == "card"\ncategory: CatKind\nsubcategory: S\n\n'
             '[A]\nmatch: startswith("AAA")\ncategory: CatA\nsubcategory: SubA\n')
    open(path, 'w').write(text2)
    for desc, fld, exp in (('PFX AAA STORE', {'memo': ' ref '}, 'CatMemo'), ('PFX AAA STORE', {'memo': 'zzz'}, 'CatKind'), ('PFX AAA STORE', None, 'CatKind'), ('PFX AAA STORE', {}, 'CatKind')):
        O.case(('transform2', desc, str(fld)))
        clear_engine_cache()
        tuples = get_all_rules(path)
        tr = get_transforms(path)
        m, c, s, info = normalize_merchant(desc, tuples, amount=5.0, txn_date=date(2025, 1, 1), field=dict(fld) if fld is not None else None, transforms=tr)
        clear_engine_cache()
        if c != exp:
            O.fail('C01.transforms_before_matching', {'transform_case': [desc, fld], 'rules_text': text2}, exp, c, 'normalize_merchant(..., transforms=...)')
    # a chain: the first transform CREATES a helper field (on a source without custom columns the transaction has no field dict yet), the second reads it
    text3 = ('field.vendor = regex_replace(field.description, "^PFX\\s+", "")\n'
             'field.description = trim(field.vendor)\n\n'
             '[A]\nmatch: startswith("AAA")\ncategory: CatA\nsubcategory: SubA\n\n'
             '[Pfx]\nmatch: contains("PFX")\ncategory: CatPfx\nsubcategory: S\n')
    open(path, 'w').write(text3)
    for desc, fld, exp in (('PFX AAA STORE', None, 'CatA'), ('PFX AAA STORE', {}, 'CatA'), ('PFX AAA STORE', {'memo': 'x'}, 'CatA'), ('PFX BBB', None, 'Unknown')):
        O.case(('transform3', desc, str(fld)))
        clear_engine_cache()
        tuples = get_all_rules(path)
        tr = get_transforms(path)
        m, c, s, info = normalize_merchant(desc, tuples, amount=5.0, txn_date=date(2025, 1, 1), field=dict(fld) if fld is not None else None, transforms=tr)
        clear_engine_cache()
        if c != exp:
            O.fail('C01.transforms_before_matching', {'transform_case': [desc, fld], 'rules_text': text3}, exp, c, 'normalize_merchant(..., transforms=...)')


def check_list_valued_tags(run):
    """a dynamic tag whose expression yields a list (a comprehension over a supplemental source): one tag per non-empty element, stripped and lower-cased;
    empty and blank elements are dropped like an empty scalar value is (C02)"""
    O = run.O
    text = ('[Amazon]\nmatch: contains("AAA")\ncategory: Shopping\ntags: base, {[r.kind for r in orders if r.amount == txn.amount]}, {field.kind}\n')
    for kinds, fld_kind, exp in (((' Book ', ' '), 'Wire', {'base', 'book', 'wire'}), (('', 'Pen', '   '), '  ', {'base', 'pen'}), ((), 'x', {'base', 'x'}),
                                 (('\t', 'A B'), '', {'base', 'a b'})):
        rows = [{'amount': 10.0, 'kind': k} for k in kinds] + [{'amount': 99.0, 'kind': 'Other'}]
        O.case(('list_tags', kinds, fld_kind))
        for mode in ('first_match', 'most_specific'):
            res = parse_merchants(text, mode).match({'description': 'AAA STORE', 'amount': 10.0, 'date': date(2025, 3, 5), 'field': {'kind': fld_kind}, 'source': 'Amex'},
                                                    data_sources={'orders': rows})
            if set(res.tags) != exp:
                O.fail('C02.list_valued_dynamic_tag', {'list_tag_case': [list(kinds), fld_kind], 'mode': mode, 'rules_text': text}, sorted(exp), sorted(res.tags),
                       'parse_merchants(text, mode).match(txn, data_sources={orders: rows})')


def check_csv_tags_query_sources(run):
    """legacy CSV rule files alike (C02): a {expression} tag of a CSV row is evaluated for the transaction like the same tag in a .rules file - it may
    query a supplemental source, and a list value gives one tag per element"""
    O = run.O
    path = os.path.join(run.tmp, 'merchant_categories.csv')
    open(path, 'w').write('Pattern,Merchant,Category,Subcategory,Tags\n'
                          'AAA,Amazon,Shopping,Online,"{[r.kind for r in orders if r.amount == amount]}|base|{next((r.kind for r in orders if r.amount == 99), \'\')}"\n')
    rows = {'orders': [{'amount': 10.0, 'kind': ' Book '}, {'amount': 10.0, 'kind': 'Pen'}, {'amount': 99.0, 'kind': 'Other'}]}
    O.case(('csv_tags_query_sources',))
    clear_engine_cache()
    tuples = get_all_rules(path)
    m, c, s_, info = normalize_merchant('AAA STORE', tuples, amount=10.0, txn_date=date(2025, 3, 5), field=None, data_source='Amex', data_sources=rows)
    got = sorted((info or {}).get('tags', []))
    if got != ['base', 'book', 'other', 'pen']:
        O.fail('C02.legacy_csv.tag_expression_cannot_query_sources', {'csv_tags_sources': True}, ['base', 'book', 'other', 'pen'], got,
               'get_all_rules(csv) + normalize_merchant(..., data_sources={orders: rows})')


def run(prop):
    O = Oracle()

    def main():
        r = Runner(O, prop)
        try:
            if O.witness:
                w = O.witness
                if 'rules' in w:
                    r.check(w['rules'], w['txn'], w['mode'])
                elif 'csv_rules' in w:
                    check_csv(r, w['csv_rules'], w['txn'])
                elif 'csv_expression' in w:
                    check_csv_expression_patterns(r)
                elif 'same_named' in w:
                    check_same_named_rules(r)
                elif 'csv_most_specific' in w:
                    check_csv_most_specific(r)
                elif 'csv_shape' in w:
                    check_csv_regex_shapes(r)
                elif 'list_tag_case' in w:
                    check_list_valued_tags(r)
                elif 'csv_tags_sources' in w:
                    check_csv_tags_query_sources(r)
                else:
                    check_transforms(r)
                O.finish()
            modes = {'C01': ['first_match'], 'C02': ['first_match', 'most_specific'], 'C09': ['most_specific']}[prop]
            maxlen = 3 if O.tier == 'quick' else 4
            names = [x.name for x in POOL]
            if O.tier == 'quick':
                names = [n for n in names if n not in ('Zero', 'T3')] if prop == 'C01' else names
                if prop != 'C09':
                    names = [n for n in names if n not in ('Payday', 'AaaMon', 'Spaced', 'Apos2', 'Upper', 'FieldK', 'LongPat', 'AaaSt')]       # rules that differ in ranking only
            cnt = 0
            for n in range(1, maxlen + 1):
                for combo in itertools.permutations(names, n):
                    cnt += 1
                    if O.tier != 'quick' and n == 4 and (cnt + O.seed) % 8:
                        continue        # thorough tier: all lists up to length 3, and a deterministic 1-in-8 sample of the lists of length 4 (the pool has grown to 26 rules)
                    for ti in range(len(TXNS)):
                        if n == maxlen and (ti + len(combo[0])) % 2 and O.tier == 'quick':
                            continue
                        for mode in modes:
                            r.check(list(combo), ti, mode)
            if prop in ('C01', 'C02'):
                for n in range(1, 4):
                    for idxs in itertools.permutations(range(len(CSV_POOL)), n):
                        for ti in range(len(TXNS)):
                            check_csv(r, list(idxs), ti)
            if prop == 'C02':
                check_list_valued_tags(r)
                check_csv_tags_query_sources(r)
            if prop in ('C01', 'C02'):
                check_csv_regex_shapes(r)
                check_csv_expression_patterns(r)
            if prop == 'C09':
                check_csv_most_specific(r)
            if prop in ('C02', 'C09'):
                check_same_named_rules(r)
            if prop == 'C01':
                check_transforms(r)
                r.finish_unknown()
            O.sample({'rules': ['T1', 'Bad', 'A'], 'txn': 0, 'mode': modes[0]})
        finally:
            r.close()
        O.finish()
    O.guard(main)
