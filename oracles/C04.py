"""Bounded stand-in / replay oracle for C04: (1) exhaustive small expressions of the Python-like fragment evaluated by tally and by CPython's own
eval() over the same rows, (2) the documented tables for the match / extraction / transform functions and the deviations from Python (case folding,
division by zero, dates against ISO strings), (3) the equivalence laws of the statement as metamorphic checks."""
import itertools
import re
from datetime import date

from oracle_lib import Oracle

from tally import expr_parser as ep

O = Oracle()
TXN = {'description': 'Netflix.COM 0012 ab', 'amount': 15.5, 'date': date(2025, 3, 9), 'field': {'kind': 'Wire', 'code': 'AB-12-cd', 'pad': '  x  '}, 'source': 'Amex'}
ROWS = {'orders': [{'id': '77', 'item': 'Cable', 'qty': 2, 'amount': 15.5}, {'id': '78', 'item': 'Mouse', 'qty': 1, 'amount': 20.0}, {'id': '79', 'item': 'cable', 'qty': 5, 'amount': 3.0}],
        'refunds': [{'id': '78', 'amount': 20.0}, {'id': '90', 'amount': 15.5}], 'empty': [],
        'dated': [{'day': date(2025, 3, 10), 'iso': '2025-03-10', 'kind': 'ach'}, {'day': date(2025, 3, 9), 'iso': '2025-03-09', 'kind': 'WIRE'}],
        # the second row's date was never filled in: comparing it with a date cannot be evaluated
        'mixed': [{'day': date(2025, 3, 9), 'n': 1}, {'day': 'pending', 'n': 2}]}
VARS = {'big': True, 'lim': 10, 'label': 'Net', 'zero': 0}


class Row(dict):
    __getattr__ = dict.__getitem__


def tally_eval(expr, txn=TXN, variables=VARS, rows=ROWS):
    try:
        return ('ok', ep.evaluate_transaction(expr, dict(txn), variables=dict(variables), data_sources=rows))
    except ep.ExpressionError as e:
        return ('err', str(e)[:60])
    except Exception as e:
        return ('exc', '%s: %s' % (type(e).__name__, e))


def py_eval(expr):
    """CPython's meaning of the same text for the fragment where the reference says 'behaves like the same Python construct'"""
    ns = {'amount': TXN['amount'], 'month': 3, 'year': 2025, 'day': 9, 'weekday': 6, 'true': True, 'false': False}
    ns.update(VARS)
    ns.update({k: [Row(r) for r in v] for k, v in ROWS.items()})
    try:
        return ('ok', eval(expr, {'__builtins__': {'len': len, 'sum': sum, 'any': any, 'all': all, 'next': next, 'min': min, 'max': max, 'abs': abs, 'round': round}}, ns))
    except Exception:
        return ('err', None)


def norm(v):
    if isinstance(v, list):
        return [norm(x) for x in v]
    if isinstance(v, dict):
        return {k: norm(x) for k, x in v.items()}
    if isinstance(v, float) and v == int(v):
        return int(v)
    return v


def check_diff(expr):
    O.case(expr)
    a, b = tally_eval(expr), py_eval(expr)
    if b[0] == 'ok':
        if a[0] != 'ok' or norm(a[1]) != norm(b[1]) or type(a[1]) is not type(b[1]) and not (isinstance(a[1], (int, float)) and isinstance(b[1], (int, float))):
            O.fail('C04.differs_from_python.%s' % kind_of(expr), {'expr': expr}, repr(b[1]), '%s %r' % a, 'evaluate_transaction vs CPython eval on the same rows')
    elif a[0] == 'exc':
        O.fail('C04.non_expression_error', {'expr': expr}, 'ExpressionError', a[1])


def kind_of(expr):
    for k in ('for', ':=', ' if ', 'not ', ' and ', ' or ', '<', '>', '==', '!=', '/', '%', 'any', 'all', 'sum', 'len', 'next', 'min', 'max'):
        if k in expr:
            return k.strip().replace(' ', '_')
    return 'atom'


ATOMS = ['amount', 'lim', 'zero', '2', '0', '15.5', 'month', 'big', 'true', 'false', 'len(orders)', 'len(empty)']
BOOLS = ['big', 'false', 'amount > lim', 'month == 3', 'zero', 'lim', 'amount < 2', 'len(empty)']
COMPS = ['[r.qty for r in orders]', '[r.id for r in orders if r.qty > 1]', '[r.item for r in orders if r.amount == amount]', '[o.id for o in orders for r in refunds if o.id == r.id]',
         'sum(r.qty for r in orders)', 'sum(r.amount for r in orders if r.qty < 3)', 'any(r.id == "78" for r in orders)', 'all(r.qty > 0 for r in orders)', 'all(r.qty > 1 for r in orders)',
         'len([r for r in orders if r.qty >= 2])', 'next((r.item for r in orders if r.qty == 1), "none")', 'next((r.item for r in orders if r.qty == 9), "none")',
         'max(r.qty for r in orders)', 'min(r.amount for r in orders)', 'max(1, 2, lim)', 'min(lim, 3)', '[r.qty * 2 for r in orders][1]', 'orders[0].qty + orders[2].qty',
         '(m := [r for r in orders if r.qty > 1]) and len(m) > 1', '(n := len(orders)) + n', 'len([r for r in orders if len([s for s in refunds if s.id == r.id]) > 0])',
         '[r.item for r in orders if len([r for r in refunds if r.amount == amount]) > 0]', 'sum(r.amount for r in orders if len([r for r in refunds if r.id == "78"]) == 1)',
         'any(r.qty > 4 for r in orders) and any(r.qty > 1 for r in orders)', '[x for x in [r.qty for r in orders] if x > 1]' if False else 'len(refunds) if big else len(orders)',
         'sum(r.qty for r in empty)', 'any(r.qty for r in empty)', 'all(r.qty for r in empty)', '[r.id for r in empty]']


def diff_suite():
    for a in ATOMS:
        check_diff(a)
    for a, b in itertools.product(ATOMS[:8], repeat=2):
        for op in ('+', '-', '*', '<', '<=', '>', '>=', '==', '!='):
            check_diff('%s %s %s' % (a, op, b))
    for a, b, c in itertools.product(['amount', 'lim', '2', 'month', 'zero'], repeat=3):
        for o1, o2 in (('<', '<'), ('<', '<='), ('>', '=='), ('<=', '!='), ('==', '==')):
            check_diff('%s %s %s %s %s' % (a, o1, b, o2, c))
    for a, b in itertools.product(BOOLS, repeat=2):
        check_diff('%s if %s else %s' % (a, b, a))
    for c in COMPS:
        check_diff(c)
        check_diff('not (%s)' % c) if not c.startswith('[') else None
    check_diff('-amount')
    check_diff('-(lim - 12)')


def truth(expr):
    r = tally_eval(expr)
    return ('ok', bool(r[1])) if r[0] == 'ok' else r


def bool_suite():
    """and / or / not are Boolean with left-to-right short-circuit (errors included)"""
    E = 'unknown_name'      # cannot be evaluated
    for a, b in itertools.product(BOOLS, repeat=2):
        for op, py in (('and', lambda x, y: x and y), ('or', lambda x, y: x or y)):
            O.case((a, op, b))
            want = bool(py(bool(tally_eval(a)[1]), bool(tally_eval(b)[1])))
            got = tally_eval('%s %s %s' % (a, op, b))
            if got != ('ok', want):
                O.fail('C04.boolop.%s' % op, {'expr': '%s %s %s' % (a, op, b)}, want, got)
    for a in BOOLS:
        ta = bool(tally_eval(a)[1])
        for op in ('and', 'or'):
            O.case((a, op, E))
            got = tally_eval('%s %s %s' % (a, op, E))
            short = (op == 'and' and not ta) or (op == 'or' and ta)
            if short and got != ('ok', ta):
                O.fail('C04.short_circuit.%s' % op, {'expr': '%s %s %s' % (a, op, E)}, ta, got)
            if not short and got[0] != 'err':
                O.fail('C04.short_circuit.%s.evaluates_right_operand' % op, {'expr': '%s %s %s' % (a, op, E)}, 'ExpressionError', got)
            got2 = tally_eval('%s %s %s' % (E, op, a))
            if got2[0] != 'err':
                O.fail('C04.left_to_right.%s' % op, {'expr': '%s %s %s' % (E, op, a)}, 'ExpressionError', got2)
        O.case(('not', a))
        if tally_eval('not %s' % a) != ('ok', not ta):
            O.fail('C04.not', {'expr': 'not %s' % a}, not ta, tally_eval('not %s' % a))


TABLE = [
    # (expression, expected value) straight from the reference tables / statement
    ('contains("NETFLIX")', True), ('contains("netflix.com")', True), ('contains("HULU")', False), ('contains(field.kind, "wIrE")', True), ('contains(field.code, "zz")', False),
    ('startswith("NETFLIX")', True), ('startswith("netf")', True), ('startswith("FLIX")', False), ('startswith(field.code, "ab-")', True),
    ('anyof("HULU", "netflix")', True), ('anyof("HULU", "HBO")', False), ('normalized("NETFLIXCOM")', True), ('normalized("net flix")', True), ('normalized("NETFLIXORG")', False),
    ('regex("^netflix")', True), ('regex("NETFLIX\\\\.COM\\\\s+\\\\d+")', True), ('regex("^\\\\d+$")', False), ('regex("^\\\\D+$")', False), ('regex(field.code, "^ab-\\\\d+")', True),
    ('regex("COM (?!9)")', True), ('regex(field.kind, "^\\D+$")', True), ('regex(field.kind, "^\\d+$")', False), ('regex("\\S\\s\\S")', True), ('regex(field.kind, "\\s")', False),
    ('regex(field.kind, "\\S")', True), ('regex(field.kind, "^\\w+$")', True), ('regex(field.kind, "^\\W+$")', False), ('regex("\\\\bcom\\\\b")', True), ('regex("\\\\Bcom\\\\B")', False),
    ('regex("N\\\\B")', True), ('regex("n\\\\b")', False), ('"NETFLIX" in description', True), ('"hulu" in description', False), ('"HULU" not in description', True), ('"netflix" not in description', False),
    ('description == "netflix.com 0012 AB"', True), ('description != "NETFLIX.COM 0012 AB"', False), ('field.kind == "WIRE"', True), ('field.kind != "wire"', False),
    ('source == "amex"', True), ('label == "NET"', True), ('month', 3), ('year', 2025), ('day', 9), ('weekday', 6), ('txn.month', 3), ('txn.amount', 15.5), ('txn.description', 'Netflix.COM 0012 ab'),
    ('field.amount', 15.5), ('field.description', 'Netflix.COM 0012 ab'), ('txn.source', 'Amex'),
    ('date == "2025-03-09"', True), ('date >= "2025-03-09"', True), ('date > "2025-03-09"', False), ('date < "2025-04-01"', True), ('date <= "2025-03-08"', False), ('date != "2025-03-10"', True),
    ('"2025-03-01" < date', True), ('"2025-03-01" <= date <= "2025-03-31"', True), ('"2025-03-10" <= date <= "2025-03-31"', False),
    ('amount / 0', 0), ('amount % 0', 0), ('10 / 4', 2.5), ('10 % 4', 2), ('amount / zero', 0), ('(amount - 15.5) / (lim - 10)', 0),
    ('extract("(\\\\d+)")', '0012'), ('extract("COM (\\\\d\\\\d)")', '00'), ('extract("nomatch(\\\\d)")', ''), ('extract("NETFLIX")', ''), ('extract(field.code, "-(\\\\d+)-")', '12'),
    ('extract("(net)(flix)")', 'Net'), ('split("-", 0)', 'Netflix.COM 0012 ab'), ('split(" ", 1)', '0012'), ('split(" ", 7)', ''), ('split(field.code, "-", 2)', 'cd'), ('split(field.code, "-", -1)', ''), ('split("Netflix.COM", 1)', '0012 ab'), ('split(field.pad, "x", 0)', ''), ('split(" a , b ", ",", 1)', 'b'),
    ('substring(0, 7)', 'Netflix'), ('substring(8, 99)', 'COM 0012 ab'), ('substring(field.code, 3, 5)', '12'), ('trim(field.pad)', 'x'), ('trim()', 'Netflix.COM 0012 ab'),
    ('exists(field.kind)', True), ('exists(field.nope)', False), ('exists(field.pad)', True), ('uppercase(field.kind)', 'WIRE'), ('lowercase(field.code)', 'ab-12-cd'),
    ('strip_prefix(description, "netflix.")', 'COM 0012 ab'), ('strip_prefix(description, "flix")', 'Netflix.COM 0012 ab'), ('strip_suffix(description, " AB")', 'Netflix.COM 0012'),
    ('strip_suffix(description, "zz")', 'Netflix.COM 0012 ab'), ('strip_suffix(description, "")', 'Netflix.COM 0012 ab'), ('strip_prefix(description, "")', 'Netflix.COM 0012 ab'), ('strip_suffix("", "")', ''), ('strip_prefix("ab", "abc")', 'ab'), ('strip_suffix("ab", "cab")', 'ab'), ('regex_replace(description, "\\\\d+", "#")', 'Netflix.COM # ab'), ('regex_replace(description, "netflix", "X")', 'X.COM 0012 ab'),
    ('regex_replace(field.pad, "\\\\s+", "")', 'x'), ('abs(0 - amount)', 15.5), ('round(amount)', 16), ('description.lower()', 'netflix.com 0012 ab'), ('description.upper()', 'NETFLIX.COM 0012 AB'),
    ('fuzzy("NETFLIX")', True), ('fuzzy("NETFLX")', True), ('fuzzy("ZZZZZZZZ")', False), ('big', True), ('true', True), ('false', False), ('lim', 10),
    ('(TOTALQ := 5) and totalq == 5', True), ('(q := len(orders)) and Q == 3', True), ('len([lim.qty for lim in orders]) + lim', 13), ('any(lim.qty > 1 for lim in orders) and lim == 10', True), ('all(lim.qty > 1 for lim in orders) or lim == 10', True),
    ('next(lim.qty for lim in orders) == 2 and lim == 10', True), ('next((o.qty for o in orders for lim in refunds if lim.id == "78"), 0) == 2 and lim == 10', True), ('[big.qty for big in orders]', [2, 1, 5]),
    ('[R.qty for r in orders]', [2, 1, 5]), ('len([label for label in orders]) == 3 and label == "net"', True),
    ('[r.item for r in orders if r.item == "CABLE"]', ['Cable', 'cable']), ('any(r.item == "MOUSE" for r in orders)', True), ('"cable" in [r.item for r in orders]', True),
    # membership in a list is any(x == e ...) with the == of the language: letter case ignored, a date equals its ISO string
    ('"MOUSE" in [r.item for r in orders]', True), ('"mouse" in [r.item for r in orders]', True), ('"mouse" not in [r.item for r in orders]', False),
    ('"Mouse" not in [r.item for r in orders]', False), ('"pen" in [r.item for r in orders]', False), ('"pen" not in [r.item for r in orders]', True),
    ('"2025-03-09" in [r.day for r in dated]', True), ('date in [r.iso for r in dated]', True), ('date not in [r.iso for r in dated]', False), ('"2025-03-11" in [r.day for r in dated]', False),
    ('date in [r.day for r in dated]', True), ('any(r.day == "2025-03-09" for r in dated)', True),
    ('"MOUSE" in [r.item for r in orders] and any(r.item == "MOUSE" for r in orders)', True), ('2 in [r.qty for r in orders]', True), ('9 in [r.qty for r in orders]', False),
    # the reference's "orders within 3 days": the difference of two dates is a number of days
    ('[r.kind for r in dated if abs(r.day - txn.date) <= 3]', ['ach', 'WIRE']), ('[r.kind for r in dated if r.day - date >= 1]', ['ach']), ('date - date == 0', True),
    ('[r.day - date for r in dated]', [1, 0]), ('len([r for r in dated if abs(r.day - txn.date) <= 0])', 1),
    # scoping like Python: a name bound to None stays bound after a comprehension reuses it; a loop variable named txn / field is that variable
    ('((x := None) == None) and (len([x for x in orders]) == 3) and (x == None)', True), ('((x := None) == None) and any(x.qty > 1 for x in orders) and (x == None)', True),
    ('sum(txn.amount for txn in orders)', 38.5), ('[txn.qty for txn in orders]', [2, 1, 5]), ('len([field for field in orders if field.id == "78"])', 1),
    ('sum(Txn.amount for Txn in orders)', 38.5), ('[FIELD.qty for FIELD in orders]', [2, 1, 5]), ('sum(TXN.amount for txn in orders)', 38.5),
    ('sum(txn.amount for txn in orders) > 0 and txn.amount == 15.5', True), ('len([field.id for field in orders]) == 3 and field.kind == "wire"', True),
    # ... also when the comprehension could not be evaluated and exists() went on after the failure: the loop variable is gone, the primitive it hid is back
    ('exists([amount.nope for amount in orders]) or amount == 15.5', True), ('(not exists([lim.nope for lim in orders])) and lim == 10', True),
    ('exists([o.qty for o in orders for amount in refunds if amount.nope]) or amount == 15.5', True),
    # any() / all() / next() stop at the first element that decides, like Python's: an element after it that cannot be evaluated is never looked at
    ('any(r.day == date for r in mixed)', True), ('all(r.day != date for r in mixed)', False), ('next(r.n for r in mixed if r.day == date)', 1),
    ('any((hit := r).n == 1 for r in mixed) and hit.n == 1', True),
    # an optional group that takes no part in the match: extract() returns text ("empty string if no match or no capture group"), never None
    ('extract("COM(X)?")', ''), ('extract("COM(X)?") == ""', True), ('extract(field.code, "AB(-99)?")', ''), ('extract("COM( \\d+)?")', ' 0012'),
    ('"a" in [r.id for r in empty]', False), ('field.kind in [r.kind for r in dated]', True), ('field.kind not in [r.kind for r in dated]', False),
]


MUST_FAIL = ['not exists([r.nope for r in orders]) and r', 'exists([r.qty for r in orders if r.nope]) or r.qty > 0',
             'len([r for r in orders]) > 0 and r', 'any(r.qty > 1 for r in orders) and r.qty > 1', '[r for r in orders if r.qty > 9] == [] and r', 'sum(r.qty for r in orders) > 0 and r',
             '[o.id for o in orders for r in refunds] and o', '[o.id for o in orders for r in refunds if r.id == "zz"] == [] and r', 'nosuch', 'field.nosuch', 'txn.nosuch']


def scope_suite():
    """loop variables do not outlive their comprehension (whether or not an item passed the conditions); unknown names are expression errors"""
    for expr in MUST_FAIL:
        O.case(('must_fail', expr))
        got = tally_eval(expr)
        if got[0] != 'err':
            O.fail('C04.scope.name_resolves_outside_its_scope', {'expr': expr}, 'ExpressionError (unknown variable)', got)


def table_suite():
    for expr, want in TABLE:
        O.case(('table', expr))
        got = tally_eval(expr)
        if got[0] != 'ok' or got[1] != want or (isinstance(want, bool) != isinstance(got[1], bool)):
            O.fail('C04.table.%s' % re.sub(r'\W+', '_', expr.split('(')[0])[:24], {'expr': expr}, want, got, 'documented meaning (tally reference)')
    # repeated evaluation must not change the answer (pattern caches, scopes)
    for expr, want in TABLE:
        O.case(('again', expr))
        got = tally_eval(expr)
        if got[0] != 'ok' or got[1] != want:
            O.fail('C04.result_changes_on_re_evaluation', {'expr': expr}, want, got)


def laws_suite():
    pool = BOOLS + ['contains("net")', 'regex("^x")', 'any(r.qty > 4 for r in orders)', 'amount / zero', 'date >= "2025-01-01"', '"x" in description', 'unknown_name', 'field.nope == "a"']
    for a in pool:
        O.case(('law', 'dneg', a))
        if truth('not not (%s)' % a) != truth(a):
            O.fail('C04.law.double_negation', {'expr': a}, truth(a), truth('not not (%s)' % a))
    for a, b in itertools.product(pool, repeat=2):
        O.case(('law', 'demorgan', a, b))
        for l, r in (('not ((%s) and (%s))' % (a, b), '(not (%s)) or (not (%s))' % (a, b)), ('not ((%s) or (%s))' % (a, b), '(not (%s)) and (not (%s))' % (a, b))):
            if truth(l) != truth(r) and not (truth(l)[0] == 'err' and truth(r)[0] == 'err'):
                O.fail('C04.law.de_morgan', {'expr': l, 'rewritten': r}, truth(l), truth(r))
        if truth(a)[0] == 'ok' and truth(b)[0] == 'ok':
            for op in ('and', 'or'):
                if truth('(%s) %s (%s)' % (a, op, b)) != truth('(%s) %s (%s)' % (b, op, a)):
                    O.fail('C04.law.operand_swap', {'expr': '(%s) %s (%s)' % (a, op, b)}, truth('(%s) %s (%s)' % (a, op, b)), truth('(%s) %s (%s)' % (b, op, a)))
    nums = ['amount', 'lim', '2', 'month', 'zero', 'len(orders)', '15.5']
    for a, b, c in itertools.product(nums, repeat=3):
        for o1, o2 in itertools.product(('<', '<=', '>', '>=', '==', '!='), repeat=2):
            if (sum(map(ord, a + b + c + o1 + o2)) + O.seed) % 8 and O.tier == 'quick':
                continue
            O.case(('law', 'chain', a, o1, b, o2, c))
            l, r = '%s %s %s %s %s' % (a, o1, b, o2, c), '(%s %s %s) and (%s %s %s)' % (a, o1, b, b, o2, c)
            if truth(l) != truth(r):
                O.fail('C04.law.comparison_chain', {'expr': l, 'rewritten': r}, truth(r), truth(l))
    # chains through dates, ISO strings and text: every link sees its comparator's own value
    mixed = ['date', '"2025-06-01"', '"20250101"', '"on 2025-06-01"', 'description', '"NETFLIX.com 0012 AB"', 'label']
    for a, b, c in itertools.product(mixed, repeat=3):
        for o1, o2 in itertools.product(('<', '>=', '==', '!=', 'in'), repeat=2):
            O.case(('law', 'chain.mixed', a, o1, b, o2, c))
            l, r = '%s %s %s %s %s' % (a, o1, b, o2, c), '(%s %s %s) and (%s %s %s)' % (a, o1, b, b, o2, c)
            if truth(l) != truth(r) and not (truth(l)[0] == 'err' and truth(r)[0] == 'err'):
                O.fail('C04.law.comparison_chain.mixed_types', {'expr': l, 'rewritten': r}, truth(r), truth(l))
    for expr, want in TABLE:
        for variant in case_variants(expr):
            O.case(('law', 'case', variant))
            got = tally_eval(variant)
            base = tally_eval(expr)
            if got != base and not (isinstance(base[1], str) and got[0] == 'ok' and isinstance(got[1], str) and got[1].lower() == base[1].lower()):
                O.fail('C04.law.letter_case', {'expr': expr, 'rewritten': variant}, base, got)


def case_variants(expr):
    """change the letter case of function names, variable names and of ASCII text in case-insensitive positions"""
    out = []
    m = re.match(r'^([a-z_]+)\(', expr)
    if m and m.group(1) not in ('len', 'sum', 'any', 'all', 'next', 'min', 'max'):
        out.append(m.group(1).upper() + expr[len(m.group(1)):])
    for name in ('description', 'amount', 'month', 'label', 'big', 'lim', 'source', 'date'):
        if re.search(r'\b%s\b' % name, expr) and '"' not in expr.split(name)[0][-1:]:
            out.append(re.sub(r'\b%s\b' % name, name.upper(), expr, count=1))
    if re.match(r'^(contains|startswith|anyof|normalized)\(', expr) or ' in description' in expr or re.search(r'(==|!=) "', expr):
        out.append(re.sub(r'"([^"\\]*)"', lambda mm: '"' + mm.group(1).swapcase() + '"', expr))
    return [v for v in out if v != expr]


FILTER_TXNS = [{'amount': 10.0, 'date': date(2025, 1, 5)}, {'amount': 30.0, 'date': date(2025, 2, 5)}, {'amount': 5.0, 'date': date(2025, 2, 9)}]


def filter_eval(expr):
    """the merchant-level evaluator used by view filters (ExpressionEvaluator): same reference, other primitives"""
    ctx = ep.ExpressionContext(transactions=[dict(t) for t in FILTER_TXNS], num_months=12, variables={'lim': 10, 'zero': 0, 'flag': True, 'name': 'Net'})
    try:
        return ('ok', ep.evaluate(expr, ctx))
    except ep.ExpressionError as e:
        return ('err', str(e)[:60])
    except Exception as e:
        return ('exc', '%s: %s' % (type(e).__name__, e))


def filter_suite():
    ns = {'lim': 10, 'zero': 0, 'flag': True, 'true': True, 'false': False, 'months': 2, 'total': 45.0, 'name': 'Net'}
    atoms = ['lim', 'zero', 'flag', 'false', 'months', 'total', '3', '0', '45.0']

    def py(expr):
        try:
            return ('ok', eval(expr, {'__builtins__': {'abs': abs, 'round': round}}, dict(ns)))
        except ZeroDivisionError:
            return ('ok', 0)
        except Exception:
            return ('err', None)

    def one(expr, want=None):
        O.case(('filter', expr))
        a, b = filter_eval(expr), (py(expr) if want is None else ('ok', want))
        if b[0] == 'ok' and (a[0] != 'ok' or norm(a[1]) != norm(b[1]) or isinstance(a[1], bool) != isinstance(b[1], bool)):
            O.fail('C04.filter.differs.%s' % kind_of(expr), {'filter': expr}, repr(b[1]), '%s %r' % a, 'expr_parser.evaluate (ExpressionEvaluator) vs CPython eval')
        elif a[0] == 'exc':
            O.fail('C04.filter.non_expression_error', {'filter': expr}, 'ExpressionError', a[1])
    for a, b in itertools.product(atoms, repeat=2):
        for op in ('+', '-', '*', '/', '%', '<', '<=', '>', '>=', '==', '!='):
            one('%s %s %s' % (a, op, b))
        for op, f in (('and', lambda x, y: bool(x and y)), ('or', lambda x, y: bool(x or y))):
            one('%s %s %s' % (a, op, b), f(ns.get(a, None) if a in ns else eval(a), ns.get(b, None) if b in ns else eval(b)))
        one('%s if %s else %s' % (a, b, b))
    for a in atoms:
        one('not %s' % a)
        one('-%s' % a) if a not in ('flag', 'false') else None
        for op in ('and', 'or'):
            short = (op == 'and') != bool(py(a)[1])
            O.case(('filter.short', a, op))
            got = filter_eval('%s %s nosuch' % (a, op))
            if short and got != ('ok', op == 'or'):
                O.fail('C04.filter.short_circuit', {'filter': '%s %s nosuch' % (a, op)}, op == 'or', got)
            if not short and got[0] != 'err':
                O.fail('C04.filter.short_circuit.right_operand_not_evaluated', {'filter': '%s %s nosuch' % (a, op)}, 'ExpressionError', got)
    for a, b, c in itertools.product(['lim', 'months', 'zero', 'total', '3'], repeat=3):
        for o1, o2 in (('<', '<'), ('<=', '>'), ('>', '=='), ('!=', '<='), ('==', '>=')):
            one('%s %s %s %s %s' % (a, o1, b, o2, c))
    for expr, want in (('name == "NET"', True), ('name != "net"', False), ('name == "Nets"', False), ('"NET" == name', True)):
        one(expr, want)


# reference meaning of the string functions (language reference), for replaying solver counterexamples on the real functions
REF_FN = {
    'contains': lambda d, a: (a[-1].upper() in (d if len(a) == 1 else a[0]).upper()) if len(a) in (1, 2) else ERR,
    'startswith': lambda d, a: ((d if len(a) == 1 else a[0]).upper().startswith(a[-1].upper())) if len(a) in (1, 2) else ERR,
    'anyof': lambda d, a: any(p.upper() in d.upper() for p in a),
    'trim': lambda d, a: (d if not a else a[0]).strip() if len(a) <= 1 else ERR,
    'uppercase': lambda d, a: a[0].upper() if len(a) == 1 else ERR,
    'lowercase': lambda d, a: a[0].lower() if len(a) == 1 else ERR,
    'strip_prefix': lambda d, a: (a[0][len(a[1]):] if a[0].upper().startswith(a[1].upper()) else a[0]) if len(a) == 2 else ERR,
    'strip_suffix': lambda d, a: (a[0][:len(a[0]) - len(a[1])] if a[1] and a[0].upper().endswith(a[1].upper()) else a[0]) if len(a) == 2 else ERR,
}
ERR = ('err',)


def replay_models():
    """every refuted string-function obligation comes with the solver's model (description, arguments): call the real function on exactly those values"""
    for h in O.hints:
        meta = h.get('meta') or {}
        model = h.get('model') or {}
        if meta.get('replay') != 'string_function' or 'description' not in model:
            continue
        fn, n = meta['fn'], meta['arity']
        desc = model['description']
        args = [model.get('arg%d' % i) for i in range(n)]
        if not isinstance(desc, str) or not all(isinstance(x, str) for x in args):
            continue
        O.case(('model', fn, desc, tuple(args)))
        ctx = ep.TransactionContext(description=desc, amount=1.0)
        try:
            got = ('ok', getattr(ctx, '_fn_' + fn)(*args))
        except ep.ExpressionError:
            got = ERR
        except Exception as e:
            got = ('exc', type(e).__name__)
        want = REF_FN[fn](desc, args)
        want = want if want is ERR else ('ok', want)
        if got != want:
            O.fail('C04.model_replay.%s' % fn, {'function': fn, 'description': desc, 'args': args, 'from_obligation': h.get('id')}, want, got,
                   'TransactionContext(description)._fn_%s(*args) on the solver counterexample' % fn)


def reference_examples_suite():
    """every rule expression printed by `tally reference` (after match: / let: / field:) is an expression of the language: it parses"""
    import ref_examples
    for kind, expr in ref_examples.examples(('match', 'let', 'field')):
        O.case(('reference', kind, expr))
        try:
            ep.parse_expression(expr)
        except ep.ExpressionError as e:
            O.fail('C04.reference_example_is_not_an_expression', {'reference_example': expr, 'directive': kind}, 'parses', str(e)[:120], 'parse_expression on the example text from commands/reference.py')


def engine_suite():
    """MerchantEngine.match over single-rule files: top-level variables are user variables like any other - a later one may use an earlier one"""
    from tally.merchant_engine import parse_merchants
    cases = [
        ('is_large = amount > 10\nis_march = month == 3\nsplurge = is_large and is_march\n', 'splurge', True),
        ('is_large = amount > 10\nis_may = month == 5\nsplurge = is_large and is_may\n', 'splurge', False),
        ('base = 10\nlimit = base + 5\nover = amount > limit\n', 'over', True),
        ('base = 10\nlimit = base + 6\nover = amount > limit\n', 'over', False),
        ('a = 1\nb = a + 1\nc = b + 1\n', 'c == 3', True),
        ('later = first + 1\nfirst = 1\n', 'first == 1', True),
    ]
    for header, cond, want in cases:
        text = header + '\n[R]\nmatch: %s\ncategory: C\n' % cond
        O.case(('engine', text))
        try:
            got = parse_merchants(text).match(dict(TXN), data_sources=ROWS).matched
        except Exception as e:
            got = '%s: %s' % (type(e).__name__, e)
        if got != want:
            O.fail('C04.engine.top_level_variables_see_earlier_ones', {'engine_rules': text}, want, got, 'parse_merchants(text).match(txn).matched')


def walrus_generator_suite():
    """a generator expression kept in a := name and advanced twice with next(): Python advances the same iterator"""
    for expr, want in (('((g := (r.qty for r in orders)) != 0) and (next(g, 0) + next(g, 0) == 3)', True),
                       ('((g := (r.item for r in orders)) != 0) and (next(g) == "Cable") and (next(g) == "Mouse")', True)):
        O.case(('walrus_generator', expr))
        got = tally_eval(expr)
        if got != ('ok', want):
            O.fail('C04.generator_bound_with_walrus_is_not_an_iterator', {'walrus_generator': expr}, want, list(got), 'evaluate_transaction')


def main():
    replay_models()
    if O.witness:
        w = O.witness
        if 'rewritten' in w:
            O.case(('w',))
            a, b = truth(w['expr']), truth(w['rewritten'])
            if a != b:
                O.fail('C04.law.witness', w, a, b)
        elif 'function' in w:
            O.hints = [{'meta': {'replay': 'string_function', 'fn': w['function'], 'arity': len(w['args'])}, 'id': w.get('from_obligation'),
                        'model': dict([('description', w['description'])] + [('arg%d' % i, x) for i, x in enumerate(w['args'])])}]
            replay_models()
        elif 'filter' in w:
            filter_suite()
        elif 'reference_example' in w:
            reference_examples_suite()
        elif 'engine_rules' in w:
            engine_suite()
        elif 'walrus_generator' in w:
            walrus_generator_suite()
        elif w['expr'] in MUST_FAIL:
            scope_suite()
        else:
            check_diff(w['expr'])
            for expr, want in TABLE:
                if expr == w['expr'] and tally_eval(expr) != ('ok', want):
                    O.fail('C04.table.witness', w, want, tally_eval(expr))
        O.finish()
    table_suite()
    reference_examples_suite()
    engine_suite()
    walrus_generator_suite()
    diff_suite()
    bool_suite()
    scope_suite()
    filter_suite()
    laws_suite()
    table_suite()
    O.sample({'expr': '[r.item for r in orders if len([r for r in refunds if r.amount == amount]) > 0]'})
    O.finish()


O.guard(main)
