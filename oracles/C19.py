"""Bounded stand-in / replay oracle for C19: every rule that `tally discover` proposes must load and, once given a category,
match the very description it was suggested for; appending the suggestions must shrink the Unknown list."""
import itertools
import json
import os

from oracle_lib import Oracle
from cmd_lib import Budget, run_cmd

from tally.commands.discover import cmd_discover, suggest_pattern, suggest_merchant_name, suggest_merchants_rule
from tally.merchant_engine import parse_merchants

O = Oracle()
TOKENS = ['STARBUCKS', 'STORE', 'Cafe', "JOE'S", 'A.B', 'C*D', 'X+Y', '(NEW)', 'WHAT?', '[Z]', 'A|B', 'P$', '^Q', 'R{2}', 'BACK\\SLASH', 'QUO"TE', '00012345',
          '#1234', 'WA', '98101', 'SQ', '*MARKET', 'TST*', 'APLPAY', 'Spaßbad', 'É', 'İstanbul', 'ﬁsh', '12', 'A,B', 'x=y', 'tab\tsep',
          '#12A', '#7-X', 'CRISP', 'SHOPP*MART', 'GOOGLE', '#9',
          # a long number directly followed by text (a store id with a suffix, an amount inside the description)
          '5744A21', '0042.50', '12345X',
          # characters a bank export can carry that cannot stand in a rules file as they are (a NUL byte, other control characters)
          'A\x00B', 'BEL\x07L', 'C1\x9fX',
          # characters outside the Basic Multilingual Plane (an escape written as a surrogate pair would not be read back as the character)
          '\U0001F355', 'BOBA\U0001F9CB']
PREFIXES = ['', 'SQ *', 'TST* ', 'APLPAY ', 'PP*', 'GOOGLE *', 'SP ']


def rule_for(desc):
    pattern = suggest_pattern(desc)
    merchant = suggest_merchant_name(desc)
    return suggest_merchants_rule(merchant, pattern, tags=[])


def check_desc(desc):
    O.case(desc)
    w = {'description': desc}
    try:
        text = rule_for(desc).replace('category: CATEGORY', 'category: Cat').replace('subcategory: SUBCATEGORY', 'subcategory: Sub')
    except Exception as e:
        O.fail('C19.suggestion_crashes', w, 'a rule text', '%s: %s' % (type(e).__name__, e))
        return
    try:
        eng = parse_merchants(text)
    except Exception as e:
        O.fail('C19.suggested_rule_not_loadable', dict(w, rule=text), 'accepted by the rules loader', '%s: %s' % (type(e).__name__, e), 'parse_merchants(suggested rule)')
        return
    try:
        res = eng.match({'description': desc, 'amount': 10.0})
    except Exception as e:
        O.fail('C19.suggested_rule_fails_to_evaluate', dict(w, rule=text), 'matches', '%s: %s' % (type(e).__name__, e))
        return
    if not res.matched:
        words = len(desc.split())
        key = 'C19.suggested_rule_does_not_match'
        O.fail(key, dict(w, rule=text), 'the suggested rule matches the description it was suggested for', 'no match', 'parse_merchants(rule).match(description)')


def check_loop(transforms=''):
    """discover -> write the suggested rules -> discover again: the Unknown list must shrink to nothing (also when the rules file has field
    transforms: rules are matched against the transformed description)"""
    b = Budget()
    try:
        descs = ['STARBUCKS STORE 00012345 SEATTLE WA', 'SQ *FARMERS MARKET', "JOE'S DINER #12", 'ACME.COM*ORDER', 'PLAIN', 'PAYPAL *SPOTIFY', 'DD *DOORDASH WENDYS']
        b.write('data/card.csv', 'Date,Description,Amount\n' + ''.join('01/0%d/2025,%s,%d.00\n' % (i + 1, d, 10 + i) for i, d in enumerate(descs)))
        b.write('config/merchants.rules', transforms + '[Plain]\nmatch: contains("PLAIN")\ncategory: P\nsubcategory: Q\n')
        b.settings({'year': 2025, 'merchants_file': 'config/merchants.rules',
                    'data_sources': [{'name': 'Card', 'file': 'data/card.csv', 'format': '{date:%m/%d/%Y}, {description}, {amount}'}]})
        out, err, code = run_cmd(cmd_discover, config=b.config, settings='settings.yaml', limit=0, format='json')
        O.case(('loop', 1))
        try:
            disc = json.loads(out[out.index('['):])
        except Exception:
            O.fail('C19.discover_failed', {'loop': 1}, 'JSON', (out + err)[-200:])
            return
        rules = '\n\n'.join(d['suggested_rule'].replace('CATEGORY', 'Cat').replace('SUBCATEGORY', 'Sub') for d in disc)
        with open(os.path.join(b.config, 'merchants.rules'), 'a') as f:
            f.write('\n\n' + rules + '\n')
        out2, err2, code2 = run_cmd(cmd_discover, config=b.config, settings='settings.yaml', limit=0, format='json')
        O.case(('loop', 2))
        left = None
        if 'No unknown transactions' in out2:
            left = []
        else:
            try:
                left = [d['raw_description'] for d in json.loads(out2[out2.index('['):])]
            except Exception:
                left = ['<discover failed: %s>' % (out2 + err2)[-150:]]
        if left:
            O.fail('C19.unknown_list_does_not_shrink', {'loop': [d['raw_description'] for d in disc], 'transforms': transforms}, [], left, 'discover; append suggested rules; discover')
    finally:
        b.close()


def check_csv_format():
    """`tally discover --format csv` proposes rows for a legacy merchant_categories.csv: each row, once given a category, is read back by the CSV rules
    loader as a rule that matches the description it was proposed for (quotes and commas in a description are written the way the CSV format asks)"""
    from tally.merchant_utils import get_all_rules, normalize_merchant, clear_engine_cache
    b = Budget()
    try:
        descs = ['PLAIN SHOP', '"BEST" BBQ AUSTIN', 'ACME, INC', 'COMMA,QUOTE" MIX', "JOE'S DINER"]
        b.write('data/card.csv', 'Date,Description,Amount\n' + ''.join('01/0%d/2025,"%s",%d.00\n' % (i + 1, d.replace('"', '""'), 10 + i) for i, d in enumerate(descs)))
        b.write('config/merchants.rules', '[Nothing]\nmatch: contains("ZZZZZZ")\ncategory: P\nsubcategory: Q\n')
        b.settings({'year': 2025, 'merchants_file': 'config/merchants.rules',
                    'data_sources': [{'name': 'Card', 'file': 'data/card.csv', 'format': '{date:%m/%d/%Y}, {description}, {amount}'}]})
        out, err, code = run_cmd(cmd_discover, config=b.config, settings='settings.yaml', limit=0, format='csv')
        O.case(('csv_format',))
        rows = [l for l in out.splitlines() if l.strip() and not l.startswith('#') and 'CATEGORY' in l]
        path = os.path.join(b.config, 'suggested.csv')
        open(path, 'w').write('Pattern,Merchant,Category,Subcategory\n' + '\n'.join(r.replace('SUBCATEGORY', 'Sub').replace('CATEGORY', 'Cat') for r in rows) + '\n')
        clear_engine_cache()
        tuples = get_all_rules(path)
        missing = []
        for d in descs:
            m, c, s_, info = normalize_merchant(d, tuples, amount=10.0)
            if c != 'Cat':
                missing.append(d)
        if missing or len(rows) != len(descs):
            O.fail('C19.csv_suggestion_does_not_match_its_description', {'csv_format': True}, 'every proposed CSV row, read back by the CSV rules loader, matches its description',
                   {'not matched': missing, 'rows': rows}, 'tally discover --format csv; get_all_rules(csv) + normalize_merchant')
    finally:
        b.close()


def check_loop_custom_fields():
    """discover -> append -> discover with transforms that read and rewrite custom columns: classification transforms the captures once; the suggestion has to be
    built from the description the rules saw, not from transforms applied a second time to already transformed fields"""
    b = Budget()
    try:
        b.write('data/card.csv', 'Date,Description,Memo,Amount\n01/10/2025,CARD PAYMENT,REF77/BLUE BOTTLE/OAKLAND,12.00\n01/11/2025,CARD PMT,REF78/TARTINE/SF,9.00\n01/12/2025,PLAIN,x/y/z,3.00\n')
        b.write('config/merchants.rules', 'field.memo = split(field.memo, "/", 1)\nfield.description = field.memo if startswith("CARD") else field.description\n\n'
                                          '[Plain]\nmatch: contains("PLAIN")\ncategory: P\nsubcategory: Q\n')
        b.settings({'year': 2025, 'merchants_file': 'config/merchants.rules',
                    'data_sources': [{'name': 'Card', 'file': 'data/card.csv', 'format': '{date:%m/%d/%Y}, {description}, {memo}, {amount}'}]})
        out, err, code = run_cmd(cmd_discover, config=b.config, settings='settings.yaml', limit=0, format='json')
        O.case(('loop_fields', 1))
        try:
            disc = json.loads(out[out.index('['):])
        except Exception:
            O.fail('C19.discover_failed', {'loop_fields': 1}, 'JSON', (out + err)[-200:])
            return
        rules = '\n\n'.join(d['suggested_rule'].replace('CATEGORY', 'Cat').replace('SUBCATEGORY', 'Sub') for d in disc)
        with open(os.path.join(b.config, 'merchants.rules'), 'a') as f:
            f.write('\n\n' + rules + '\n')
        out2, err2, code2 = run_cmd(cmd_discover, config=b.config, settings='settings.yaml', limit=0, format='json')
        O.case(('loop_fields', 2))
        left = [] if 'No unknown transactions' in out2 else None
        if left is None:
            try:
                left = [d['raw_description'] for d in json.loads(out2[out2.index('['):])]
            except Exception:
                left = ['<discover failed: %s>' % (out2 + err2)[-150:]]
        if left:
            O.fail('C19.unknown_list_does_not_shrink', {'loop_fields': True, 'suggested': [d['suggested_rule'] for d in disc]}, [], left, 'discover; append suggested rules; discover (transforms on custom columns)')
    finally:
        b.close()


def main():
    if O.witness and 'csv_format' in O.witness:
        check_csv_format()
        O.finish()
    if O.witness and 'loop_fields' in O.witness:
        check_loop_custom_fields()
        O.finish()
    if O.witness:
        if 'description' in O.witness:
            check_desc(O.witness['description'])
        else:
            check_loop(O.witness.get('transforms', ''))
        O.finish()
    n = 0
    maxlen = 3 if O.tier == 'quick' else 4
    for L in range(1, maxlen + 1):
        for toks in itertools.permutations(TOKENS, L):
            n += 1
            if L == 3 and (n + O.seed) % (11 if O.tier == 'quick' else 2):
                continue
            if L == 4 and (n + O.seed) % 97:
                continue
            for pre in (PREFIXES if L <= 2 else PREFIXES[:1]):
                for sep in (' ', '  '):
                    check_desc(pre + sep.join(toks))
    check_loop_custom_fields()
    check_csv_format()
    check_loop()
    check_loop('field.description = regex_replace(field.description, "^PAYPAL \\\\*", "")\n\n')
    check_loop('field.description = regex_replace(regex_replace(field.description, "^DD \\\\*DOORDASH ", ""), "^SQ \\\\*", "SQUARE ")\n\n')
    O.sample({'description': 'STARBUCKS STORE 00012345'})
    O.finish()


O.guard(main)
