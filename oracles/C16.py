"""Bounded stand-in / replay oracle for C16: on generated budgets, `tally discover` must list exactly the transactions
`tally up` leaves Unknown (same counts and totals) and `tally explain` must report the classification `up` assigns."""
import json
import os

from oracle_lib import Oracle
from cmd_lib import Budget, run_cmd, up_args, last_json

from tally.commands.run import cmd_run
from tally.commands.discover import cmd_discover
from tally.commands.explain import cmd_explain
from tally.merchant_utils import explain_description, get_all_rules, get_transforms, normalize_merchant, clear_engine_cache

O = Oracle()

RULES = '''field.description = regex_replace(field.description, "^POS ", "")

[Weekend Tag]
match: contains("MARKET")
tags: market

[Deposits]
match: amount < -100
tags: income

[Coffee]
match: contains("COFFEE")
category: Food
subcategory: Coffee

[Order]
match: contains("ORDER") and any(r.id == extract("ORDER (\\\\d+)") for r in orders)
category: Shopping
subcategory: Online

[Cart]
match: startswith("CART")
category: Food
subcategory: Street

[Coffee Roasters]
match: contains("COFFEE") and contains("ROASTERS") and amount > 100
category: Business
subcategory: Supplies

[Refs]
let: code = extract("REF(\\d+)")
match: code == "77"
category: Refs
subcategory: R

[Named]
match: contains("BAKERY")
merchant: Fancy Bakery Co
category: Food
subcategory: Bakery

[Largest]
match: huge and not contains("COFFEE")
category: Large
subcategory: L

[Stream]
match: contains("STREAM")
category: Media
subcategory: Online

[Prime Stream]
match: contains("STREAM") and contains("PRIME")
category: Subscriptions
'''
RULES = 'huge = amount > 5000\n' + RULES


def make_budget(mode):
    b = Budget()
    b.write('data/card.csv', 'Date,Description,Amount\n01/05/2025,COFFEE SHOP,4.50\n01/06/2025,ORDER 77 STORE,30.00\n01/07/2025,SATURDAY MARKET STALL,12.00\n'
                             '01/08/2025,POS CART 5,7.00\n01/09/2025,UNKNOWN PLACE,9.99\n01/10/2025,COFFEE ROASTERS WHOLESALE,650.00\n01/11/2025,ORDER 99 STORE,15.00\n'
                             '01/12/2025,UNKNOWN PLACE,-3.00\n01/13/2025,PAY REF77 X,5.00\n01/14/2025,CORNER BAKERY,8.00\n01/15/2025,NEW CAR,9000.00\n01/16/2025,POS SQ BLUE BOTTLE 44,6.00\n'
                             # left Unknown but tagged income by a tag-only rule: `up` counts it with the amount it uses for income (positive)
                             '01/17/2025,ACME PAYROLL,-2000.00\n')
    b.write('data/orders.csv', 'Date,Id,Item,Amount\n01/01/2025,77,SECRET ORDER ROW,5.00\n01/02/2025,78,OTHER ROW,6.00\n')
    b.write('config/merchants.rules', RULES)
    b.settings({'year': 2025, 'merchants_file': 'config/merchants.rules', 'rule_mode': mode, 'data_sources': [
        {'name': 'Card', 'file': 'data/card.csv', 'format': '{date:%m/%d/%Y}, {description}, {amount}'},
        {'name': 'orders', 'file': 'data/orders.csv', 'format': '{date:%m/%d/%Y}, {id}, {item}, {amount}', 'columns': {'description': '{item}'}, 'supplemental': True}]})
    return b


def check_budget(mode):
    b = make_budget(mode)
    w = {'rule_mode': mode}
    try:
        out, err, code = run_cmd(cmd_run, **up_args(b, verbose=2))
        up = last_json(out)
        O.case(('up', mode))
        if up is None:
            O.fail('C16.up_failed', w, 'a report', 'exit=%r %s' % (code, (out + err)[-300:]))
            return
        up_unknown = [m for m in up['merchants'] if m['category'] == 'Unknown']
        up_cnt = sum(m['count'] for m in up_unknown)
        up_tot = round(sum(m['total'] for m in up_unknown), 2)
        # discover
        out, err, code = run_cmd(cmd_discover, config=b.config, settings='settings.yaml', limit=0, format='json')
        O.case(('discover', mode))
        try:
            disc = json.loads(out[out.index('['):]) if '[' in out else []
        except Exception:
            disc = None
        if disc is None:
            O.fail('C16.discover_failed', w, 'a JSON list', (out + err)[-300:])
        else:
            d_cnt = sum(d['count'] for d in disc)
            descs = sorted(d['raw_description'] for d in disc)
            raw_unknown = sorted(set(k for m in up_unknown for k in (m.get('raw_descriptions') or {}).keys()))
            if descs != raw_unknown:
                O.fail('C16.discover_lists_other_transactions', w, raw_unknown, descs, 'tally discover --format json vs tally up --format json -vv')
            elif d_cnt != up_cnt:
                O.fail('C16.discover_counts_differ', w, up_cnt, d_cnt)
            else:
                d_tot = round(sum(d['total_spend'] for d in disc), 2)
                if abs(d_tot - up_tot) > 0.005:
                    O.fail('C16.discover_totals_differ', w, {'up: total of the Unknown merchants': up_tot}, {'discover: sum of total_spend': d_tot,
                           'per description': {d['raw_description']: d['total_spend'] for d in disc}}, 'tally discover --format json vs tally up --format json -vv')
        # explain <merchant> for every merchant up reports
        for m in up['merchants']:
            O.case(('explain', mode, m['name']))
            out, err, code = run_cmd(cmd_explain, merchant=[m['name']], config=b.config, settings='settings.yaml', format='json', verbose=0, amount=None,
                                     view=None, category=None, tags=None, month=None, location=None)
            try:
                ex = json.loads(out[out.index('{'):])
            except Exception:
                O.fail('C16.explain_failed', dict(w, merchant=m['name']), 'JSON', (out + err)[-200:])
                continue
            got = (ex.get('name'), ex.get('category'), ex.get('subcategory'), ex.get('count'))
            want = (m['name'], m['category'], m['subcategory'], m['count'])
            if got != want:
                O.fail('C16.explain_merchant_differs', dict(w, merchant=m['name']), want, got, 'tally explain <merchant> --format json')
            pat_up = (m.get('pattern') or {}).get('matched')
            pat_ex = (ex.get('pattern') or {}).get('matched')
            if pat_up != pat_ex:
                O.fail('C16.explain_rule_differs', dict(w, merchant=m['name']), pat_up, pat_ex)
    finally:
        b.close()


def check_explain_raw_command(mode):
    """`tally explain "<raw description>" --amount A` for descriptions that are not in the data: the command must report what up would assign to such a
    transaction (same rules, mode, transforms and supplemental rows)"""
    from tally.config_loader import load_config, load_supplemental_sources
    b = make_budget(mode)
    try:
        path = os.path.join(b.config, 'merchants.rules')
        cfg = load_config(b.config)
        supp = load_supplemental_sources(cfg, b.config)
        for desc, amount in (('ORDER 78 STORE', 11.0), ('ORDER 12345 STORE', 11.0), ('PAY REF77 NEW', 5.0), ('CORNER BAKERY TWO', 8.0), ('COFFEE ROASTERS OUTLET', 650.0), ('STREAM PRIME VIDEO 8842', 14.99)):
            clear_engine_cache()
            rules = get_all_rules(path, match_mode=mode)
            tr = get_transforms(path, match_mode=mode)
            want = normalize_merchant(desc, rules, amount=amount, transforms=tr, data_sources=supp)[:3]
            clear_engine_cache()
            out, err, code = run_cmd(cmd_explain, merchant=[desc], config=b.config, settings='settings.yaml', format='json', verbose=0, amount=amount,
                                     view=None, category=None, tags=None, month=None, location=None)
            O.case(('explain_raw', mode, desc))
            try:
                ex = json.loads(out[out.index('{'):])
                got = (ex.get('merchant'), ex.get('category'), ex.get('subcategory'))
            except Exception:
                got = ('<no explanation>', 'Unknown', 'Unknown') if want[1] == 'Unknown' else ('<no explanation>', None, None)
            if want[1] == 'Unknown':
                continue       # the command prints suggestions instead of a trace for descriptions no rule claims
            if tuple(want) != got:
                O.fail('C16.explain_raw_description.differs.%s' % mode, {'rule_mode': mode, 'raw': desc, 'amount': amount}, list(want), list(got),
                       'tally explain "<description>" --amount vs normalize_merchant with the supplemental rows')
        clear_engine_cache()
    finally:
        b.close()


def check_explain_description(mode):
    """raw description (+ amount) through explain_description versus what normalize_merchant (what up applies) returns"""
    b = make_budget(mode)
    try:
        path = os.path.join(b.config, 'merchants.rules')
        for desc, amount in (('COFFEE SHOP', 4.5), ('SATURDAY MARKET STALL', 12.0), ('SATURDAY MARKET COFFEE', 5.0), ('POS CART 5', 7.0), ('NOTHING', 1.0),
                             ('COFFEE ROASTERS WHOLESALE', 650.0), ('COFFEE ROASTERS WHOLESALE', 20.0), ('PAY REF77 X', 5.0), ('PAY REF78 X', 5.0), ('CORNER BAKERY', 8.0),
                             ('NEW CAR', 9000.0), ('NEW CAR', 90.0), ('POS SQ BLUE BOTTLE 44', 6.0), ('POS NOWHERE KNOWN', 2.0),
                             # most_specific: category from the more specific rule, subcategory from the highest-ranked rule that sets one
                             ('STREAM PRIME VIDEO 8842', 14.99), ('STREAM OTHER', 3.0)):
            clear_engine_cache()
            rules = get_all_rules(path, match_mode=mode)
            tr = get_transforms(path, match_mode=mode)
            want = normalize_merchant(desc, rules, amount=amount, transforms=tr)[:3]
            clear_engine_cache()
            rules2 = get_all_rules(path, match_mode=mode)
            trace = explain_description(desc, rules2, amount=amount, transforms=tr)
            got = (trace['merchant'], trace['category'], trace['subcategory'])
            O.case(('explain_description', mode, desc, amount))
            if tuple(want) != got:
                tagonly = trace.get('matched_rule') and trace['category'] == ''
                key = 'C16.explain_description.tag_only_rule_reported' if tagonly else ('C16.explain_description.differs.%s' % mode)
                O.fail(key, {'rule_mode': mode, 'description': desc, 'amount': amount}, list(want), list(got), 'explain_description vs normalize_merchant')
        clear_engine_cache()
    finally:
        b.close()


def main():
    if O.witness:
        w = O.witness
        if 'raw' in w:
            check_explain_raw_command(w['rule_mode'])
        elif 'description' in w:
            check_explain_description(w['rule_mode'])
        else:
            check_budget(w['rule_mode'])
        O.finish()
    for mode in ('first_match', 'most_specific'):
        check_budget(mode)
        check_explain_description(mode)
        check_explain_raw_command(mode)
    O.sample({'rule_mode': 'first_match'})
    O.finish()


O.guard(main)
