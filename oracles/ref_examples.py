"""The examples printed by `tally reference` (the language reference users read): the expressions after match: / let: / field: / filter: in it."""
import contextlib
import io
import os
import re
import types


def reference_text():
    os.environ['NO_COLOR'] = '1'
    from tally.commands import reference
    buf = io.StringIO()
    with contextlib.redirect_stdout(buf):
        for topic in (None, 'merchants', 'views'):
            try:
                reference.cmd_reference(types.SimpleNamespace(topic=topic))
            except SystemExit:
                pass
    return re.sub(r'\x1b\[[0-9;]*m', '', buf.getvalue())


def examples(kinds):
    """distinct (kind, expression text) pairs in reading order; placeholders like <expression> and prose after `let:` / `field:` are left out"""
    seen, out = set(), []
    for line in reference_text().split('\n'):
        m = re.match(r'^\s*(?:Example:\s*)?(match|filter|let|field):\s*(.+?)\s*$', line)
        if not m:
            continue
        kind, expr = m.groups()
        expr = re.sub(r'\s+#.*$', '', expr).strip()
        if kind not in kinds or expr.startswith('<') or (kind, expr) in seen:
            continue
        if kind in ('let', 'field'):
            mm = re.match(r'^([A-Za-z_][A-Za-z0-9_]*)\s*=\s*(.+)$', expr)
            if not mm:
                continue            # prose ("let: Cache expensive expressions for reuse")
            expr = mm.group(2)
        seen.add((kind, expr))
        out.append((kind, expr))
    return out
