"""Bounded stand-in / replay oracle for C20: every file outside output/ is compared byte for byte before and after each
read-only command; `tally init` on a populated folder; `tally up --migrate`."""
import os

from oracle_lib import Oracle
from cmd_lib import Budget, run_cmd, up_args

from tally.commands.run import cmd_run
from tally.commands.explain import cmd_explain
from tally.commands.discover import cmd_discover
from tally.commands.diag import cmd_diag
from tally.commands.inspect import cmd_inspect
from tally.commands.init import cmd_init

O = Oracle()
CSV_RULES = 'Pattern,Merchant,Category,Subcategory,Tags\nCOFFEE,Coffee,Food,Coffee,daily\nNETFLIX,Netflix,Subs,Stream,\n'
RULES = '[Coffee]\nmatch: contains("COFFEE")\ncategory: Food\nsubcategory: Coffee\n'
DATA = 'Date,Description,Amount\n01/05/2025,COFFEE SHOP,4.50\n01/06/2025,NETFLIX.COM,15.99\n01/07/2025,UNKNOWN PLACE,9.99\n'


def budget(kind, crlf=False):
    b = Budget()
    b.write('data/card.csv', DATA)
    s = 'year: 2025\ndata_sources:\n  - name: Card\n    file: data/card.csv\n    format: "{date:%m/%d/%Y}, {description}, {amount}"\n'
    if kind == 'rules':
        b.write('config/merchants.rules', RULES)
        s += 'merchants_file: config/merchants.rules\n'
        b.write('config/views.rules', '[All]\nfilter: total > 0\n')
        s += 'views_file: config/views.rules\n'
    else:
        b.write('config/merchant_categories.csv', CSV_RULES)
    if crlf:
        s = s.replace('\n', '\r\n')
    b.write('config/settings.yaml', s.encode('utf-8'), binary=True)
    return b


COMMANDS = [
    ('up', cmd_run, lambda b: up_args(b, format='html', verbose=0)),
    ('up -q', cmd_run, lambda b: up_args(b, format='html', quiet=True)),
    ('up --quiet --summary', cmd_run, lambda b: up_args(b, format='summary', summary=True, quiet=True)),
    ('up --format json', cmd_run, lambda b: up_args(b, format='json')),
    ('up --no-embedded-html', cmd_run, lambda b: up_args(b, format='html', embedded_html=False)),
    ('explain', cmd_explain, lambda b: dict(merchant=None, config=b.config, settings='settings.yaml', format='text', verbose=0, amount=None, view=None, category=None,
                                            tags=None, month=None, location=None)),
    ('explain Coffee', cmd_explain, lambda b: dict(merchant=['Coffee'], config=b.config, settings='settings.yaml', format='json', verbose=1, amount=None, view=None,
                                                   category=None, tags=None, month=None, location=None)),
    ('discover', cmd_discover, lambda b: dict(config=b.config, settings='settings.yaml', limit=0, format='text')),
    ('discover --format json', cmd_discover, lambda b: dict(config=b.config, settings='settings.yaml', limit=0, format='json')),
    ('diag', cmd_diag, lambda b: dict(config=b.config, settings='settings.yaml', format='text')),
    ('inspect', cmd_inspect, lambda b: dict(file=os.path.join(b.data, 'card.csv'), rows=3)),
]


def check_readonly(kind):
    for name, fn, mk in COMMANDS:
        b = budget(kind)
        try:
            before = b.snapshot()
            O.case((kind, name))
            out, err, code = run_cmd(fn, **mk(b))
            after = b.snapshot()
            if before != after:
                changed = sorted(set(k for k in set(before) | set(after) if before.get(k) != after.get(k)))
                O.fail('C20.%s.alters_files' % name.split()[0], {'budget': kind, 'command': name}, 'every file outside output/ byte-identical', changed,
                       'tally %s' % name)
            # report files only inside output/
            extra = [p for p in os.listdir(b.root) if p not in ('config', 'data', 'output')]
            if extra:
                O.fail('C20.%s.writes_outside_output' % name.split()[0], {'budget': kind, 'command': name}, 'nothing new outside output/', extra)
        finally:
            b.close()


def check_migrate():
    b = budget('csv')
    try:
        O.case(('migrate',))
        before = b.snapshot()
        run_cmd(cmd_run, **up_args(b, format='summary', summary=True, migrate=True))
        after = b.snapshot()
        w = {'budget': 'csv', 'command': 'up --migrate'}
        bak = after.get('config/merchant_categories.csv.bak')
        if bak != before['config/merchant_categories.csv']:
            O.fail('C20.migrate.original_not_kept_as_backup', w, 'merchant_categories.csv.bak identical to the original', sorted(after))
        if 'config/merchants.rules' not in after:
            O.fail('C20.migrate.no_rules_file', w, 'config/merchants.rules created', sorted(after))
        if not after['config/settings.yaml'].startswith(before['config/settings.yaml']):
            O.fail('C20.migrate.settings_rewritten', w, 'settings.yaml only gains appended lines', after['config/settings.yaml'][:200])
        if after['data/card.csv'] != before['data/card.csv']:
            O.fail('C20.migrate.data_changed', w, 'data untouched', 'data/card.csv changed')
    finally:
        b.close()
    # a merchants.rules that is already there (written by hand, not named in the settings yet) holds the user's work whether or not it loads:
    # a rule with a typo, groundwork without a rule yet, or rules - the migration keeps its bytes under some name
    for what, text in (('with_rules', '[Mine]\nmatch: contains("MINE")\ncategory: Own\n'),
                       ('with_a_typo', '# my rules\n[Mine]\nmatch: contains("MINE"\ncategory: Own\n'),
                       ('groundwork_only', '# thresholds I will use\nbig = amount > 500\nfield.description = regex_replace(field.description, "^X ", "")\n')):
        b = budget('csv')
        try:
            O.case(('migrate', 'existing_rules_file', what))
            b.write('config/merchants.rules', text)
            before = b.snapshot()
            run_cmd(cmd_run, **up_args(b, format='summary', summary=True, migrate=True))
            after = b.snapshot()
            mine = before['config/merchants.rules']
            if not any(v == mine for k, v in after.items() if k.startswith('config/')):
                O.fail('C20.migrate.existing_rules_file_overwritten_without_backup', {'budget': 'csv', 'command': 'up --migrate', 'existing merchants.rules': what},
                       'the bytes of the existing merchants.rules kept under some name in config/', sorted(k for k in after if k.startswith('config/')),
                       'tally up --migrate with a hand-written config/merchants.rules next to the legacy CSV')
        finally:
            b.close()


def check_init():
    for kind, crlf in (('rules', False), ('rules', True), ('csv', False), ('csv', True), ('csv+rules', False)):
        b = budget('csv' if kind == 'csv+rules' else kind, crlf)
        try:
            if kind in ('csv', 'csv+rules'):
                b.write('config/merchant_categories.csv.bak', 'Pattern,Merchant,Category,Subcategory\nOLDBACKUP,Old,Old,Old\n')      # an older backup the user kept
            if kind == 'csv+rules':
                # a legacy CSV next to a hand-written merchants.rules that settings.yaml does not mention yet: init must not touch either
                b.write('config/merchants.rules', '# my own rules\n' + RULES)
            if kind == 'rules':
                os.remove(os.path.join(b.config, 'views.rules'))      # something for init to create
            b.write('config/notes.txt', 'keep me')
            before = b.snapshot(exclude=())
            O.case(('init', kind, crlf))
            out, err, code = run_cmd(cmd_init, dir=b.root)
            after = b.snapshot(exclude=())
            w = {'budget': kind, 'crlf': crlf, 'command': 'init <existing folder>'}
            for path, content in before.items():
                if path == 'config/settings.yaml':
                    if not after.get(path, b'').startswith(content):
                        O.fail('C20.init.settings_not_prefix_preserved', w, 'settings.yaml may only gain appended lines', after.get(path, b'')[:160])
                elif path == 'config/merchant_categories.csv' and kind in ('csv', 'csv+rules'):
                    kept = content in after.values()        # in place, or under a backup name
                    if not kept:
                        O.fail('C20.init.csv_rules_lost', w, 'original CSV kept (in place or as .bak)', sorted(after))
                elif path.endswith('.bak'):
                    if content not in after.values():
                        O.fail('C20.init.older_backup_overwritten', dict(w, file=path), 'the older backup keeps its content (in place or under another name)', sorted(after))
                elif after.get(path) != content:
                    O.fail('C20.init.existing_file_changed', dict(w, file=path), 'unchanged', 'changed or removed')
        finally:
            b.close()


def check_init_nothing_to_migrate():
    """init migrates a legacy CSV only when it has rules: a file with nothing but the header line (and comments) stays where it is - also when an editor
    saved it with a byte order mark"""
    for what, text in (('header_only', 'Pattern,Merchant,Category,Subcategory,Tags\n# add your rules below\n'),
                       ('header_only_with_byte_order_mark', '\ufeffPattern,Merchant,Category,Subcategory,Tags\n# add your rules below\n')):
        b = budget('csv')
        try:
            b.write('config/merchant_categories.csv', text.encode('utf-8'), binary=True)
            before = b.snapshot(exclude=())
            O.case(('init', 'nothing_to_migrate', what))
            run_cmd(cmd_init, dir=b.root)
            after = b.snapshot(exclude=())
            if after.get('config/merchant_categories.csv') != before['config/merchant_categories.csv']:
                O.fail('C20.init.csv_without_rules_moved', {'budget': 'csv', 'command': 'init <existing folder>', 'legacy csv': what}, 'config/merchant_categories.csv left in place, byte-identical',
                       sorted(k for k in after if k.startswith('config/')), 'tally init on a folder whose legacy CSV has no rules')
        finally:
            b.close()


def main():
    if O.witness:
        w = O.witness
        if w.get('command', '').startswith('init'):
            check_init()
            check_init_nothing_to_migrate()
        elif w.get('command') == 'up --migrate':
            check_migrate()
        else:
            check_readonly(w.get('budget', 'rules'))
        O.finish()
    check_readonly('rules')
    check_readonly('csv')
    check_migrate()
    check_init()
    check_init_nothing_to_migrate()
    O.sample({'budget': 'csv', 'command': 'up -q'})
    O.finish()


O.guard(main)
