"""Bounded stand-in / replay oracle for C17: metamorphic layout changes must not change what is read; corruptions must
be rejected with the line number; a rules file that cannot be loaded must be reported, not read as empty."""
import contextlib
import io
import itertools
import os
import shutil
import tempfile
import types

from oracle_lib import Oracle

from tally.merchant_engine import parse_merchants, MerchantParseError
from tally import section_engine, merchant_utils as mu
from tally.section_engine import parse_sections, SectionParseError

O = Oracle()

HEADER_LINES = ['big = amount > 100', 'field.description = regex_replace(field.description, "^X ", "")']
RULE_BLOCKS = [
    ('Netflix', ['match: contains("NETFLIX")', 'category: Subs', 'subcategory: Stream', 'tags: a, {lowercase(source)}, b', 'merchant: Netflix Inc', 'priority: 60']),
    ('Tagger', ['match: big and amount < 1000', 'tags: large']),
    ('WithLet', ['let: x = amount * 2', 'let: y = x + 1', 'match: y > 10', 'category: C', 'field: note = "n"', 'field: other = description']),
    ('Plain', ['match: regex("A|B")', 'category: Cat', 'subcategory: Sub']),
]
VIEW_BLOCKS = [
    ('Top #1', ['description: Stores ranked #1 to #5 by total', 'filter: merchant == "COSTCO WHSE #12" or total > 5']),
    ('Big', ['description: Large ones', 't = 100', 'filter: total > t']),
    ('Food', ['filter: category == "Food"']),
    ('Every Month', ['filter: months >= 6 and cv < 0.3', 'lim = 3']),
]
VIEW_GLOBALS = ['g = 5', 'h = g * 2']


def rules_view(text):
    e = parse_merchants(text)
    return {'rules': [(r.name, r.match_expr, r.category, r.subcategory, r.merchant, sorted(r.tags), r.priority, list(r.let_bindings), dict(r.fields)) for r in e.rules],
            'variables': dict(e.variables), 'transforms': list(e.transforms)}


def views_view(text):
    c = parse_sections(text)
    return {'globals': dict(c.global_variables), 'sections': [(s.name, s.filter_expr, dict(s.variables), s.description) for s in c.sections]}


def build(header, blocks, order=None):
    lines = list(header)
    if header:
        lines.append('')
    for name, props in blocks:
        lines.append('[%s]' % name)
        lines.extend(props)
        lines.append('')
    return lines


def variants(lines, seed):
    """layout-only rewritings"""
    out = []
    out.append(('blank_lines', [x for l in lines for x in (l, '')]))
    out.append(('comments', [x for l in lines for x in ('# comment: not = a rule', l)]))
    out.append(('trailing_blanks', [l + '   ' for l in lines]))
    out.append(('tabs_trailing', [l + '\t' for l in lines]))
    out.append(('crlf', [l + '\r' for l in lines]))
    out.append(('indent_props', [('    ' + l) if (l and not l.startswith('[') and (':' in l.split('=')[0] or l.startswith(('filter', 'description', 'match', 'let', 'field')))) else l for l in lines]))
    out.append(('no_final_blank', [l for l in lines if l != ''] ))
    out.append(('leading_blank', ['', '', '# c'] + lines))
    return out


def check_layout(kind, lines, view_fn, err):
    try:
        base = view_fn('\n'.join(lines))
    except err as e:
        O.case((kind, 'plain', len(lines)))
        O.fail('C17.%s.valid_file_rejected' % kind, {'kind': kind, 'text': '\n'.join(lines)}, 'the sections of the file, one per header', '%s' % e, 'the loader on a valid file')
        return
    for name, v in variants(lines, O.seed):
        O.case((kind, name, len(lines)))
        w = {'kind': kind, 'variant': name, 'text': '\n'.join(v)}
        try:
            got = view_fn('\n'.join(v))
        except err as e:
            O.fail('C17.%s.layout_variant_rejected.%s' % (kind, name), w, 'same result as the plain layout', '%s' % e)
            continue
        if got != base:
            O.fail('C17.%s.layout_changes_result.%s' % (kind, name), w, base, got)
    return base


def check_property_order(kind, header, blocks, view_fn):
    """relative order of a section's distinct properties (let: lines and view variables keep their order)"""
    try:
        base = view_fn('\n'.join(build(header, blocks)))
    except Exception as e:
        O.fail('C17.%s.valid_file_rejected' % kind, {'kind': kind, 'text': '\n'.join(build(header, blocks))}, 'the sections of the file, one per header', '%s' % e, 'the loader on a valid file')
        return
    for bi, (name, props) in enumerate(blocks):
        movable = [p for p in props if not p.startswith(('let:',)) and '=' not in p.split(':')[0]]
        fixed = [p for p in props if p not in movable]
        for perm in itertools.permutations(movable):
            if list(perm) == movable:
                continue
            nb = list(blocks)
            nb[bi] = (name, fixed + list(perm) if kind == 'rules' else list(perm) + fixed)
            O.case((kind, 'order', bi, perm))
            try:
                got = view_fn('\n'.join(build(header, nb)))
            except Exception as e:
                O.fail('C17.%s.property_order_rejected' % kind, {'kind': kind, 'text': '\n'.join(build(header, nb))}, 'same result', str(e))
                continue
            if got != base:
                O.fail('C17.%s.property_order_changes_result' % kind, {'kind': kind, 'text': '\n'.join(build(header, nb))}, base, got)


def check_corruptions(kind, header, blocks, parse, err):
    lines = build(header, blocks)
    corrupt = []
    for i, l in enumerate(lines):
        if kind == 'rules':
            if l.startswith('match:'):
                corrupt.append((i, None, 'missing match'))                         # delete the line
                corrupt.append((i, 'match: contains(', 'invalid match expression'))
                corrupt.append((i, 'match: import os', 'invalid match expression'))
                corrupt.append((i, 'match: ' + ' + '.join(['amount'] * 3000), 'invalid match expression'))      # too deep for the parser: an error of the FILE, not a crash
            if l.startswith('category:'):
                corrupt.append((i, 'categry: X', 'unknown property'))
            if l.startswith('let:'):
                corrupt.append((i, 'let: = 5', 'malformed let'))
                corrupt.append((i, 'let: x = (', 'invalid let expression'))
            if l.startswith('field:'):
                corrupt.append((i, 'field: note', 'malformed field'))
                # an invalid expression that a later line of the same rule overwrites is still a malformed line of the file
                corrupt.append((i, 'field: note = import os\nfield: note = "n"', 'invalid field expression'))
            if l.startswith('match:') and 'NETFLIX' in l:
                corrupt.append((i, 'match: contains(\n' + l, 'invalid match expression'))
            if l.startswith('tags:'):
                corrupt.append((i, 'tags: a, {split(}', 'malformed dynamic tag'))
                corrupt.append((i, 'tags: {lowercase(source}, b', 'malformed dynamic tag'))
                corrupt.append((i, 'tags: {import os}', 'malformed dynamic tag'))
                corrupt.append((i, 'field: note = lambda: 1', 'invalid field expression'))
            if l.startswith('priority:'):
                corrupt.append((i, 'priority: high', 'malformed priority'))
                for bad in ('7.9', '10.0', '1e2', 'inf', '-3.5', '', '5 5', '0x10'):
                    corrupt.append((i, 'priority: ' + bad, 'malformed priority'))
            if l.startswith('big ='):
                corrupt.append((i, 'big = import os', 'invalid variable expression'))
                corrupt.append((i, 'big = (', 'invalid variable expression'))
            if l.startswith('field.description ='):
                corrupt.append((i, 'field.description = lambda: 1', 'invalid transform expression'))
                corrupt.append((i, 'fields.description = "x"', 'malformed assignment'))
            if l.startswith('big ='):
                corrupt.append((i, 'is-large = amount > 500', 'malformed assignment'))
            if l.startswith('['):
                # a damaged header, the first one of the file included (there is no open rule yet that would notice)
                corrupt.append((i, l[1:], 'malformed header'))
                corrupt.append((i, l[:-1], 'malformed header'))
                corrupt.append((i, l + '  # note', 'malformed header'))
        else:
            if l.startswith('filter:'):
                corrupt.append((i, None, 'missing filter'))
                corrupt.append((i, 'filter: total >', 'invalid filter expression'))
                corrupt.append((i, 'filtr: total > 1', 'unknown property'))
            if '=' in l and not l.startswith(('filter', 'description', '[')):
                corrupt.append((i, l.split('=')[0] + '= (', 'invalid variable expression'))
    if kind == 'rules':
        corrupt.append((-1, 'category: Oops', 'property outside a rule'))          # inserted as the first line of the file
        corrupt.append((-1, 'some stray words', 'stray text outside a rule'))
    for i, repl, what in corrupt:
        if i == -1:
            for hdr_lines in (header, []):
                v = [repl] + build(hdr_lines, blocks)
                O.case((kind, 'corrupt', 'first line', repl, len(hdr_lines)))
                w = {'kind': kind, 'corruption': what, 'line': 1, 'text': '\n'.join(v)}
                try:
                    parse('\n'.join(v))
                except err as e:
                    if getattr(e, 'line_number', 0) != 1:
                        O.fail('C17.%s.error_names_wrong_line.%s' % (kind, what.replace(' ', '_')), w, 1, getattr(e, 'line_number', 0))
                    continue
                except Exception as e:
                    O.fail('C17.%s.wrong_exception.%s' % (kind, what.replace(' ', '_')), w, err.__name__, '%s: %s' % (type(e).__name__, e))
                    continue
                O.fail('C17.%s.accepts_malformed.%s' % (kind, what.replace(' ', '_')), w, 'rejected with an error naming the line', 'accepted')
            continue
        v = list(lines)
        if repl is None:
            del v[i]
        else:
            v[i] = repl
        O.case((kind, 'corrupt', i, repl))
        w = {'kind': kind, 'corruption': what, 'line': i + 1, 'text': '\n'.join(v)}
        try:
            parse('\n'.join(v))
        except err as e:
            ln = getattr(e, 'line_number', 0)
            if not ln or ('Line %d' % ln) not in str(e):
                O.fail('C17.%s.error_without_line.%s' % (kind, what.replace(' ', '_')), w, 'an error naming a line', str(e))
            elif repl is not None and ln != i + 1 and not (kind == 'rules' and what.startswith('invalid') and 'variable' not in what
                                                           and 'transform' not in what and ln == max(j for j in range(i) if lines[j].startswith('[')) + 1):
                # (an invalid match/let/field expression is reported against its rule: the header line is accepted)
                O.fail('C17.%s.error_names_wrong_line.%s' % (kind, what.replace(' ', '_')), w, i + 1, ln)
            elif repl is None:
                # a section that lost its match/filter: the error names the section's header line
                hdr = max(j for j in range(i) if lines[j].startswith('[')) + 1
                if ln != hdr:
                    O.fail('C17.%s.error_names_wrong_line.%s' % (kind, what.replace(' ', '_')), w, hdr, ln)
            # line numbers must track inserted blank/comment lines
            if repl is not None:
                v2 = ['# inserted', ''] + v
                try:
                    parse('\n'.join(v2))
                except err as e2:
                    if getattr(e2, 'line_number', 0) != ln + 2:
                        O.fail('C17.%s.error_line_ignores_blank_lines' % kind, w, ln + 2, getattr(e2, 'line_number', 0))
            continue
        except Exception as e:
            O.fail('C17.%s.wrong_exception.%s' % (kind, what.replace(' ', '_')), w, err.__name__, '%s: %s' % (type(e).__name__, e))
            continue
        O.fail('C17.%s.accepts_malformed.%s' % (kind, what.replace(' ', '_')), w, 'rejected with an error naming the line', 'accepted')


def check_one_rule_per_section(kind, header, blocks, view_fn):
    for n in range(1, len(blocks) + 1):
        for combo in itertools.permutations(blocks, n):
            O.case((kind, 'sections', tuple(b[0] for b in combo)))
            got = view_fn('\n'.join(build(header, list(combo))))
            names = [r[0] for r in (got['rules'] if kind == 'rules' else got['sections'])]
            if names != [b[0] for b in combo]:
                O.fail('C17.%s.sections_not_one_to_one' % kind, {'kind': kind, 'text': '\n'.join(build(header, list(combo)))}, [b[0] for b in combo], names)


# every section yields one rule with exactly the stated properties: the tags of a tags: line are its comma-separated parts, where a comma inside a
# {expression} (in a call, a string literal, a list) or inside parentheses of a literal tag separates nothing
STATED_TAGS = [
    ('a, b', ['a', 'b']),
    ('{extract(description, "REF (\\d+)")}, banking', ['{extract(description, "REF (\\d+)")}', 'banking']),
    ('{lowercase(split(description, lowercase(" "), 0))}, z', ['{lowercase(split(description, lowercase(" "), 0))}', 'z']),
    ('tax (us, state), plain', ['tax (us, state)', 'plain']),
    ("kid's, mom's", ["kid's", "mom's"]),
    ('{split(description, ")", 0)}, b', ['{split(description, ")", 0)}', 'b']),
    ('{split(description, "(", 0)}, b', ['{split(description, "(", 0)}', 'b']),
    ('{"x" if source == "a, b" else "y"}, c2', ['{"x" if source == "a, b" else "y"}', 'c2']),
    ('{"a, b"}, d', ['{"a, b"}', 'd']),
    ("{'}, {'}, e", ["{'}, {'}", 'e']),
    ('first, {split(description, "\\"", 0)}, q', ['first', '{split(description, "\\"", 0)}', 'q']),
    (' spaced ,  , {source} ,', ['spaced', '{source}']),
    ('{strip_suffix(description, "\\\\")}, b', ['{strip_suffix(description, "\\\\")}', 'b']),       # the string literal is one escaped backslash: the quote after it closes it
    ('{split(description, "\\\\\\"", 0)}, b', ['{split(description, "\\\\\\"", 0)}', 'b']),     # an escaped backslash, then an escaped quote
    ('a), b, c', ['a)', 'b', 'c']),            # a stray closing parenthesis closes nothing
    ('(open, b', ['(open, b']),                # an opening one keeps what follows together
]


def check_stated_tags():
    for value, want in STATED_TAGS:
        O.case(('stated_tags', value))
        text = '[T]\nmatch: contains("X")\ncategory: C\ntags: %s\n\n[After]\nmatch: contains("Y")\ncategory: D\n' % value
        w = {'kind': 'stated_tags', 'text': text}
        try:
            e = parse_merchants(text)
        except Exception as ex:
            O.fail('C17.rules.valid_tags_line_rejected', w, sorted(want), '%s: %s' % (type(ex).__name__, ex), 'parse_merchants(text)')
            continue
        got = sorted(e.rules[0].tags) if e.rules else None
        if got != sorted(want) or [r.name for r in e.rules] != ['T', 'After']:
            O.fail('C17.rules.tags_not_as_stated', w, sorted(want), got, 'parse_merchants(text).rules[0].tags')


def check_byte_order_mark():
    """a rules / views / legacy CSV rules file saved with a UTF-8 byte order mark (Excel "CSV UTF-8", Notepad) reads like the same file without it"""
    tmp = tempfile.mkdtemp(prefix='c17bom-')
    try:
        from pathlib import Path
        from tally.merchant_engine import load_merchants_file
        csv_text = 'Pattern,Merchant,Category,Subcategory,Tags\nNETFLIX,Netflix,Subs,Stream,a|b\nCOSTCO[amount>5],Costco,Food,Grocery,\n'
        rules_text = '\n'.join(build([], RULE_BLOCKS[:1] + RULE_BLOCKS[3:]))
        rules_text_v = '\n'.join(build(HEADER_LINES, RULE_BLOCKS))
        views_text = '\n'.join(build([], VIEW_BLOCKS))
        views_text_g = '\n'.join(build(VIEW_GLOBALS, VIEW_BLOCKS))

        def load_rules(p):
            e = load_merchants_file(Path(p))
            return ([(r.name, r.match_expr, r.category) for r in e.rules], dict(e.variables), list(e.transforms))

        def load_csv(p):
            return [tuple(r[:4]) + (tuple(r[5]),) for r in mu.load_merchant_rules(p)]

        def load_views(p):
            c = section_engine.load_sections(p)
            return (dict(c.global_variables), [(s.name, s.filter_expr) for s in c.sections])
        for what, name, text, loader in (('rules', 'merchants.rules', rules_text, load_rules), ('rules_with_variables', 'merchants.rules', rules_text_v, load_rules),
                                         ('csv_rules', 'merchant_categories.csv', csv_text, load_csv), ('views', 'views.rules', views_text, load_views),
                                         ('views_with_globals', 'views.rules', views_text_g, load_views)):
            O.case(('bom', what))
            res = []
            for bom in (False, True):
                p = os.path.join(tmp, name)
                with open(p, 'w', encoding='utf-8-sig' if bom else 'utf-8') as f:
                    f.write(text)
                mu.clear_engine_cache()
                try:
                    res.append(loader(p))
                except Exception as e:
                    res.append('%s: %s' % (type(e).__name__, e))
            if res[0] != res[1]:
                O.fail('C17.byte_order_mark_changes_what_is_read.%s' % what, {'kind': 'bom', 'file': name, 'text': text}, res[0], res[1], 'the file loader on the same text saved with / without BOM')
        mu.clear_engine_cache()
    finally:
        shutil.rmtree(tmp, ignore_errors=True)


def check_unloadable_reported():
    """a rules file that cannot be loaded is reported to the user rather than treated as containing no rules"""
    from tally.cli import _check_merchant_migration
    tmp = tempfile.mkdtemp(prefix='c17-')
    try:
        cfg = os.path.join(tmp, 'config')
        os.makedirs(cfg)
        path = os.path.join(cfg, 'merchants.rules')
        open(path, 'w').write('[A]\nmatch: contains("A")\ncategory: C\n\n[B]\nmatch: contains(\ncategory: D\n')
        config = {'_merchants_file': path, '_merchants_format': 'new', 'rule_mode': 'first_match'}
        for quiet, migrate in ((False, False), (True, False), (True, True), (False, True)):       # --quiet silences progress lines, not the report
            O.case(('unloadable', quiet, migrate))
            out, err = io.StringIO(), io.StringIO()
            reported, rules = False, None
            try:
                with contextlib.redirect_stdout(out), contextlib.redirect_stderr(err):
                    rules = _check_merchant_migration(config, cfg, quiet=quiet, migrate=migrate)
            except SystemExit:
                reported = True
            except Exception:
                reported = True          # an exception reaching the command line is a report (ugly, but not silent)
            text = out.getvalue() + err.getvalue()
            if not reported and not any(k in text.lower() for k in ('error', 'invalid', 'line 6', 'could not', 'failed')):
                O.fail('C17.unloadable_rules_file_read_as_empty', {'kind': 'unloadable', 'file': 'merchants.rules with a syntax error in rule 2', 'quiet': quiet, 'migrate': migrate},
                       'an error is reported', 'returned %d rules, output: %s' % (len(rules or []), text.strip()[:200]),
                       '_check_merchant_migration -> get_all_rules')
            mu.clear_engine_cache()
    finally:
        shutil.rmtree(tmp, ignore_errors=True)


def main():
    if not O.witness or (O.witness or {}).get('kind') == 'stated_tags':
        check_stated_tags()
        if O.witness:
            O.finish()
    if O.witness:
        w = O.witness
        if w.get('kind') == 'unloadable':
            check_unloadable_reported()
        elif w.get('kind') == 'bom':
            check_byte_order_mark()
        else:
            fn, err = (rules_view, MerchantParseError) if w['kind'] == 'rules' else (views_view, SectionParseError)
            O.case(('w',))
            try:
                fn(w['text'])
                if 'corruption' in w:
                    O.fail('C17.%s.accepts_malformed.%s' % (w['kind'], w['corruption'].replace(' ', '_')), w, 'rejected', 'accepted')
            except err:
                pass
        O.finish()
    rl = build(HEADER_LINES, RULE_BLOCKS)
    check_layout('rules', rl, rules_view, MerchantParseError)
    vl = build(VIEW_GLOBALS, VIEW_BLOCKS)
    check_layout('views', vl, views_view, SectionParseError)
    check_property_order('rules', HEADER_LINES, RULE_BLOCKS, rules_view)
    check_property_order('views', VIEW_GLOBALS, VIEW_BLOCKS, views_view)
    check_corruptions('rules', HEADER_LINES, RULE_BLOCKS, parse_merchants, MerchantParseError)
    check_corruptions('views', VIEW_GLOBALS, VIEW_BLOCKS, parse_sections, SectionParseError)
    check_one_rule_per_section('rules', HEADER_LINES, RULE_BLOCKS, rules_view)
    check_one_rule_per_section('views', VIEW_GLOBALS, VIEW_BLOCKS, views_view)
    check_unloadable_reported()
    check_byte_order_mark()
    O.sample({'kind': 'rules', 'variant': 'crlf'})
    O.finish()


O.guard(main)
