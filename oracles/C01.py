import match_oracle
match_oracle.run('C01')
