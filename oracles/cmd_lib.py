"""Helpers for command-level oracles: build a budget directory, run a tally command in process, capture output."""
import contextlib
import io
import json
import os
import shutil
import sys
import tempfile
import types

import yaml


class Budget:
    def __init__(self):
        self.root = tempfile.mkdtemp(prefix='budget-')
        self.config = os.path.join(self.root, 'config')
        self.data = os.path.join(self.root, 'data')
        os.makedirs(self.config)
        os.makedirs(self.data)

    def write(self, rel, text, binary=False):
        p = os.path.join(self.root, rel)
        os.makedirs(os.path.dirname(p), exist_ok=True)
        with open(p, 'wb' if binary else 'w', **({} if binary else {'encoding': 'utf-8'})) as f:
            f.write(text)
        return p

    def settings(self, d):
        self.write('config/settings.yaml', yaml.safe_dump(d, sort_keys=False))

    def snapshot(self, exclude=('output',)):
        out = {}
        for dp, dn, fn in os.walk(self.root):
            rel = os.path.relpath(dp, self.root)
            if rel.split(os.sep)[0] in exclude:
                continue
            for f in fn:
                p = os.path.join(dp, f)
                with open(p, 'rb') as fh:
                    out[os.path.relpath(p, self.root)] = fh.read()
        return out

    def close(self):
        shutil.rmtree(self.root, ignore_errors=True)


def run_cmd(fn, **kw):
    """Run a cmd_* function in process with an argparse-like namespace; returns (stdout, stderr, exit code or exception)."""
    from tally import merchant_utils as mu
    mu.clear_engine_cache()
    args = types.SimpleNamespace(**kw)
    out, err = io.StringIO(), io.StringIO()
    code = 0
    cwd = os.getcwd()
    try:
        with contextlib.redirect_stdout(out), contextlib.redirect_stderr(err):
            fn(args)
    except SystemExit as e:
        code = e.code if isinstance(e.code, int) else 1
    except BaseException as e:
        code = '%s: %s' % (type(e).__name__, e)
    finally:
        os.chdir(cwd)
        mu.clear_engine_cache()
    return out.getvalue(), err.getvalue(), code


def up_args(b, **over):
    d = dict(config=b.config, settings='settings.yaml', quiet=False, migrate=False, only=None, category=None, format='json', verbose=1,
             summary=False, output=None, embedded_html=True, group_by='merchant', no_embeddings=True)
    d.update(over)
    return d


def last_json(text):
    """the JSON document printed by --format json (after the progress lines)"""
    i = text.find('\n{\n')
    if i < 0 and text.startswith('{'):
        i = -1
    if i < 0 and not text.startswith('{'):
        return None
    try:
        return json.loads(text[i + 1:])
    except Exception:
        return None
