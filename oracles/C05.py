"""Bounded stand-in / replay oracle for C05: real files through parse_generic_csv / resolve_source_format against a
row-by-row specification, and parse_amount against an exhaustive amount grammar (never counted as proved)."""
import itertools
import math
import os
import shutil
import tempfile
from datetime import datetime
from fractions import Fraction

from oracle_lib import Oracle

from tally.parsers import parse_amount, parse_generic_csv
from tally.format_parser import parse_format_string
from tally.config_loader import resolve_source_format

O = Oracle()
TMP = tempfile.mkdtemp(prefix='c05-')


# ------------------------------------------------------------------ parse_amount
def amount_cases():
    ints = ['0', '7', '42', '100', '1234', '12345', '1234567']
    decs = ['', '5', '50', '05']
    for ip in ints:
        for dp in decs:
            for us in (True, False):
                tsep, dsep = (',', '.') if us else ('.', ',')
                groups = [ip]
                if len(ip) > 3:
                    groups.append(_group(ip, tsep))
                    if not us:
                        groups.append(_group(ip, ' '))
                        groups.append(_group(ip, '\u00a0'))      # no-break space and narrow no-break space: what CLDR-based exports write as the group separator
                        groups.append(_group(ip, '\u202f'))
                for g in groups:
                    body = g + (dsep + dp if dp else '')
                    val = Fraction(int(ip)) + (Fraction(int(dp), 10 ** len(dp)) if dp else 0)
                    for cur in ('', '$', '€', '£', '¥'):
                        for form, sign in (('%s', 1), ('-%s', -1), ('(%s)', -1), (' %s ', 1), ('+%s', 1)):
                            yield form % (cur + body), ('.' if us else ','), sign * val
                        yield '(%s%s)' % (cur, body), ('.' if us else ','), -val
                        if cur:
                            # the currency symbol may stand outside the parentheses, or after the number
                            yield '%s(%s)' % (cur, body), ('.' if us else ','), -val
                            yield '(%s) %s' % (body, cur), ('.' if us else ','), -val
                            yield '%s %s' % (body, cur), ('.' if us else ','), val
                        yield '%s %s' % (cur, body) if cur else body, ('.' if us else ','), val


def _group(ip, sep):
    out = ''
    while len(ip) > 3:
        out = sep + ip[-3:] + out
        ip = ip[:-3]
    return ip + out


def check_amounts():
    for cell, sep, want in amount_cases():
        O.case(('amount', cell, sep))
        w = {'fn': 'parse_amount', 'cell': cell, 'sep': sep}
        try:
            got = parse_amount(cell, sep)
        except Exception as e:
            O.fail('C05.parse_amount.rejects_wellformed', w, float(want), '%s: %s' % (type(e).__name__, e))
            continue
        if got != float(want):
            O.fail('C05.parse_amount.value', w, float(want), got, 'parse_amount(cell, sep)')
    for cell in ('nan', 'NaN', 'inf', '-inf', 'Infinity', '1e999', '-1e999', '(inf)', '$nan', '', ' ', 'abc', '1.2.3', '--5', '()', '1,2,3.4.5'):
        for sep in ('.', ','):
            O.case(('amount-bad', cell, sep))
            try:
                got = parse_amount(cell, sep)
            except ValueError:
                continue
            except Exception as e:
                O.fail('C05.parse_amount.wrong_exception', {'fn': 'parse_amount', 'cell': cell, 'sep': sep}, 'ValueError', type(e).__name__)
                continue
            if not math.isfinite(got):
                O.fail('C05.parse_amount.non_finite', {'fn': 'parse_amount', 'cell': cell, 'sep': sep}, 'ValueError (not a finite number)', repr(got))


# ------------------------------------------------------------------ files
# each pool row: list of cells [date, description, amount, kind, location]
ROWS = [
    ['01/05/2025', 'COFFEE SHOP', '4.50', 'Wire', 'WA'],
    ['01/06/2025', '  PADDED DESC  ', ' 12.00 ', ' ach ', ''],
    ['01/07/2025', 'REFUND', '(20.00)', 'Card', 'CA'],
    ['01/08/2025', 'BIG, WITH COMMA', '$1,234.56', 'Card', 'NY'],
    ['13/45/2025', 'BAD DATE', '5.00', 'x', ''],
    ['01/09/2025', '', '5.00', 'x', ''],
    ['01/10/2025', 'ZERO', '0.00', 'x', ''],
    ['01/11/2025', 'NOT A NUMBER', 'abc', 'x', ''],
    ['01/12/2025', 'NAN AMOUNT', 'nan', 'x', ''],
    ['01/13/2025', 'INF AMOUNT', 'inf', 'x', ''],
    ['01/14/2025  Tue', 'DAY SUFFIX', '-7.25', 'y', ''],
    ['01/15/2025', 'SHORT'],
    [''],
    ['01/16/2025', 'NEGATIVE', '-3.00', '', 'TX'],
    ['', 'NO DATE', '1.00', 'x', ''],
    ['01/17/2025', 'THREE CELLS', '9.00'],
    ['01/18/2025', 'FOUR CELLS', '8.00', 'k4'],
    # the same unparseable date text on consecutive rows: each of them is malformed on its own
    ['Pending', 'PENDING ONE', '3.00', 'p', ''],
    ['Pending', 'PENDING TWO', '4.00', 'p', ''],
    # every cell a description template could take its text from is blank: under a template made of placeholders only the description is empty
    ['01/19/2025', '  ', '6.00', '', ''],
]
FORMATS = [
    ('{date:%m/%d/%Y}, {description}, {amount}', None),
    ('{date:%m/%d/%Y}, {description}, {-amount}, {kind}, {location}', None),
    ('{date:%m/%d/%Y}, {description}, {+amount}, {kind}', None),
    ('{date:%m/%d/%Y}, {memo}, {amount}, {kind}', '{kind}: {memo}'),
    ('{date:%m/%d/%Y}, {_}, {amount}, {description}', None),
    ('{date:%m/%d/%Y}, {memo}, {amount}, {kind}', '{memo}{kind}'),
]


def spec_amount(cell, sep):
    s = cell
    for c in '$€£¥':
        s = s.replace(c, '')            # a currency symbol says nothing about the number, wherever it stands
    s = s.strip()
    neg = s.startswith('(') and s.endswith(')')
    if neg:
        s = s[1:-1].strip()
    if sep == ',':
        s = s.replace('.', '').replace(' ', '').replace('\u00a0', '').replace('\u202f', '').replace(',', '.')
    else:
        s = s.replace(',', '')
    import re
    if not re.fullmatch(r'[+-]?(\d+\.?\d*|\.\d+)([eE][+-]?\d+)?', s):
        return None
    v = float(s)
    if not math.isfinite(v):
        return None
    return -v if neg else v


def spec_rows(cells_list, fmt, template, sep, source):
    spec = parse_format_string(fmt, template)     # column positions come from C18's function; the row semantics below are independent
    import re
    names = [m.strip('{}').split(':')[0].lstrip('+-') for m in re.findall(r'\{[^}]*\}', fmt)]
    out = []
    for cells in cells_list:
        need = [i for i, n in enumerate(names) if n not in ('_', '*')]
        if len(cells) <= max(need):
            continue
        get = lambda n: cells[names.index(n)].strip()
        date_s, amt_s = get('date'), get('amount')
        caps = {n: get(n) for n in names if n not in ('date', 'amount', 'description', 'location', '_', '*')}
        if 'description' in names:
            desc = get('description')
        else:
            desc = template.format(**caps)
        if not date_s or not desc or not amt_s:
            continue
        try:
            d = datetime.strptime(date_s.split()[0], '%m/%d/%Y')
        except (ValueError, IndexError):
            continue
        a = spec_amount(amt_s, sep)
        if a is None:
            continue
        if '{+amount}' in fmt:
            a = abs(a)
        elif '{-amount}' in fmt:
            a = -a
        if a == 0:
            continue
        out.append({'date': d, 'raw_description': desc, 'amount': a, 'source': source, 'field': caps or None})
    return out


def write_file(cells_list, delim, header):
    path = os.path.join(TMP, 'data.csv')
    lines = []
    if header:
        lines.append(['Date', 'Description', 'Amount', 'Kind', 'Location'])
    lines += cells_list
    with open(path, 'w', encoding='utf-8') as f:
        if delim in (None, ';'):
            import csv
            w = csv.writer(f, delimiter=';' if delim == ';' else ',')
            for l in lines:
                w.writerow(l)
        elif delim in ('tab', '\t', '|'):
            ch = '|' if delim == '|' else '\t'
            for l in lines:
                f.write(ch.join(l) + '\n')
    return path


def view(txns):
    return [{'date': t['date'], 'raw_description': t['raw_description'], 'amount': t['amount'], 'source': t['source'], 'field': t.get('field')} for t in txns]


def check_file(idx, fi, delim, header, sep='.'):
    fmt, template = FORMATS[fi]
    cells_list = [ROWS[i] for i in idx]
    if delim in ('tab', '\t') and any('\t' in c for r in cells_list for c in r):
        return
    if delim == '|' and any('|' in c for r in cells_list for c in r):
        return
    w = {'fn': 'parse_generic_csv', 'rows': list(idx), 'format': fi, 'delimiter': delim, 'has_header': header}
    O.case(('file', tuple(idx), fi, delim, header))
    path = write_file(cells_list, delim, header)
    src = {'name': 'Bank', 'file': path, 'format': fmt, 'has_header': header}
    if template:
        src['columns'] = {'description': template}
    if delim:
        src['delimiter'] = delim
    spec = resolve_source_format(src)['_format_spec']
    try:
        got = view(parse_generic_csv(path, spec, [], source_name='Bank', decimal_separator=sep))
    except Exception as e:
        O.fail('C05.parse_generic_csv.raises', w, 'list of transactions', '%s: %s' % (type(e).__name__, e))
        return
    want = spec_rows(cells_list, fmt, template, sep, 'Bank')
    if got != want:
        O.fail('C05.parse_generic_csv.rows', w, [(t['raw_description'], t['amount']) for t in want], [(t['raw_description'], t['amount'], str(t['field'])) for t in got],
               'parse_generic_csv(file, resolve_source_format(source)._format_spec, ...)')
        if len(got) == len(want):
            for g, x in zip(got, want):
                if g != x:
                    O.fail('C05.parse_generic_csv.fields', w, {k: str(v) for k, v in x.items()}, {k: str(v) for k, v in g.items()})
                    break


def check_special_files():
    """a regular-expression delimiter whose pattern has an optional group (a blank column), and files that start with a UTF-8 byte order mark"""
    fmt = '{date:%Y-%m-%d}, {description}, {amount}'
    path = os.path.join(TMP, 'special.txt')
    # (name, delimiter, has_header, file text, expected (description, amount) in order)
    cases = [
        ('regex_optional_group', 'regex:^(\\S+) (\\w+)(?: (-?[\\d.]+))?$', False, '2024-01-01 COFFEE 5.00\n2024-01-02 PENDING\n2024-01-03 MILK 3.00\n', [('COFFEE', 5.0), ('MILK', 3.0)]),
        ('regex_optional_group_first_row', 'regex:^(\\S+) (\\w+)(?: (-?[\\d.]+))?$', False, '2024-01-02 PENDING\n2024-01-03 MILK 3.00\n', [('MILK', 3.0)]),
        ('regex_alternation_four_columns', 'regex:^(\\S+) (?:(\\w+)|"([^"]*)") (-?[\\d.]+)$', False, '2024-01-01 COFFEE 5.00\n2024-01-02 "TWO WORDS" 6.00\n2024-01-03 MILK 3.00\n', [('COFFEE', 5.0), ('MILK', 3.0)]),
        ('bom_no_header', None, False, '\ufeff2024-01-01,ALPHA,5.00\n2024-01-02,BETA,6.00\n', [('ALPHA', 5.0), ('BETA', 6.0)]),
        ('bom_header', None, True, '\ufeffDate,Description,Amount\n2024-01-01,ALPHA,5.00\n2024-01-02,BETA,6.00\n', [('ALPHA', 5.0), ('BETA', 6.0)]),
        ('bom_semicolon_no_header', ';', False, '\ufeff2024-01-01;ALPHA;5.00\n2024-01-02;BETA;6.00\n', [('ALPHA', 5.0), ('BETA', 6.0)]),
        ('bom_regex_no_header', 'regex:^(\\S+) (\\w+) (-?[\\d.]+)$', False, '\ufeff2024-01-01 ALPHA 5.00\n2024-01-02 BETA 6.00\n', [('ALPHA', 5.0), ('BETA', 6.0)]),
    ]
    # a line of the file ends at a line break, not at the other characters str.splitlines() breaks at (U+2028, form feed, NEL ...): such a character inside a cell is text
    cases.append(('regex_rows_with_unicode_separators_in_a_cell', 'regex:^(\\S+) (.+) (-?[\\d.]+)$', True,
                  'date description amount\n2024-01-01 ALPHA\u2028ONE 5.00\n2024-01-02 BETA 6.00\n2024-01-03 GAM\x0cMA 7.00\n2024-01-04 DEL\x85TA 8.00\n',
                  [('ALPHA\u2028ONE', 5.0), ('BETA', 6.0), ('GAM\x0cMA', 7.0), ('DEL\x85TA', 8.0)]))
    # the header is one CSV record, not one line of text: a quoted header cell may contain a line break
    cases.append(('header_cell_with_line_break', None, True, 'Date,Description,"Amount\n"\n2024-01-01,ALPHA,5.00\n2024-01-02,BETA,6.00\n', [('ALPHA', 5.0), ('BETA', 6.0)]))
    cases.append(('header_cell_with_line_break_semicolon', ';', True, 'Date;"Descr\niption";"Amount\n"\n2024-01-01;ALPHA;5.00\n2024-01-02;BETA;6.00\n', [('ALPHA', 5.0), ('BETA', 6.0)]))
    # the two-character text backslash-t (what `delimiter: '\\t'` in single quotes gives in YAML) means tab, as the documentation says
    cases.append(('backslash_t_delimiter', '\\t', False, '2024-01-01\tALPHA\t5.00\n2024-01-02\tBETA\t6.00\n', [('ALPHA', 5.0), ('BETA', 6.0)]))
    # a byte that is not UTF-8 in one row (a Latin-1 export): the other rows are read as if that row were not there or were read with a replacement
    # character - (expected list None: only 'BETA' is checked)
    cases.append(('invalid_utf8_byte_in_one_row', None, False, b'2024-01-01,CAF\xe9 ONE,5.00\n2024-01-02,BETA,6.00\n', None))
    cases.append(('invalid_utf8_byte_in_one_row_semicolon', ';', True, b'Date;Description;Amount\n2024-01-01;BETA;6.00\n2024-01-02;M\xfcNCHEN;7.00\n', None))
    for name, delim, header, text, want in cases:
        O.case(('special', name))
        w = {'fn': 'parse_generic_csv', 'special': name, 'delimiter': delim, 'has_header': header, 'file_text': text if isinstance(text, str) else repr(text)}
        with open(path, 'wb') as f:
            f.write(text.encode('utf-8') if isinstance(text, str) else text)
        src = {'name': 'Bank', 'file': path, 'format': '{date:%Y-%m-%d}, {description}, {_}, {amount}' if 'four_columns' in name else fmt, 'has_header': header}
        if delim:
            src['delimiter'] = delim
        spec = resolve_source_format(src)['_format_spec']
        try:
            got = [(t['raw_description'], t['amount']) for t in parse_generic_csv(path, spec, [], source_name='Bank')]
        except Exception as e:
            O.fail('C05.parse_generic_csv.raises', w, want, '%s: %s' % (type(e).__name__, e), 'parse_generic_csv on the file text given')
            continue
        if want is None:
            if ('BETA', 6.0) not in got or len(got) > 2:
                O.fail('C05.parse_generic_csv.rows', w, "the row 'BETA' 6.00 is read whatever happens to the row with the invalid byte", got, 'parse_generic_csv on the file bytes given')
        elif got != want:
            O.fail('C05.parse_generic_csv.rows', w, want, got, 'parse_generic_csv on the file text given')
    # a delimiter setting that is none of the documented forms is refused, not silently read as comma (every row would be dropped without a word)
    for bad in ('||', 'tabs', '; '):
        O.case(('special', 'unsupported_delimiter', bad))
        with open(path, 'w', encoding='utf-8') as f:
            f.write('2024-01-01%sALPHA%s5.00\n' % (bad, bad))
        spec = resolve_source_format({'name': 'Bank', 'file': path, 'format': fmt, 'has_header': False, 'delimiter': bad})['_format_spec']
        try:
            got = parse_generic_csv(path, spec, [], source_name='Bank')
        except ValueError:
            continue
        except Exception as e:
            got = '%s: %s' % (type(e).__name__, e)
        if got == [] or isinstance(got, str):
            O.fail('C05.unsupported_delimiter_read_as_comma', {'fn': 'parse_generic_csv', 'special': 'unsupported_delimiter', 'delimiter': bad}, 'ValueError naming the delimiter (or the rows)', got,
                   'resolve_source_format + parse_generic_csv with a delimiter that is not None / tab / one character / regex:...')


def check_source_settings():
    """per-source overrides land on that source's FormatSpec only"""
    fmt = FORMATS[0][0]
    O.case(('settings',))
    a = resolve_source_format({'name': 'A', 'file': 'a.csv', 'format': fmt, 'has_header': False})
    b = resolve_source_format({'name': 'B', 'file': 'b.csv', 'format': fmt, 'has_header': True, 'negate_amount': True, 'delimiter': 'tab'})
    c = resolve_source_format({'name': 'C', 'file': 'c.csv', 'format': fmt})
    sa, sb, sc = a['_format_spec'], b['_format_spec'], c['_format_spec']
    got = [(s.has_header, s.negate_amount, s.delimiter) for s in (sa, sb, sc)]
    want = [(False, False, None), (True, True, 'tab'), (True, False, None)]
    if got != want:
        O.fail('C05.source_settings_leak', {'fn': 'resolve_source_format'}, want, got, 'three sources with the same format string')


def main():
    try:
        if O.witness:
            w = O.witness
            if w.get('fn') == 'parse_amount':
                try:
                    got = parse_amount(w['cell'], w['sep'])
                    want = spec_amount(w['cell'], w['sep'])
                    O.case(('w',))
                    if want is None or got != want:
                        O.fail('C05.parse_amount.value', w, want if want is not None else 'ValueError', repr(got))
                except ValueError:
                    pass
            elif w.get('fn') == 'resolve_source_format':
                check_source_settings()
            elif 'special' in w:
                check_special_files()
            else:
                check_file(w['rows'], w['format'], w['delimiter'], w['has_header'])
            O.finish()
        check_amounts()
        check_source_settings()
        check_special_files()
        n = len(ROWS)
        # every single row, every pair (row independence), and a few long interleavings
        combos = [[i] for i in range(n)] + [list(p) for p in itertools.permutations(range(n), 2) if (p[0] + p[1] + O.seed) % (1 if O.tier != 'quick' else 3) == 0]
        combos += [list(range(n)), list(reversed(range(n))), [0, 11, 1, 12, 2, 4, 3, 8, 13], [0, 17, 18, 1], [17, 18, 0], [4, 4, 0]]
        for idx in combos:
            for fi in range(len(FORMATS)):
                for delim, header in ((None, True), (None, False), ('tab', True), (';', True), ('\t', True), ('|', False)):
                    if len(idx) == 2 and (delim, header) != (None, True) and O.tier == 'quick':
                        continue
                    if delim in ('\t', '|') and len(idx) > 1 and O.tier == 'quick':
                        continue
                    check_file(idx, fi, delim, header)
        # european decimal separator
        eu = [['01/05/2025', 'EURO', '1.234,56', 'k', ''], ['01/06/2025', 'EURO2', '(12,5)', 'k', ''], ['01/07/2025', 'EURO3', '1 000,00', 'k', '']]
        path = write_file(eu, ';', True)
        O.case(('eu',))
        spec = resolve_source_format({'name': 'E', 'file': path, 'format': FORMATS[0][0], 'delimiter': ';'})['_format_spec']
        got = [t['amount'] for t in parse_generic_csv(path, spec, [], source_name='E', decimal_separator=',')]
        if got != [1234.56, -12.5, 1000.0]:
            O.fail('C05.decimal_separator', {'fn': 'parse_generic_csv', 'european': True}, [1234.56, -12.5, 1000.0], got)
        O.sample({'rows': [0, 11, 1], 'format': 1, 'delimiter': None, 'has_header': True})
    finally:
        shutil.rmtree(TMP, ignore_errors=True)
    O.finish()


O.guard(main)
