"""Bounded stand-in / replay oracle for C13: executes the classification block extracted from the
tree's spending_report.js under node and the Python functions on the same inputs."""
import itertools
import json
import os
import re
import shutil
import subprocess
import tempfile

from oracle_lib import Oracle

import tally
from tally import classification as cl

O = Oracle()
JS_PATH = os.path.join(os.path.dirname(tally.__file__), 'spending_report.js')

DRIVER = r'''
const fs = require('fs');
const inputs = JSON.parse(fs.readFileSync(0, 'utf8'));
const out = [];
for (const c of inputs.cases) {
  try {
    const r = categorizeAmount(c.amount, c.tags);
    out.push({cat: r, excl: isExcludedFromSpending(c.tags), inc: isIncome(c.tags), tr: isTransfer(c.tags),
              inv: isInvestment(c.tags), low: Array.from(getTagsLower(c.tags)).sort()});
  } catch (e) {
    out.push({error: String(e)});       // the script throws where the command line computes a value
  }
}
const cf = inputs.flows.map(f => calculateCashFlow(f[0], f[1], f[2]));
let lowerDiffs = [];
if (inputs.codepoints) {
  const letters = new Set('incomevstraf'.split(''));
  const res = [];
  for (let cp = 0; cp < 0x110000; cp++) {
    if (cp >= 0xD800 && cp <= 0xDFFF) continue;
    const l = String.fromCodePoint(cp).toLowerCase();
    let hit = false;
    for (const ch of l) { if (letters.has(ch)) { hit = true; break; } }
    if (hit) res.push([cp, l]);
  }
  lowerDiffs = res;
}
process.stdout.write(JSON.stringify({out: out, cf: cf, lower: lowerDiffs}));
'''


def extract_block(text):
    lines = text.split('\n')
    start = next(i for i, l in enumerate(lines) if 'TRANSACTION CLASSIFICATION' in l)
    start = start + 2 if lines[start + 1].startswith('// ===') else start + 1
    end = next(j for j in range(start, len(lines)) if lines[j].startswith('// ====='))
    return '\n'.join(lines[start:end])


def run_node(cases, flows, codepoints):
    d = tempfile.mkdtemp(prefix='c13-')
    try:
        block = extract_block(open(JS_PATH, encoding='utf-8').read())
        p = os.path.join(d, 'run.js')
        open(p, 'w').write(block + '\n' + DRIVER)
        r = subprocess.run(['node', p], input=json.dumps({'cases': cases, 'flows': flows, 'codepoints': codepoints}),
                           capture_output=True, text=True, timeout=600)
        if r.returncode != 0:
            raise RuntimeError('node failed: ' + r.stderr[-800:])
        return json.loads(r.stdout)
    finally:
        shutil.rmtree(d, ignore_errors=True)


PY2JS = {'income': 'income', 'investment': 'investment', 'transfer_in': 'transferIn', 'transfer_out': 'transferOut',
         'spending': 'spending', 'credits': 'credits'}


def compare(cases, flows, codepoints):
    res = run_node(cases, flows, codepoints)
    for c, j in zip(cases, res['out']):
        O.case((c['amount'], tuple(c['tags']) if c['tags'] is not None else None))
        py = cl.categorize_amount(c['amount'], c['tags'])
        w = {'amount': c['amount'], 'tags': c['tags']}
        if 'error' in j:
            O.fail('js_classification_throws', w, {PY2JS[k]: float(v) for k, v in py.items()}, j['error'], 'the classification block of spending_report.js under node')
            continue
        pyv = {PY2JS[k]: float(v) for k, v in py.items()}
        jsv = {k: float(v) for k, v in j['cat'].items()}
        if pyv != jsv:
            O.fail('categorize_amount_vs_categorizeAmount', w, pyv, jsv, 'categorize_amount / categorizeAmount')
        if bool(cl.is_excluded_from_spending(c['tags'])) != bool(j['excl']):
            O.fail('is_excluded_from_spending_vs_js', w, bool(cl.is_excluded_from_spending(c['tags'])), j['excl'])
        for name, fn, key in (('is_income', cl.is_income, 'inc'), ('is_transfer', cl.is_transfer, 'tr'), ('is_investment', cl.is_investment, 'inv')):
            if bool(fn(c['tags'])) != bool(j[key]):
                O.fail(name + '_vs_js', w, bool(fn(c['tags'])), j[key])
        if sorted(cl.get_tags_lower(c['tags'])) != j['low']:
            O.fail('get_tags_lower_vs_js', w, sorted(cl.get_tags_lower(c['tags'])), j['low'])
    for f, v in zip(flows, res['cf']):
        O.case(('flow',) + tuple(f))
        if cl.calculate_cash_flow(*f) != v:
            O.fail('calculate_cash_flow_vs_js', {'flow': f}, cl.calculate_cash_flow(*f), v)
    if codepoints:
        letters = set('incomevstraf')
        py = []
        for cp in range(0x110000):
            if 0xD800 <= cp <= 0xDFFF:
                continue
            l = chr(cp).lower()
            if any(ch in letters for ch in l):
                py.append([cp, l])
        O.case(('codepoints', len(py)))
        if py != res['lower']:
            diff = [x for x in py if x not in res['lower']] + [x for x in res['lower'] if x not in py]
            O.fail('A5.lowercase_preimages_differ', {'first_differences': diff[:5]}, 'identical preimages of the tag letters', diff[:5])
        O.sample({'A5': 'code points whose lower-casing contains a tag letter: %d, identical in node and CPython' % len(py)})


def _js_computed(source, start_marker):
    """text of `const X = computed(() => { ... });` (brace matching)"""
    start = source.index(start_marker)
    i = source.index('{', start)
    depth = 0
    while True:
        if source[i] == '{':
            depth += 1
        elif source[i] == '}':
            depth -= 1
            if depth == 0:
                break
        i += 1
    return source[start:source.index(';', i) + 1]


def check_filtered_totals():
    """"so totals recomputed in the browser when filtering agree with the totals tally prints": the report's own filteredViewTotals (run unmodified under node
    on the data embedded in a report, with a filter that every transaction passes) against the figures of analyze_transactions - for merchants whose
    transactions are not all tagged alike (the merchant's tags are the union over its transactions)"""
    from datetime import datetime
    from tally.analyzer import analyze_transactions, write_summary_file_vue
    js_src = open(JS_PATH, encoding='utf-8').read()
    classification = js_src[js_src.index('const INCOME_TAG'):js_src.index('// ========== REUSABLE COMPONENTS')]
    totals_code = _js_computed(js_src, 'const filteredViewTotals = computed(')

    def T(merchant, amount, tags, m=1, d=5):
        return {'merchant': merchant, 'category': 'Cat', 'subcategory': 'Sub', 'amount': amount, 'date': datetime(2025, m, d), 'description': merchant,
                'raw_description': merchant.upper(), 'source': 'Card', 'tags': list(tags), 'location': None}
    suites = {
        'transfer_tag_on_one_of_two': [T('Venmo', 50.0, []), T('Venmo', -300.0, ['transfer'], 1, 20), T('Grocer', 100.0, [], 2, 3)],
        'income_tag_on_one_of_two': [T('Acme', -1000.0, ['income']), T('Acme', 12.25, [], 2, 2), T('Grocer', 100.0, [], 2, 3)],
        'investment_and_refund': [T('Broker', 200.0, ['investment']), T('Broker', 15.0, [], 1, 9), T('Store', -7.5, ['refund'], 2, 1), T('Store', 30.0, [], 2, 2)],
        'uniform_tags': [T('Bank', 80.0, ['transfer']), T('Bank', -60.0, ['Transfer'], 1, 9), T('Grocer', 100.0, [], 2, 3)],
    }
    d = tempfile.mkdtemp(prefix='c13f-')
    try:
        for name, txns in suites.items():
            O.case(('filtered_totals', name))
            stats = analyze_transactions([dict(t, tags=list(t['tags'])) for t in txns])
            path = os.path.join(d, 'r.html')
            write_summary_file_vue(stats, path, sources=['Card'], embedded_html=True)
            text = open(path, encoding='utf-8').read()
            i = text.index('window.spendingData = ') + len('window.spendingData = ')
            data = json.JSONDecoder().raw_decode(text[i:].replace('<\\/', '</'))[0]
            script = (classification + '\nconst computed = f => ({ get value() { return f(); } });\n' + 'const filteredCategoryView = { value: ' + json.dumps(data['categoryView']) + ' };\n'
                      + totals_code + '\nconsole.log(JSON.stringify(filteredViewTotals.value));\n')
            jp = os.path.join(d, 'browser.js')
            open(jp, 'w').write(script)
            r = subprocess.run(['node', jp], capture_output=True, text=True, timeout=120)
            if r.returncode != 0:
                O.fail('C13.filtered_totals_script_failed', {'filtered_totals': name}, 'node runs the report code', r.stderr[-300:])
                continue
            js = json.loads(r.stdout)
            want = {'spending': stats['spending_total'], 'credits': stats['credits_total'], 'income': stats['income_total'], 'transfers': stats['transfers_net']}
            got = {k: js.get(k) for k in want}
            if any(abs(float(got[k] or 0) - float(want[k])) > 0.005 for k in want):
                O.fail('C13.filtered_totals_differ_from_cli', {'filtered_totals': name, 'transactions': [(t['merchant'], t['amount'], t['tags']) for t in txns]}, want, got,
                       'filteredViewTotals of spending_report.js (node, unmodified) on the embedded data vs analyze_transactions')
    finally:
        shutil.rmtree(d, ignore_errors=True)


def main():
    if O.witness:
        w = O.witness
        if 'filtered_totals' in w:
            check_filtered_totals()
        elif 'flow' in w:
            compare([], [w['flow']], False)
        else:
            compare([{'amount': w['amount'], 'tags': w['tags']}], [], False)
        O.finish()
    pool = ['income', 'Income', 'INVESTMENT', 'investment', 'transfer', 'Transfer', 'TRANSFER', 'groceries', '']
    amounts = [-5.0, -0.25, 0.0, 0.25, 2.5, 100.0, 1e6]
    maxlen = 3 if O.tier == 'quick' else 4
    cases = []
    # amounts that are not whole cents (parse_amount keeps them as written), with no tag and with each special tag
    for a in (12.345, 0.004, 1.005, -0.005, 2.675, 1e-9):
        for tags in ([], ['income'], ['Transfer'], ['investment'], ['x'], None):
            cases.append({'amount': a, 'tags': tags})
    for n in range(0, maxlen + 1):
        for tags in itertools.permutations(pool, n):
            for a in amounts:
                cases.append({'amount': a, 'tags': list(tags)})
    cases.append({'amount': 3.0, 'tags': None})
    flows = [[1000.0, 1200.0, 200.0], [0.0, 0.0, 0.0], [5.5, 2.25, 1.0]]
    O.sample({'amount': 2.5, 'tags': ['Transfer', 'INVESTMENT']})
    compare(cases, flows, True)
    check_filtered_totals()
    O.finish()


O.guard(main)
