#!/bin/sh
# run every claimed check on /repo (quick tier), 4 at a time; prints one verdict line per property
cd "$(dirname "$0")/.."
ids=$(python3 -c "import json;print(' '.join(c['property_id'] for c in json.load(open('MANIFEST.json'))['checks']))")
echo $ids | tr ' ' '\n' | xargs -P ${RUNALL_JOBS:-4} -I{} sh -c './check {} --tier ${1:-quick} > /tmp/runall_{}.log 2>&1; echo "{} exit=$? $(tail -1 /tmp/runall_{}.log | cut -c1-120)"' _ "$1"
