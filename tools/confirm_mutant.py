#!/usr/bin/env python3
"""Confirm a seeded change produced by an independent sub-agent and file it under /verif/seeded/.

usage: tools/confirm_mutant.py <Cxx> <src-dir with patch.diff demo.py meta.json> <name> [--check Cyy ...]

In a scratch copy of /repo (removed afterwards): the patch must apply, the pinned baseline (701 stable
tests) must still pass, demo.py must FAIL with the patch and PASS without it.  Then the given checks are
run against the patched copy and their verdicts recorded in meta.json.
"""
import json
import os
import shutil
import subprocess
import sys
import tempfile

VERIF = os.path.dirname(os.path.dirname(os.path.abspath(__file__)))


def sh(cmd, **kw):
    return subprocess.run(cmd, shell=True, capture_output=True, text=True, **kw)


def main():
    prop, src, name = sys.argv[1:4]
    checks = [prop]
    if '--check' in sys.argv:
        checks = sys.argv[sys.argv.index('--check') + 1:]
    d = tempfile.mkdtemp(prefix='confirm-')
    try:
        clean = os.path.join(d, 'clean')
        mut = os.path.join(d, 'mut')
        for t in (clean, mut):
            sh('git -C /repo worktree add --detach %s HEAD' % t)
        r = sh('git -C %s apply %s' % (mut, os.path.join(src, 'patch.diff')))
        rec = {'property': prop, 'name': name}
        if r.returncode != 0:
            r2 = sh('patch -p1 -d %s < %s' % (mut, os.path.join(src, 'patch.diff')))
            if r2.returncode != 0:
                print('patch does not apply to current /repo HEAD: %s' % (r.stderr + r2.stdout)[-400:])
                return 2
        base = sh('python3 %s/tools/baseline.py %s' % (VERIF, mut))
        rec['baseline_with_change'] = base.stdout.strip().splitlines()[0] if base.stdout else base.stderr[-200:]
        ok_base = base.returncode == 0
        env = dict(os.environ)
        res = {}
        for label, tree in (('with_change', mut), ('without_change', clean)):
            env['PYTHONPATH'] = os.path.join(tree, 'src')
            p = subprocess.run(['/venv/bin/python', os.path.join(src, 'demo.py')], capture_output=True, text=True, env=env, cwd=tree, timeout=900)
            res[label] = {'exit': p.returncode, 'tail': (p.stdout + p.stderr).strip()[-300:]}
        rec['demo'] = res
        ok_demo = res['with_change']['exit'] != 0 and res['without_change']['exit'] == 0
        rec['confirmed'] = bool(ok_base and ok_demo)
        verdicts = {}
        # a verdict on the changed tree says something about the change only if the same check is silent on the unchanged one: with an oracle that is
        # ahead of /repo (a clean-tree defect it already knows, not repaired yet) every change would look "reported" (this happened once, §11 round 5)
        for c in checks:
            env0 = dict(os.environ, PYVC_REPO=clean)
            p0 = subprocess.run([os.path.join(VERIF, 'check'), c, '--tier', 'quick'], capture_output=True, text=True, env=env0, cwd=VERIF, timeout=3600)
            if p0.returncode != 0:
                print('check %s does not hold on the unchanged tree (exit %d): repair that first, then confirm changes' % (c, p0.returncode))
                return 2
        for c in checks:
            env2 = dict(os.environ)
            env2['PYVC_REPO'] = mut
            p = subprocess.run([os.path.join(VERIF, 'check'), c, '--tier', 'quick'], capture_output=True, text=True, env=env2, cwd=VERIF, timeout=3600)
            lines = [l for l in p.stdout.splitlines() if l.startswith(('VIOLATION', 'UNDECIDED', 'HELD', 'KNOWN'))]
            verdicts[c] = {'exit': p.returncode, 'lines': [l[:300] for l in lines[:4]]}
        rec['checks'] = verdicts
        rec['detected_by'] = [c for c, v in verdicts.items() if v['exit'] == 1]
        try:
            rec['agent_meta'] = json.load(open(os.path.join(src, 'meta.json')))
        except Exception:
            rec['agent_meta'] = None
        rec['what_was_run'] = ('scratch worktrees of /repo HEAD; baseline = tools/baseline.py (pinned pytest command, 701 stable tests); '
                               'demo.py under /venv/bin/python with PYTHONPATH=<tree>/src; checks with PYVC_REPO=<patched tree> ./check <id> --tier quick')
        if rec['confirmed']:
            dst = os.path.join(VERIF, 'seeded', prop, name)
            os.makedirs(dst, exist_ok=True)
            shutil.copy(os.path.join(src, 'patch.diff'), os.path.join(dst, 'patch.diff'))
            shutil.copy(os.path.join(src, 'demo.py'), os.path.join(dst, 'demo.py'))
            json.dump(rec, open(os.path.join(dst, 'meta.json'), 'w'), indent=1)
        print(json.dumps({k: rec[k] for k in ('property', 'name', 'confirmed', 'baseline_with_change', 'detected_by')}))
        print('  demo with/without:', res['with_change']['exit'], res['without_change']['exit'], '| checks:', {c: v['exit'] for c, v in verdicts.items()})
        return 0
    finally:
        for t in ('clean', 'mut'):
            sh('git -C /repo worktree remove --force %s' % os.path.join(d, t))
        shutil.rmtree(d, ignore_errors=True)


if __name__ == '__main__':
    sys.exit(main())
