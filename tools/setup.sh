#!/bin/sh
# offline setup: nothing to build; verify the tool chain the checks need is present
set -e
python3-vt -c "import z3; assert z3.get_version_string().startswith('5.')"
command -v z3-new >/dev/null
/usr/bin/cvc5 --version | head -1
/venv/bin/python -c "import tally"
command -v node >/dev/null
mkdir -p evidence replays
echo setup-ok
