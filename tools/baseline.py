#!/usr/bin/env python3
"""Run the repository's pinned test suite on /repo (or $1) and compare with BASELINE.json's stable_pass."""
import json, subprocess, sys, tempfile, os, xml.etree.ElementTree as ET
repo = sys.argv[1] if len(sys.argv) > 1 else '/repo'
base = json.load(open('/root/.vp/BASELINE.json'))
d = tempfile.mkdtemp(prefix='baseline-')
x = os.path.join(d, 'j.xml')
env = dict(os.environ)
if repo != '/repo':
    env['PYTHONPATH'] = os.path.join(repo, 'src')
subprocess.run(['/venv/bin/python', '-m', 'pytest', '-ra', '-q', '-p', 'no:cacheprovider', '--timeout=900',
                '--continue-on-collection-errors', '--junitxml=' + x], cwd=repo, env=env, capture_output=True)
passed = set()
for tc in ET.parse(x).getroot().iter('testcase'):
    if not any(ch.tag in ('failure', 'error', 'skipped') for ch in tc):
        passed.add('%s::%s' % (tc.get('classname'), tc.get('name')))
want = set(base['stable_pass'])
missing = sorted(want - passed)
print('stable_pass=%d passed_now=%d missing=%d' % (len(want), len(passed), len(missing)))
for m in missing[:20]:
    print('  NOT PASSING:', m)
import shutil; shutil.rmtree(d, ignore_errors=True)
sys.exit(1 if missing else 0)
