import sys, os
sys.path.insert(0, '/verif')
import importlib
from pyvc import runner, core
pid = sys.argv[1]
mod = importlib.import_module('props.' + pid)
res = runner.generate(mod.harnesses('quick'))
print('obligations', len(res.obligations), 'gen', round(res.gen_s,1), res.unsupported[:3])
core.discharge_all(res.obligations, budget=10)
obs = sorted(res.obligations, key=lambda o: -o.time_s)
for o in obs[:15]:
    print(round(o.time_s,2), o.status, o.backend, o.oid, o.smt_size)
from collections import Counter
c = Counter()
for o in res.obligations: c[o.oid.split('::')[0]] += o.time_s
print(c.most_common(8))
