#!/usr/bin/env python3
"""Run all 20 checks against every behaviour-preserving refactoring under seeded/_harmless and record the verdicts (a VIOLATION is a false alarm)."""
import glob
import json
import os
import subprocess
import sys

VERIF = os.path.dirname(os.path.dirname(os.path.abspath(__file__)))


def main():
    out = {}
    for d in sorted(glob.glob(os.path.join(VERIF, 'seeded', '_harmless', '*'))):
        if not os.path.isdir(d):
            continue
        only = [a for a in sys.argv[1:] if not a.startswith('-')]
        if only and not any(os.path.basename(d).startswith(o + '-') or os.path.basename(d) == o for o in only):
            continue
        p = subprocess.run([sys.executable, os.path.join(VERIF, 'tools', 'try_refactor.py'), os.path.join(d, 'patch.diff')], capture_output=True, text=True, timeout=7200)
        last = [l for l in p.stdout.splitlines() if l.startswith('{"patch"')]
        rec = json.loads(last[-1]) if last else {'error': p.stdout[-300:]}
        rec['details'] = [l[:300] for l in p.stdout.splitlines() if ' exit=' in l]
        rec['repo_head'] = subprocess.run('git -C /repo rev-parse --short HEAD', shell=True, capture_output=True, text=True).stdout.strip()
        json.dump(rec, open(os.path.join(d, 'result.json'), 'w'), indent=1)
        out[os.path.basename(d)] = (rec.get('violations'), rec.get('undecided'))
        print(os.path.basename(d), rec.get('violations'), rec.get('undecided'), flush=True)


if __name__ == '__main__':
    main()
