#!/usr/bin/env python3
"""Regenerate /verif/MANIFEST.json from the table below (keeps it schema-valid at all times)."""
import json
import os

HERE = os.path.dirname(os.path.dirname(os.path.abspath(__file__)))

CLAIMED = {
    # id: (category, text, level_note, technique, design_ref)
}

NOT_BUILT = 'contracts for this property are not built yet in this round (see DESIGN.md section 7); no other technique is substituted'
NOT_APPLICABLE = {}


def load_claims():
    import importlib.util
    p = os.path.join(HERE, 'tools', 'claims.py')
    spec = importlib.util.spec_from_file_location('claims', p)
    m = importlib.util.module_from_spec(spec)
    spec.loader.exec_module(m)
    return m.CLAIMED, m.NOT_APPLICABLE


def main():
    claimed, na = load_claims()
    ids = [json.loads(l)['id'] for l in open(os.path.join(HERE, 'properties.jsonl'))]
    checks = []
    for pid in ids:
        if pid not in claimed:
            continue
        c = claimed[pid]
        checks.append({
            'property_id': pid,
            'quick_cmd': './check %s --tier quick' % pid,
            'thorough_cmd': './check %s --tier thorough' % pid,
            'evidence_file': 'evidence/%s.json' % pid,
            'replay_cmd_template': './check %s --replay {path}' % pid,
            'engine': 'pyvc',
            'level_claimed': {'category': c['category'], 'text': c['text'], 'design_ref': c.get('design_ref', 'DESIGN.md section 7 ' + pid)},
            'level_note': c['level_note'],
            'technique': c['technique'],
        })
    man = {
        'version': 1,
        'setup_cmd': 'sh tools/setup.sh',
        'hooks': {
            'guard': 'TALLY_VERIF',
            'enable': 'no source hooks are needed: contracts are sidecar files under /verif/props and the verifier re-reads /repo/src on every run (TALLY_VERIF is unused)',
            'baseline_off_cmd': 'cd /repo && /venv/bin/python -m pytest -ra -q -p no:cacheprovider --timeout=900 --continue-on-collection-errors',
            'source_commits': [],
            'add_only': True,
        },
        'engines': [{
            'name': 'pyvc', 'path': 'pyvc/',
            'serves_properties': [c['property_id'] for c in checks],
            'kind_free_text': 'self-written contract-based deductive verifier for Python: symbolic execution of the real AST of /repo/src '
                              '(re-read every run), sidecar contracts (pre/post, loop invariants, ghost functions, frames), VCs '
                              'discharged by z3 5.1 / cvc5 1.0 in killed-on-deadline subprocesses; bounded stand-ins and counterexample '
                              'replay run the real code under /venv/bin/python',
        }],
        'checks': checks,
        'not_applicable': [{'property_id': pid, 'reason': na.get(pid, NOT_BUILT)} for pid in ids if pid not in claimed],
        'notes': 'Exit codes of ./check: 0 held (KNOWN-FINDING lines possible), 1 VIOLATION, 2 undecided (unsupported construct / solver gave no verdict; never reported as a violation), 3 checker error.',
    }
    json.dump(man, open(os.path.join(HERE, 'MANIFEST.json'), 'w'), indent=1)
    print('MANIFEST.json: %d checks, %d not_applicable' % (len(checks), len(man['not_applicable'])))


if __name__ == '__main__':
    main()
