#!/bin/sh
# tools/try_mutant.sh <patch.diff> <Cxx> [tier]   -- run a check against a scratch copy of /repo with the patch applied
set -e
P="$1"; C="$2"; T="${3:-quick}"
D=$(mktemp -d /tmp/pyvc-mut.XXXXXX)
mkdir -p "$D/repo"
cp -r /repo/src /repo/config /repo/docs "$D/repo/" 2>/dev/null || cp -r /repo/src "$D/repo/"
patch -s -p1 -d "$D/repo" < "$P"
cd /verif
set +e
PYVC_REPO="$D/repo" ./check "$C" --tier "$T"
rc=$?
rm -rf "$D"
echo "exit=$rc"
