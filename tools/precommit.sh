#!/bin/sh
# cheap sanity before a commit: every module compiles and imports, the manifest is regenerated and validates
cd "$(dirname "$0")/.."
for f in props/*.py oracles/*.py pyvc/*.py tools/*.py; do python3 -m py_compile "$f" || exit 1; done
python3-vt - <<'PY' || exit 1
import sys, importlib
sys.path.insert(0, '.')
for i in range(1, 21):
    m = importlib.import_module('props.C%02d' % i)
    assert hasattr(m, 'harnesses') and m.harnesses('quick'), i
print('all 20 property modules import and build their harness lists')
PY
python3 tools/gen_manifest.py && python3-vt -c "
import json,jsonschema
jsonschema.validate(json.load(open('MANIFEST.json')), json.load(open('/root/.vp/MANIFEST.schema.json'))); print('manifest valid')"
