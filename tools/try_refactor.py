#!/usr/bin/env python3
"""Run every check against a behaviour-preserving refactoring (scratch worktree of /repo HEAD, removed afterwards).
usage: tools/try_refactor.py <patch.diff> [Cxx ...]     prints one line per check; a VIOLATION here is a false alarm."""
import json
import os
import re
import subprocess
import sys
import tempfile
from concurrent.futures import ThreadPoolExecutor

VERIF = os.path.dirname(os.path.dirname(os.path.abspath(__file__)))


def sh(cmd):
    return subprocess.run(cmd, shell=True, capture_output=True, text=True)


def main():
    patch = sys.argv[1]
    ids = sys.argv[2:] or ['C%02d' % i for i in range(1, 21)]
    t = tempfile.mkdtemp(prefix='refac-')
    tree = os.path.join(t, 'tree')
    try:
        sh('git -C /repo worktree add --detach %s HEAD' % tree)
        r = sh('git -C %s apply %s' % (tree, patch))
        if r.returncode != 0:
            print('patch does not apply: %s' % r.stderr[-300:])
            return 2

        def one(c):
            env = dict(os.environ, PYVC_REPO=tree)
            p = subprocess.run([os.path.join(VERIF, 'check'), c, '--tier', 'quick'], capture_output=True, text=True, env=env, cwd=VERIF, timeout=3600)
            lines = [l for l in p.stdout.splitlines() if l.startswith(('VIOLATION', 'UNDECIDED', '  failed', '  refuted'))]
            return c, p.returncode, lines[:3]
        out = {}
        with ThreadPoolExecutor(int(os.environ.get('REFACTOR_JOBS', '4'))) as ex:
            for c, rc, lines in ex.map(one, ids):
                out[c] = rc
                if rc != 0:
                    print('%s exit=%d %s' % (c, rc, ' | '.join(l[:260] for l in lines)))
        print(json.dumps({'patch': patch, 'verdicts': out, 'violations': [c for c, rc in out.items() if rc == 1], 'undecided': [c for c, rc in out.items() if rc == 2]}))
        return 0
    finally:
        sh('git -C /repo worktree remove --force %s' % tree)
        sh('rm -rf %s' % t)


if __name__ == '__main__':
    sys.exit(main())
