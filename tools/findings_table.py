#!/usr/bin/env python3
"""Regenerate the table of repaired / recorded defects in DESIGN.md (between the FINDINGS-TABLE markers) from known_findings.jsonl and /repo's git log."""
import json
import os
import re
import subprocess

V = os.path.dirname(os.path.dirname(os.path.abspath(__file__)))
rows = [json.loads(l) for l in open(os.path.join(V, 'known_findings.jsonl')) if l.strip()]
log = subprocess.run(['git', '-C', '/repo', 'log', '--reverse', '--format=%h'], capture_output=True, text=True).stdout.split()
order = {h[:7]: i for i, h in enumerate(log)}


def short(text, n=230):
    text = re.sub(r'^fixed: property=C\d\d \w+ ', '', text)
    text = text.replace('|', '\\|').replace('\n', ' ')
    return text if len(text) <= n else text[:n - 1].rsplit(' ', 1)[0] + ' …'


fixed = sorted([r for r in rows if r['status'] == 'fixed'], key=lambda r: (order.get(r['commit'][:7], 10 ** 6), r['property']))
opened = [r for r in rows if r['status'] == 'open']
out = ['<!-- FINDINGS-TABLE -->', '',
       '**Repaired** - %d entries for %d `fix:` commits (a commit that repairs one defect visible under two properties has two entries), in commit order. '
       'Each was first shown by a check of this directory on the then-current tree with a native witness (or by a sub-agent\'s counterexample that I reproduced and then '
       'made part of the oracle / contract), repaired by one unguarded commit, the 701-test baseline re-run, and the obligation or oracle case that shows it kept.' % (len(fixed), len({r['commit'][:7] for r in fixed})), '',
       '| property | commit | what failed (witness) | found by |', '|---|---|---|---|']
for r in fixed:
    out.append('| %s | %s | %s | %s |' % (r['property'], r['commit'][:7], short(r['line']), short(r.get('found_by', 'own check'), 70)))
out += ['', '**Recorded, not repaired** - %d open entries; the check prints `KNOWN-FINDING` for each and exits 0; any other violation of the same property is still reported.' % len(opened), '',
        '| property | key | what fails, and why it is recorded rather than repaired |', '|---|---|---|']
for r in opened:
    out.append('| %s | `%s` | %s |' % (r['property'], r.get('key') or r.get('obligation'), short(r['what'], 420)))
out += ['', '<!-- /FINDINGS-TABLE -->']
p = os.path.join(V, 'DESIGN.md')
s = open(p).read()
block = '\n'.join(out)
if '<!-- FINDINGS-TABLE -->' in s:
    s = re.sub(r'<!-- FINDINGS-TABLE -->.*?<!-- /FINDINGS-TABLE -->', lambda m: block, s, flags=re.S)
else:
    raise SystemExit('markers not found in DESIGN.md')
open(p, 'w').write(s)
print('%d fixed entries, %d open' % (len(fixed), len(opened)))
