#!/usr/bin/env python3
"""Regenerate the seeded-change table at the end of DESIGN.md from seeded/*/*/meta.json (written by tools/confirm_mutant.py)."""
import glob
import json
import os
import re

HERE = os.path.dirname(os.path.dirname(os.path.abspath(__file__)))
MARK = '<!-- SEEDED-TABLE -->'


def verdict(v):
    if v['exit'] == 1:
        line = next((l for l in v['lines'] if l.startswith('VIOLATION')), '')
        return 'VIOLATION' + (' (no-failing-input-found)' if line.rstrip().endswith('no-failing-input-found') else '')
    return {0: 'HELD (missed)', 2: 'UNDECIDED'}.get(v['exit'], 'exit %s' % v['exit'])


def main():
    rows = []
    for f in sorted(glob.glob(os.path.join(HERE, 'seeded', 'C*', '*', 'meta.json'))):
        m = json.load(open(f))
        am = m.get('agent_meta') or {}
        summary = re.sub(r'\s+', ' ', (am.get('summary') or m.get('summary') or '')).replace('|', '/')
        if len(summary) > 230:
            summary = summary[:227] + '...'
        own = m['property']
        parts = []
        for c, v in sorted(m.get('checks', {}).items()):
            if c == own:
                parts.insert(0, '**%s: %s**' % (c, verdict(v)))
            elif v['exit'] == 1:
                parts.append('%s: VIOLATION' % c)
            elif v['exit'] == 2:
                parts.append('%s: UNDECIDED' % c)
        others = len([c for c in m.get('checks', {}) if c != own])
        checks = '; '.join(parts) + ((' (all %d other checks run: the rest HELD)' % others) if others >= 19 else '')
        how = m.get('decided_by', '')
        if m.get('recheck'):
            how = '%s (verdict shown is from its confirmation on the tree it was written for)' % m['recheck']
        rows.append('| %s/%s | %s | %s | %s |' % (m['property'], m['name'], summary, checks, how))
    table = ['| change | what it does (author\'s summary) | verdict of the check(s) on the changed tree | deciding part |', '|---|---|---|---|'] + rows
    # behaviour-preserving refactorings (false-alarm test)
    hrows = []
    for f in sorted(glob.glob(os.path.join(HERE, 'seeded', '_harmless', '*', 'meta.json'))):
        d = os.path.dirname(f)
        m = json.load(open(f))
        r = json.load(open(os.path.join(d, 'result.json'))) if os.path.exists(os.path.join(d, 'result.json')) else {}
        v = r.get('verdicts', {})
        summary = re.sub(r'\s+', ' ', m.get('summary', '')).replace('|', '/')
        summary = summary[:200] + ('...' if len(summary) > 200 else '')
        other = {c: rc for c, rc in v.items() if rc not in (0, 1, 2)}
        if not v:
            hrows.append('| %s | %s | %s | %s |' % (os.path.basename(d), ', '.join(m.get('files', []))[:60], summary, r.get('stale', 'not run')))
            continue
        hrows.append('| %s | %s | %s | %d HELD, %s VIOLATION, %s UNDECIDED%s%s |' % (os.path.basename(d), ', '.join(m.get('files', []))[:60], summary, sum(1 for rc in v.values() if rc == 0),
                                                                                 ', '.join(r.get('violations', [])) or 'no', ', '.join(r.get('undecided', [])) or 'no',
                                                                                 (', crashed: %s' % sorted(other)) if other else '',
                                                                                 (' - ' + r['stale']) if r.get('stale') else ' (on /repo %s)' % r.get('repo_head', '?')))
    htable = ['### Behaviour-preserving refactorings (all 20 checks on each; a VIOLATION would be a false alarm)', '',
              '| refactoring | files | what was refactored | verdicts of the 20 checks |', '|---|---|---|---|'] + hrows
    p = os.path.join(HERE, 'DESIGN.md')
    s = open(p).read()
    head = s.split(MARK)[0]
    open(p, 'w').write(head + MARK + '\n\n' + '\n'.join(table) + '\n\n' + open(os.path.join(HERE, 'seeded', 'NOTES.md')).read() + '\n' + '\n'.join(htable) + '\n')
    print('%d seeded changes' % len(rows))


if __name__ == '__main__':
    main()
